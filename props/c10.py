"""C10 - nothing a link controller transmits exceeds the peer's MIU, and
aggregation is transparent.

legs
  machine   two link controllers pumped by the harness; a generated history
            fills the send queues in any combination (UI sendto on several
            sockets, connection-mode send, pending acknowledgements, busy
            toggles, CONNECT / CC / DM / DISC / FRMR producing operations,
            resolve() calls -> SDREQ, incoming SNL PDUs with many SDREQs ->
            SDRES backlog); every exchange is judged
  sdres     exhaustive: remote Link MIU 128..2175 x aggregation on/off x
            SDRES backlog 0..600 on one controller (thorough; a seeded slice
            of MIUs with the backlogs around the frame capacities in quick)
  announce  exhaustive: one controller against a peer that exists as octets
            only; the MIUX TLV that announces the limit sits in the general
            bytes (local side NFC-DEP Initiator / Target), in the peer's
            CONNECT or in the peer's CC, with every one of the 32 settings of
            its five reserved bits x 11 bit numbers at the ends and in the
            middle of the range x aggregation on/off; a fixed probe then
            fills the queues around the announced limit
  octets    generated: the same set-up with drawn parameter strings in all
            three positions at once (VERSION / MIUX / WKS / LTO / OPT / RW /
            SN TLVs with reserved bits set, TLVs of unknown or foreign type
            interleaved, TLVs repeated, any order) and a drawn history of
            sendto / send / acknowledgements / peer data / SDREQ backlog /
            resolve() on top

"Announced" is always what vlib/ref_llcp reads from the octets (MIU = 128 +
the 11 bit MIUX number, reserved bits ignored, LLCP 1.3 4.5.2), never what the
library's own decoder made of them.

Oracles per transmitted frame (sender S, receiver R):
  info-exceeds-link-miu   information field (bytes after the 2 byte header,
                          3 byte for I/RR/RNR) <= Link MIU of R
  ui-exceeds-link-miu     every UI payload <= Link MIU of R
  i-exceeds-connection-miu every I payload <= MIU that the receiving
                          endpoint announced in its CONNECT / CC
  len-mismatch            len(pdu) == len(encode(pdu)) for the frame and for
                          every PDU dequeued for it
  frame-differs-from-collected  the PDUs on the wire (independent decoder)
                          are exactly the PDUs dequeued, same order
  dispatch-differs        R's service access points are handed exactly those
                          PDUs (minus the ones addressed to no SAP, with the
                          connect-by-name rewrite), same order
  oversize-accepted       sendto()/send() of more than the MIU is refused
"""
import os
import struct

from hypothesis import strategies as st

import nfc.dep
import nfc.llcp
import nfc.llcp.llc as llc_mod
import nfc.llcp.pdu as pdu

from vlib import ref_llcp as ref, vsched
from vlib.engine import HarnessError, Leg, Violation, unexpected, twin_env
from vlib.llcpair import (DATA_LINK_CONNECTION, LOGICAL_DATA_LINK, Box,
                          LlcPair, flat, observe, other)

PROPERTY = "C10"
LEVEL = "exploration"
ASSUMPTIONS = [
    "vlib/ref_llcp.py is a correct reading of the LLCP 1.3 frame formats "
    "(information field = everything after the header)",
    "one exchange is collect -> encode -> decode -> dispatch on one thread; "
    "the NFC-DEP layer below is not part of this check",
    "raw access point sockets are not used (excepted by the statement); "
    "LLCP security is off (no OpenSSL in this environment)",
    "peer behaviour the library's own sockets never show (I PDU with a wrong "
    "N(S), numbered PDUs for no connection, SNL PDUs with up to 70 SDREQs) "
    "is injected straight into dispatch() to load the queues",
    "which SAPs exist at the receiver is read from its address table "
    "(the table itself is C17's subject)",
    "announce/octets: nfc.dep is replaced by a stub whose activate() hands "
    "the peer's general bytes to LogicalLinkController.activate(); the peer "
    "is conformant apart from what it puts into reserved bits and unknown "
    "TLVs (its frames respect the local MIU and receive window); where a "
    "peer repeats the MIUX TLV with different numbers the largest one is "
    "taken as the limit (the specification does not say which one counts)",
]

# Confirmed-defect classes that can be avoided by construction.  Empty in the
# committed module (the coordinator wires it to the known-findings register;
# VERIF_EXCLUDE_CLASSES is a development aid).
EXCLUDE_CLASSES = set()
EXCLUDE_CLASSES |= set(filter(None, os.environ.get(
    "VERIF_EXCLUDE_CLASSES", "").split(",")))

SDRES_CLASS = "sdres-batch"
AGF_CLASS = "agf-unbudgeted-pdu"
E = nfc.llcp.errno
NAMES = ["urn:nfc:xsn:verif.example:c10-%d" % i for i in range(4)]


def as_type(data, sel):
    """the message in one of the forms an application may hand over: bytes,
    bytearray (both documented), or - what a careless caller does - a byte
    view, a view of wider items (len() counts items, not octets), a str.
    -> (object, octets it stands for)"""
    k = sel % 9
    if k <= 4:
        return data, data
    if k == 5:
        return bytearray(data), data
    if k == 6:
        return memoryview(data), data
    if k == 7 and len(data) % 2 == 0 and data:
        return memoryview(data).cast("H"), data
    if k == 8 and len(data) % 4 == 0 and data:
        return memoryview(data).cast("I"), data
    return data, data


def setup():
    vsched.patch_nfc()


def can_answer_sdreq(pair, side):
    """may SDRES be produced at side?  (always, unless the known overshoot
    of SDRES batching is excluded: then only where it cannot occur)"""
    if SDRES_CLASS not in EXCLUDE_CLASSES:
        return True
    cfg = pair.llc[side].cfg
    return cfg["send-agf"] is False and cfg["send-miu"] % 4 == 0


# ------------------------------------------------------------ frame oracle
class Wire(object):
    """connection parameters seen on the wire: MIU every connection endpoint
    announced, and how many I PDUs each endpoint transmitted"""

    def __init__(self):
        self.pending = {}       # (side, ssap) -> miu of CONNECT
        self.miu = {}           # (side, local, remote) -> announced MIU
        self.sent_i = {}        # (side, local, remote) -> I PDUs sent

    def see(self, src, q):
        t = q["type"]
        if t == "CONNECT":
            self.pending[(src, q["ssap"])] = q["miu"]
        elif t == "CC":
            m = self.pending.pop((other(src), q["dsap"]), None)
            if m is not None:
                self.miu[(src, q["ssap"], q["dsap"])] = q["miu"]
                self.miu[(other(src), q["dsap"], q["ssap"])] = m
                self.sent_i[(src, q["ssap"], q["dsap"])] = 0
                self.sent_i[(other(src), q["dsap"], q["ssap"])] = 0
        elif t in ("DM", "DISC", "FRMR"):
            for k in ((src, q["ssap"], q["dsap"]),
                      (other(src), q["dsap"], q["ssap"])):
                self.miu.pop(k, None)
            if t == "DM":
                self.pending.pop((other(src), q["dsap"]), None)
        elif t == "I":
            k = (src, q["ssap"], q["dsap"])
            if k in self.sent_i:
                self.sent_i[k] += 1


def judge_frame(pair, frame, wire, occupied, ctx, stats):
    src = frame.src
    dst = other(src)
    link_miu = pair.llc[dst].cfg["recv-miu"]
    pdus = frame.pdus
    nres = sum(len(q["sdres"]) for q in pdus if q["type"] == "SNL")
    info = ref.info_len(frame.raw)
    if info > link_miu:
        cls = overshoot_class(frame, link_miu, nres)
        if cls is not None and cls in EXCLUDE_CLASSES:
            # what construction cannot avoid: first PDUs the interpreter
            # cannot size (names, SDREQ batches); the single SDRES that
            # answers a resolve() squeezed into the last bytes of an AGF
            stats["excluded-residual:" + cls] += 1
            for q in pdus:
                wire.see(src, q)
            return
        if cls:
            ctx.set_class(cls)
        raise Violation("info-exceeds-link-miu", "%s sent a %s frame with %d "
                        "byte information field, Link MIU of the receiver is "
                        "%d; content %s" % (src, frame.ref["type"], info,
                                            link_miu, summary(pdus)))
    for q in pdus:
        if q["type"] == "UI" and len(q["data"]) > link_miu:
            raise Violation("ui-exceeds-link-miu", "UI payload %d > %d"
                            % (len(q["data"]), link_miu))
        if q["type"] == "I":
            lim = wire.miu.get((dst, q["dsap"], q["ssap"]))
            if lim is None:
                stats["i-unknown-connection"] += 1
            elif len(q["data"]) > lim:
                raise Violation("i-exceeds-connection-miu", "I payload %d on "
                                "%d->%d, receiver announced MIU %d"
                                % (len(q["data"]), q["ssap"], q["dsap"], lim))
    # budgeting arithmetic
    if len(frame.lib) != len(frame.raw):
        raise Violation("len-mismatch", "len(%s frame)=%d, encoding %d"
                        % (frame.lib.name, len(frame.lib), len(frame.raw)))
    for addr, p in frame.collected:
        try:
            n = len(pdu.encode(p))
        except Exception as e:
            raise unexpected(e, detail="encode of dequeued %s" % p.name)
        if len(p) != n:
            raise Violation("len-mismatch", "len(%s)=%d, encoding %d byte"
                            % (p.name, len(p), n))
    # what was dequeued is what is on the wire
    got = [observe(p) for addr, p in frame.collected]
    if got != pdus:
        raise Violation("frame-differs-from-collected",
                        "dequeued %s, on the wire %s"
                        % (summary(got), summary(pdus)))
    # and what the receiver's access points were handed
    enq = [(a, observe(x)) for a, x in frame.enqueued]
    j = 0
    for q in pdus:
        if q["type"] == "CONNECT" and q["dsap"] == 1:
            # connect by name: rewritten to the service's address or refused
            if j < len(enq) and enq[j][1]["type"] == "CONNECT" and \
                    enq[j][0] == enq[j][1]["dsap"] != 1 and \
                    all(enq[j][1][k] == q[k] for k in ("ssap", "miu", "rw")):
                j += 1
            continue
        if q["dsap"] not in occupied:
            stats["pdu-for-unbound-sap"] += 1
            continue
        if j >= len(enq) or enq[j] != (q["dsap"], q):
            raise Violation("dispatch-differs", "sent %s; receiver's access "
                            "points were handed %s" % (
                                summary(pdus), summary([x for a, x in enq])))
        j += 1
    if j != len(enq):
        raise Violation("dispatch-differs", "sent %s; receiver's access "
                        "points were handed %s"
                        % (summary(pdus), summary([x for a, x in enq])))
    for q in pdus:
        wire.see(src, q)
    # accounting
    stats["frames"] += 1
    for q in pdus:
        stats["pdu:" + q["type"]] += 1
    if len(pdus) >= 2:
        stats["agf>=2"] += 1
    if len(pdus) >= 5:
        stats["agf>=5"] += 1
    if link_miu - info <= 8:
        stats["near-miu"] += 1
    if link_miu == info:
        stats["exactly-miu"] += 1
    if nres >= 30:
        stats["sdres>=30"] += 1
    if nres and len(pdus) >= 2:
        stats["sdres-in-agf"] += 1
    if any(q["type"] == "SNL" and q["sdreq"] for q in pdus):
        stats["sdreq-on-wire"] += 1


def overshoot_class(frame, link_miu, nres):
    """narrow input class of a frame that exceeds the Link MIU"""
    if nres:
        return SDRES_CLASS
    pdus = frame.pdus
    if len(pdus) >= 2:
        budget = link_miu - (2 + 2 + len(ref.encode(pdus[0]))) - 3
        if budget < 0 and all(
                q["type"] in ("RR", "RNR", "DM") or
                (q["type"] == "SNL" and not q["sdres"] and not q["sdreq"])
                for q in pdus[1:]):
            # the aggregation loop was entered without any room left and
            # took PDUs that are handed out regardless of the budget
            return AGF_CLASS
    return None


def in_band(pair, side, n, hdr):
    """would a first PDU with n byte payload leave a negative aggregation
    budget at side (without filling the MIU)?"""
    cfg = pair.llc[side].cfg
    miu = cfg["send-miu"]
    return cfg["send-agf"] and n < miu and miu - (2 + 2 + hdr + n) - 3 < 0


def summary(pdus):
    out = []
    for q in pdus:
        t = q["type"]
        if t in ("UI", "I"):
            out.append("%s[%d>%d,%dB]" % (t, q["ssap"], q["dsap"],
                                          len(q["data"])))
        elif t == "SNL":
            out.append("SNL[%d sdres,%d sdreq]" % (len(q["sdres"]),
                                                    len(q["sdreq"])))
        else:
            out.append("%s[%d>%d]" % (t, q["ssap"], q["dsap"]))
    return " ".join(out)


# -------------------------------------------------------------- interpreter
class Stats(dict):
    def __missing__(self, k):
        return 0


class World(object):
    def __init__(self, pair, ctx):
        self.pair = pair
        self.ctx = ctx
        self.wire = Wire()
        self.stats = Stats()
        self.ldl = {"a": [], "b": []}
        self.listeners = {"a": [], "b": []}   # dicts(sock, name, accepted, box)
        self.connecting = []                  # (side, sock, box)
        self.conns = []                       # dict(a=sock, b=sock, sent={})
        self.helpers = []
        self.last = {"a": None, "b": None}    # size of the PDU queued last

    def fit(self, side, hdr):
        """payload size that exactly uses up the aggregation budget when
        only the PDU queued last precedes it in the frame"""
        if self.last[side] is None:
            return None
        miu = self.pair.llc[side].cfg["send-miu"]
        return miu - (2 + 2 + self.last[side]) - 3


def size_for(kind, val, miu, fit=None):
    if kind == 6:
        # aimed at the aggregation budget left by the PDU queued before
        if fit is None:
            return miu
        return max(0, min(miu, fit + val % 4 - 1))
    if kind == 0:
        return val % (miu + 1)
    if kind == 1:
        return miu
    if kind == 2:
        return max(0, miu - 1 - val % 12)
    if kind == 3:
        return miu + 1 + val % 40
    if kind == 4:
        return val % 24
    return max(0, (miu // 2) - 6 + val % 12)


def xfer(w, side):
    pair = w.pair
    dst = pair.llc[other(side)]
    occupied = set(i for i in range(64) if dst.sap[i] is not None)
    f = pair.xfer(side)
    w.last[side] = None
    if f is not None:
        judge_frame(pair, f, w.wire, occupied, w.ctx, w.stats)
    settle_connects(w)
    check_helpers(w)
    return f


def check_helpers(w):
    for name, exc in w.pair.failures():
        raise unexpected(exc, oracle="thread-died")
    for box in w.helpers:
        if box.exc is not None and not isinstance(box.exc, nfc.llcp.Error):
            raise unexpected(box.exc, oracle="helper-call-raised")


def settle_connects(w):
    still = []
    for side, sock, box in w.connecting:
        if not box.done:
            still.append((side, sock, box))
            continue
        if box.exc is not None:
            if isinstance(box.exc, nfc.llcp.ConnectRefused):
                w.stats["connect-refused"] += 1
                continue
            if isinstance(box.exc, nfc.llcp.Error):
                # e.g. EPIPE: a datagram hit the connecting socket
                w.stats["connect-failed"] += 1
                continue
            raise unexpected(box.exc, oracle="connect-raised")
        me, peer = sock.getsockname(), sock.getpeername()
        for lst in w.listeners[other(side)]:
            for acc in lst["accepted"]:
                if acc.getsockname() == peer and acc.getpeername() == me \
                        and not any(c[other(side)] is acc for c in w.conns):
                    w.conns.append({side: sock, other(side): acc,
                                    "n": {"a": 0, "b": 0}, "dead": False})
                    w.stats["connections"] += 1
                    break
    w.connecting = still


def queued_i(sock):
    """number of I PDUs in the send queue of a connection endpoint (read
    only, for the labels)"""
    return sum(1 for p in list(sock._tco.send_queue) if p.name == "I")


def op_ldl(w, side):
    if len(w.ldl[side]) >= 6:
        return
    s = w.pair.socket(side, LOGICAL_DATA_LINK)
    s.bind()
    w.ldl[side].append(s)


def op_sendto(w, side, i, kind, val, dkind, d):
    if not w.ldl[side]:
        op_ldl(w, side)
    s = w.ldl[side][i % len(w.ldl[side])]
    miu = w.pair.llc[other(side)].cfg["recv-miu"]
    n = size_for(kind, val, miu, w.fit(side, 2))
    if AGF_CLASS in EXCLUDE_CLASSES and in_band(w.pair, side, n, 2):
        w.stats["excluded:" + AGF_CLASS] += 1
        n = max(0, miu - 12)
    peers = w.ldl[other(side)]
    if dkind == 0 and peers:
        dest = peers[d % len(peers)].getsockname()
    else:
        dest = 2 + d % 62
    msg, _ = as_type(bytes([val & 255]) * n, val >> 3)
    try:
        ok = s.sendto(msg, dest, nfc.llcp.MSG_DONTWAIT)
    except TypeError:
        # another form than bytes / bytearray is refused as a whole
        w.stats["message-type-refused"] += 1
        return
    except nfc.llcp.Error as err:
        if err.errno == E.EMSGSIZE and n > miu:
            w.stats["oversize-refused"] += 1
            return
        raise unexpected(err, oracle="sendto-error")
    if n > miu:
        raise Violation("oversize-accepted", "sendto of %d byte accepted, "
                        "Link MIU of the peer is %d" % (n, miu))
    if ok is not True:
        raise Violation("sendto-returned-false", repr(ok))
    w.stats["ui-queued"] += 1
    w.last[side] = 2 + n


def op_listen(w, side, name_i, rw, smiu, backlog):
    if len(w.listeners[side]) >= 3:
        return
    name = NAMES[name_i % len(NAMES)] if name_i is not None else None
    if name is not None and any(l["name"] == name
                                for l in w.listeners[side]):
        name = None
    s = w.pair.socket(side, DATA_LINK_CONNECTION)
    s.setsockopt(nfc.llcp.SO_RCVBUF, rw)
    s.setsockopt(nfc.llcp.SO_RCVMIU, smiu)
    s.bind(name)
    s.listen(backlog)
    lst = {"sock": s, "name": name, "accepted": []}

    def acceptor():
        while True:
            try:
                lst["accepted"].append(s.accept())
            except nfc.llcp.Error:
                return
    lst["box"] = w.pair.call(acceptor, "accept-%s%d" % (side,
                                                       len(w.listeners[side])))
    w.helpers.append(lst["box"])
    w.listeners[side].append(lst)


def op_connect(w, side, tkind, i, rw, smiu, nlen):
    if len(w.connecting) + len(w.conns) >= 10:
        return
    peers = w.listeners[other(side)]
    if tkind in (0, 1) and not peers:
        tkind = 2 + tkind
    if tkind == 0:                      # by address to a listener
        dest = peers[i % len(peers)]["sock"].getsockname()
    elif tkind == 1:                    # by name to a listener (if named)
        lst = peers[i % len(peers)]
        dest = lst["name"] or lst["sock"].getsockname()
    elif tkind == 2:                    # nobody listens there -> DM / silence
        lds = w.ldl[other(side)]
        dest = lds[i % len(lds)].getsockname() if lds else 50 + i % 10
    else:                               # unknown service name -> DM from SDP
        dest = ("urn:nfc:sn:" + "n" * max(1, nlen))[:255]
        if 2 + 2 + len(dest) + 7 > w.pair.llc[side].cfg["send-miu"]:
            w.stats["connect-name-longer-than-miu"] += 1
    s = w.pair.socket(side, DATA_LINK_CONNECTION)
    s.setsockopt(nfc.llcp.SO_RCVBUF, rw)
    s.setsockopt(nfc.llcp.SO_RCVMIU, smiu)
    box = w.pair.call(lambda: s.connect(dest), "connect-" + side)
    w.connecting.append((side, s, box))
    w.helpers.append(box)
    settle_connects(w)


def live_conn(w, i):
    live = [c for c in w.conns if not c["dead"]]
    return live[i % len(live)] if live else None


def op_send(w, i, side, kind, val, blocking=False):
    c = live_conn(w, i)
    if c is None:
        return
    s = c[side]
    lim = w.wire.miu.get((other(side), s.getpeername(), s.getsockname()))
    if lim is None:
        return
    n = size_for(kind, val, lim, w.fit(side, 3))
    if AGF_CLASS in EXCLUDE_CLASSES and in_band(w.pair, side, n, 3):
        w.stats["excluded:" + AGF_CLASS] += 1
        n = max(0, n - 12)
    if blocking:
        # an application thread inside a plain send(): it returns when the
        # I PDU was collected (or the connection ended); errors of the
        # documented kind end up in the helper's box
        if n > lim:
            n = lim
        data = bytes([val & 255]) * n
        box = w.pair.call(lambda: s.send(data, 0), "send-" + side)
        w.helpers.append(box)
        w.stats["blocking-send"] += 1
        if not box.done:
            w.stats["blocking-send-waits"] += 1
            w.last[side] = 3 + n
        return
    msg, _ = as_type(bytes([val & 255]) * n, val >> 3)
    try:
        ok = s.send(msg, nfc.llcp.MSG_DONTWAIT)
    except TypeError:
        w.stats["message-type-refused"] += 1
        return
    except nfc.llcp.Error as err:
        if err.errno == E.EMSGSIZE and n > lim:
            w.stats["oversize-refused"] += 1
            return
        if err.errno == E.EWOULDBLOCK and n <= lim:
            w.stats["send-wouldblock"] += 1
            return
        if err.errno in (E.EPIPE, E.ENOTCONN, E.ESHUTDOWN):
            c["dead"] = True        # the peer disconnected meanwhile
            return
        raise unexpected(err, oracle="send-error")
    if n > lim:
        raise Violation("oversize-accepted", "send of %d byte accepted, the "
                        "peer announced connection MIU %d" % (n, lim))
    if ok is True:
        c["n"][side] += 1
        w.stats["i-queued"] += 1
        w.last[side] = 3 + n


def op_recv(w, i, side):
    c = live_conn(w, i)
    if c is None:
        return
    s = c[side]
    try:
        while s.poll("recv", 0):
            if s.recv() is None:
                c["dead"] = True
                return
            w.stats["i-received"] += 1
    except nfc.llcp.Error:
        c["dead"] = True


def op_busy(w, i, side, flag):
    c = live_conn(w, i)
    if c is None:
        return
    try:
        c[side].setsockopt(nfc.llcp.SO_RCVBSY, bool(flag))
    except nfc.llcp.Error:
        c["dead"] = True


def op_close(w, i, side):
    c = live_conn(w, i)
    if c is None:
        return
    # I PDUs that send() accepted may still be queued: they leave in front
    # of the DISC PDU and are judged like every other frame content
    if queued_i(c[side]):
        w.stats["closed-with-unsent-data"] += 1
    if queued_i(c[other(side)]):
        w.stats["closed-while-peer-has-unsent-data"] += 1
    c["dead"] = True
    w.helpers.append(w.pair.call(c[side].close, "close-" + side))
    w.stats["closed"] += 1


def op_resolve(w, side, nkind, i, nlen):
    if sum(1 for b in w.helpers if not b.done
           and b.name.startswith("resolve")) >= 12:
        return
    peers = [l for l in w.listeners[other(side)] if l["name"]]
    if nkind == 0 and peers:
        name = peers[i % len(peers)]["name"]
    else:
        name = "urn:nfc:sn:" + "r%d-" % (i % 7) + "x" * nlen
        name = name[-max(1, nlen):] if nkind == 2 else name[:60]
    s = w.ldl[side][0] if w.ldl[side] else w.pair.socket(side,
                                                         LOGICAL_DATA_LINK)
    box = w.pair.call(lambda: s.resolve(name), "resolve-" + side)
    w.helpers.append(box)
    w.stats["resolve-calls"] += 1


def op_snl(w, dst, n, nlen, first_tid):
    """the peer asks dst for n service names at once"""
    if not can_answer_sdreq(w.pair, dst):
        w.stats["excluded:" + SDRES_CLASS] += 1
        return
    name = ("urn:nfc:sn:" + "q" * 60)[:max(1, nlen)].encode()
    known = [l["name"].encode() for l in w.listeners[dst] if l["name"]]
    reqs = []
    for k in range(n):
        nm = known[k % len(known)] if known and k % 3 == 0 else name
        reqs.append(((first_tid + k) % 256, nm))
    w.pair.inject(dst, pdu.ServiceNameLookup(1, 1, sdreq=reqs))
    w.stats["sdreq-injected"] += n


def op_badi(w, i, side):
    """an I PDU with a wrong N(S) arrives at side's endpoint -> FRMR"""
    c = live_conn(w, i)
    if c is None:
        return
    s = c[side]
    vr = s._tco.recv_cnt
    bad = pdu.Information(s.getsockname(), s.getpeername(), ns=(vr + 3) % 16,
                          nr=0, data=b"bad")
    if queued_i(c["a"]) or queued_i(c["b"]):
        w.stats["frmr-with-unsent-data"] += 1
    c["dead"] = True
    w.pair.inject(side, bad)
    w.stats["frmr-provoked"] += 1


def op_stray(w, side, kind, i):
    """numbered PDU / CONNECT for which side has no connection -> DM"""
    socks = w.ldl[side] + [l["sock"] for l in w.listeners[side]]
    if not socks:
        return
    addr = socks[i % len(socks)].getsockname()
    ssap = 2 + i % 60
    if kind == 0:
        p = pdu.Information(addr, ssap, ns=0, nr=0, data=b"stray")
    elif kind == 1:
        p = pdu.ReceiveReady(addr, ssap, nr=0)
    elif kind == 2:
        p = pdu.Disconnect(addr, ssap)
    else:
        p = pdu.Connect(1, ssap, miu=128 + i, rw=i % 16, sn=None)
    w.pair.inject(side, p)
    w.stats["stray-injected"] += 1


def run_ops(w, ops):
    for op in ops:
        name = op[0]
        if name == "x":
            xfer(w, op[1])
        elif name == "ldl":
            op_ldl(w, op[1])
        elif name == "sendto":
            op_sendto(w, *op[1:])
        elif name == "listen":
            op_listen(w, *op[1:])
        elif name == "connect":
            op_connect(w, *op[1:])
        elif name == "send":
            op_send(w, *op[1:])
        elif name == "bsend":
            op_send(w, *op[1:], blocking=True)
        elif name == "recv":
            op_recv(w, *op[1:])
        elif name == "busy":
            op_busy(w, *op[1:])
        elif name == "close":
            op_close(w, *op[1:])
        elif name == "resolve":
            op_resolve(w, *op[1:])
        elif name == "snl":
            op_snl(w, *op[1:])
        elif name == "badi":
            op_badi(w, *op[1:])
        elif name == "stray":
            op_stray(w, *op[1:])
        else:
            raise HarnessError("unknown op %r" % (op,))
        check_helpers(w)


def run_machine(case, ctx):
    ctx.set_class("plain")
    pair = LlcPair(case["miu"][0], case["miu"][1], bool(case["agf"][0]),
                   bool(case["agf"][1]), record=True)
    try:
        w = World(pair, ctx)
        run_ops(w, case["ops"])
        # flush: everything still queued goes over the link and is judged
        idle = 0
        for _ in range(400):
            moved = 0
            for side in "ab":
                if xfer(w, side) is not None:
                    moved += 1
            idle = 0 if moved else idle + 1
            if idle >= 2:
                break
        else:
            w.stats["flush-not-quiescent"] += 1
        st_ = w.stats
        for k in sorted(st_):
            if k.startswith("pdu:") or k in (
                    "agf>=2", "agf>=5", "near-miu", "exactly-miu",
                    "sdres>=30", "sdres-in-agf", "sdreq-on-wire",
                    "oversize-refused", "send-wouldblock", "connect-refused",
                    "connect-failed", "frmr-provoked", "closed", "flush-not-quiescent",
                    "pdu-for-unbound-sap", "connect-name-longer-than-miu",
                    "closed-with-unsent-data", "frmr-with-unsent-data",
                    "closed-while-peer-has-unsent-data", "blocking-send",
                    "blocking-send-waits", "i-received",
                    "connections",
                    "excluded:" + SDRES_CLASS, "excluded:" + AGF_CLASS,
                    "excluded-residual:" + AGF_CLASS,
                    "excluded-residual:" + SDRES_CLASS, "resolve-calls"):
                ctx.label(k)
        if st_["agf>=2"] or st_["near-miu"] or st_["sdres>=30"]:
            ctx.nontrivial()
        ctx.note({"frames": st_["frames"], "agf>=2": st_["agf>=2"],
                  "near_miu": st_["near-miu"], "connections":
                  st_["connections"], "ui": st_["ui-queued"],
                  "i": st_["i-queued"]})
    finally:
        pair.close()


# --------------------------------------------------------------- generators
def link_miu():
    return st.one_of(st.integers(128, 2175), st.integers(128, 160),
                     st.sampled_from([128, 129, 130, 131, 133, 134, 135, 248,
                                      249, 250, 1000, 2174, 2175]))


side_ = st.sampled_from("ab")
idx_ = st.integers(0, 7)
kind_ = st.sampled_from([0, 1, 1, 2, 2, 3, 4, 4, 5, 5])
val_ = st.integers(0, 2200)
rw_ = st.one_of(st.integers(0, 15), st.sampled_from([1, 2, 4]))
smiu_ = st.one_of(st.just(128), st.integers(128, 2175))


OPS = {
    "x": st.tuples(st.just("x"), side_),
    "ldl": st.tuples(st.just("ldl"), side_),
    "sendto": st.tuples(st.just("sendto"), side_, idx_, kind_, val_,
                        st.sampled_from([0, 0, 0, 1]), st.integers(0, 61)),
    "send": st.tuples(st.just("send"), idx_, side_, kind_, val_),
    "recv": st.tuples(st.just("recv"), idx_, side_),
    "listen": st.tuples(st.just("listen"), side_, st.one_of(st.none(), idx_),
                        rw_, smiu_, st.integers(0, 4)),
    "connect": st.tuples(st.just("connect"), side_,
                         st.sampled_from([0, 0, 0, 1, 1, 1, 2, 3]), idx_, rw_,
                         smiu_, st.one_of(st.integers(1, 60),
                                          st.integers(1, 250))),
    "busy": st.tuples(st.just("busy"), idx_, side_, st.booleans()),
    "close": st.tuples(st.just("close"), idx_, side_),
    "resolve": st.tuples(st.just("resolve"), side_,
                         st.sampled_from([0, 1, 1, 2]), idx_,
                         st.integers(1, 60)),
    "snl": st.tuples(st.just("snl"), side_,
                     st.one_of(st.integers(1, 70), st.integers(25, 70)),
                     st.integers(1, 60), st.integers(0, 255)),
    "badi": st.tuples(st.just("badi"), idx_, side_),
    "stray": st.tuples(st.just("stray"), side_, st.integers(0, 3), idx_),
    # a message travels and is consumed: an acknowledgement becomes pending
    "scene-ack": st.tuples(st.just("scene-ack"), idx_, side_, val_),
    # two PDUs, the second sized around what the first leaves in the frame
    "scene-fit": st.tuples(st.just("scene-fit"), idx_, side_, val_, val_,
                           st.booleans()),
    # several service names asked for at once (40..60 byte names)
    "scene-sdreq": st.tuples(st.just("scene-sdreq"), side_,
                             st.integers(2, 5), st.integers(40, 60), idx_,
                             kind_, val_),
    # a connection ends while I PDUs are still queued: up to 3 sends that
    # do not wait (the last one optionally a thread blocked in send()), then
    # close() here / close() at the peer (its DISC arrives) / a bad I PDU
    # arrives here (FRMR to send) / at the peer (its FRMR arrives); a
    # datagram socket may put a PDU in front (before) or fill what is left
    # (after); then the frame is collected
    "scene-eol": st.tuples(st.just("scene-eol"), idx_, side_,
                           st.lists(st.tuples(st.sampled_from([5, 6, 2, 4, 0]),
                                              val_), min_size=1, max_size=3),
                           st.booleans(),
                           st.sampled_from(["close", "close", "close",
                                            "peer-close", "badi", "peer-badi"]),
                           st.sampled_from([None, None, 5, 2, 4]), val_,
                           st.sampled_from([None, 6, 6, 4]), val_,
                           st.booleans()),
}
WEIGHTS = (["x"] * 8 + ["sendto"] * 6 + ["send"] * 8 + ["recv"] * 4
           + ["busy"] * 2 + ["resolve"] * 3 + ["snl"] * 3 + ["connect"] * 2
           + ["scene-ack"] * 3 + ["scene-fit"] * 4 + ["scene-sdreq"] * 2
           + ["scene-eol"] * 4
           + ["ldl", "listen", "close", "badi", "stray"])


@st.composite
def op_strategy(draw):
    return draw(OPS[draw(st.sampled_from(WEIGHTS))])


@st.composite
def machine_case(draw, max_steps):
    miu = [draw(link_miu()), draw(link_miu())]
    agf = [draw(st.sampled_from([True, True, False])) for _ in (0, 1)]
    ops = []
    # a drawn amount of furniture first: sockets, listeners, connections
    nl = {}
    for side in "ab":
        for _ in range(draw(st.integers(0, 3))):
            ops.append(["ldl", side])
        nl[side] = draw(st.integers(0, 2))
        for _ in range(nl[side]):
            ops.append(list(draw(st.tuples(
                st.just("listen"), st.just(side), st.one_of(st.none(), idx_),
                rw_, smiu_, st.integers(0, 4)))))
    servers = [s for s in "ab" if nl[s]]
    nconn = draw(st.integers(0, 5)) if servers else 0
    for _ in range(nconn):
        client = other(draw(st.sampled_from(servers)))
        ops.append(list(draw(st.tuples(
            st.just("connect"), st.just(client), st.sampled_from([0, 1]), idx_,
            st.one_of(st.integers(1, 15), rw_), smiu_, st.just(1)))))
    if nconn:
        ops += [["x", "a"], ["x", "b"], ["x", "a"], ["x", "b"]]
    for o in draw(st.lists(
            op_strategy(), min_size=draw(st.sampled_from([1, max_steps // 2])),
            max_size=max_steps)):
        if o[0] == "scene-ack":
            _, i, side, val = o
            ops += [["send", i, side, 4, val], ["x", side],
                    ["recv", i, other(side)]]
        elif o[0] == "scene-fit":
            _, i, side, v1, v2, ui_first = o
            ops += [["x", side], ["x", side]]
            if ui_first:
                ops.append(["sendto", side, i, 5, v1, 0, i])
            else:
                ops.append(["send", i, side, 5, v1])
            ops += [["send", i, side, 6, v2], ["x", side]]
        elif o[0] == "scene-eol":
            _, i, side, sends, block, how, k1, v1, k2, v2, drain = o
            if drain:
                ops += [["x", side], ["x", side]]
            if k1 is not None:
                ops.append(["sendto", side, i, k1, v1, 0, i])
            for j, (k, v) in enumerate(sends):
                last = j == len(sends) - 1
                ops.append(["bsend" if block and last else "send",
                            i, side, k, v])
            if how == "close":
                ops.append(["close", i, side])
            elif how == "peer-close":
                ops += [["close", i, other(side)], ["x", other(side)]]
            elif how == "badi":
                ops.append(["badi", i, side])
            else:
                ops += [["badi", i, other(side)], ["x", other(side)]]
            if k2 is not None:
                ops.append(["sendto", side, i, k2, v2, 0, i])
            ops.append(["x", side])
        elif o[0] == "scene-sdreq":
            _, side, k, nlen, i, kind, val = o
            if kind in (2, 5):
                ops.append(["sendto", side, i, kind, val, 0, i])
            ops += [["resolve", side, 1, i + j, nlen] for j in range(k)]
            ops.append(["x", side])
        else:
            ops.append(list(o))
    return {"miu": miu, "agf": agf, "ops": ops}


# ---------------------------------------------------------- exhaustive leg
def sdres_limits(miu):
    """largest backlog that cannot trigger the known overshoot"""
    return (miu + 3) // 4 - 1 if miu % 4 else None


def run_sdres(case, ctx):
    """one controller with Link MIU case['miu'] towards its peer and a
    backlog of n pending SDRES for every n in case['n'][0]..case['n'][1]
    (step case['n'][2]); everything collect() returns is judged"""
    miu, agf = case["miu"], bool(case["agf"])
    lo, hi = case["n"][0], case["n"][1]
    step = case["n"][2] if len(case["n"]) > 2 else 1
    ctx.set_class("sdres-only")
    ev = nt = skipped = 0
    cap = sdres_limits(miu)
    for n in range(lo, hi + 1, step):
        if SDRES_CLASS in EXCLUDE_CLASSES and cap is not None and n > cap:
            skipped += 1
            continue
        llc = llc_mod.LogicalLinkController(miu=128, agf=agf, sec=False)
        llc.cfg["send-miu"] = miu
        llc.cfg["llcp-dpc"] = 0
        want = [(k % 256, 16 + k % 16) for k in range(n)]
        names = dict((("urn:nfc:sn:s%d" % a).encode(), a)
                     for a in range(16, 32))
        llc.snl.update(names)
        reqs = [(t, ("urn:nfc:sn:s%d" % a).encode()) for t, a in want]
        for k in range(0, n, 64):
            llc.dispatch(pdu.ServiceNameLookup(1, 1, sdreq=reqs[k:k + 64]))
        got = []
        frames = 0
        big = False
        while True:
            try:
                p = llc.collect()
            except Exception as e:
                raise unexpected(e, detail="collect, miu %d backlog %d"
                                 % (miu, n))
            if p is None:
                break
            frames += 1
            if frames > n + 2:
                raise Violation("collect-never-empty", "miu %d backlog %d"
                                % (miu, n))
            raw = pdu.encode(p)
            if len(p) != len(raw):
                raise Violation("len-mismatch", "len(%s)=%d encoding %d"
                                % (p.name, len(p), len(raw)))
            try:
                r = ref.decode(raw)
            except ref.RefReject as rr:
                raise Violation("frame-not-wellformed", "%s: %s"
                                % (raw.hex()[:120], rr))
            info = ref.info_len(raw)
            if info > miu:
                ctx.set_class(SDRES_CLASS)
                raise Violation(
                    "info-exceeds-link-miu", "Link MIU %d, aggregation %s, %d "
                    "pending SDRES: frame %d has a %d byte information field "
                    "(%d SDRES)" % (miu, agf, n, frames, info, sum(
                        len(q["sdres"]) for q in
                        (r["pdus"] if r["type"] == "AGF" else [r]))))
            for q in (r["pdus"] if r["type"] == "AGF" else [r]):
                if q["type"] != "SNL":
                    raise Violation("frame-differs-from-collected",
                                    "unexpected %s" % q["type"])
                got.extend((t, a) for t, a in q["sdres"])
            if miu - info <= 8:
                big = True
        if got != want:
            raise Violation("sdres-lost-or-reordered", "Link MIU %d backlog "
                            "%d: %d answers sent, first difference at %d"
                            % (miu, n, len(got), next(
                                (k for k in range(min(len(got), len(want)))
                                 if got[k] != want[k]),
                                min(len(got), len(want)))))
        ev += 1
        nt += 1 if big else 0
    if skipped:
        ctx.label("excluded:" + SDRES_CLASS)
    ctx.label("miu%%4=%d" % (miu % 4))
    # the inner loop is the enumeration: account for it
    ctx.acct.bulk(max(0, ev - 1), max(0, nt - 1),
                  {"backlogs-evaluated": ev, "backlogs-excluded": skipped})
    if nt:
        ctx.nontrivial()
    ctx.note({"backlogs": ev, "frame-near-miu": nt, "excluded": skipped})


def enum_sdres(tier, seed):
    if tier == "thorough":
        for miu in range(128, 2176):
            for agf in (False, True):
                yield {"miu": miu, "agf": agf, "n": [0, 600, 1]}
        return
    import random
    rnd = random.Random(seed)
    mius = [128, 129, 130, 131, 132, 2172, 2173, 2174, 2175] + \
        sorted(rnd.sample(range(133, 2172), 55))
    for miu in mius:
        cap = miu // 4
        pts = sorted(set(range(0, 6)) | set(range(max(0, cap - 2), cap + 4))
                     | set(range(2 * cap - 2, 2 * cap + 4)) | {600})
        for agf in (False, True):
            for n in pts:
                if n <= 600:
                    yield {"miu": miu, "agf": agf, "n": [n, n, 1]}


# ------------------------------------- the peer's announcements as octets
# One controller; the peer exists as octets only.  The limits are read from
# those octets by vlib/ref_llcp (announced_mius), never by nfc.llcp.pdu.
T_VERSION, T_MIUX, T_WKS, T_LTO, T_RW, T_SN, T_OPT = 1, 2, 3, 4, 5, 6, 7
GB_MAX = 44     # ATR_REQ / ATR_RES: <= 47 general bytes, 3 are the magic number
TLV_MAX = 100   # parameter string of the peer's CONNECT / CC PDU


def tlv_octets(tlvs):
    return b"".join(bytes([t, len(v)]) + bytes(v) for t, v in tlvs)


def frame_octets(ptype, dsap, ssap, info=b""):
    return struct.pack(">H", dsap << 10 | ptype << 6 | ssap) + bytes(info)


class Limit(object):
    """the MIU a parameter string announces.  hi: nothing larger may be sent
    under any reading; lo: what may be sent under every reading (they differ
    only when the peer repeats the MIUX TLV with different numbers)"""

    def __init__(self, octets):
        vals = ref.announced_mius(octets)
        self.hi, self.lo, self.n = max(vals), min(vals), len(vals)


def stub_mac(role, gb):
    """stands in for nfc.dep: activation succeeded, the peer's ATR carried
    these general bytes"""
    base = nfc.dep.Initiator if role == "initiator" else nfc.dep.Target

    class Mac(base):
        def __init__(self):
            self.rwt = 4096 / 13.56E6 * 2 ** 8
            self.sent_gb = None

        def activate(self, *args, **options):
            self.sent_gb = options.get("gbi", options.get("gbt"))
            return bytearray(gb)
    return Mac()


class Solo(object):
    def __init__(self, case, ctx):
        self.ctx = ctx
        self.stats = Stats()
        self.sched = vsched.Sched((), seed=0)
        vsched.activate(self.sched)
        self.llc = llc_mod.LogicalLinkController(
            miu=case["miu"], agf=bool(case["agf"]), sec=False)
        self.link = None            # Limit of the general bytes
        self.ldl = []
        self.listener = None
        self.conns = []
        self.connects = []          # CONNECT PDUs the local side transmitted
        self.boxes = []
        self.last = None

    def call(self, fn, name):
        box = Box(name)

        def run():
            try:
                box.value = fn()
            except Exception as e:
                box.exc = e
            box.done = True
        self.boxes.append(box)
        self.sched.spawn(run, name)
        self.sched.settle()
        return box

    def fit(self, hdr):
        if self.last is None:
            return None
        return self.link.hi - (2 + 2 + self.last) - 3

    def conn(self, lsap, rsap):
        for c in self.conns:
            if c["l"] == lsap and c["r"] == rsap and not c["dead"]:
                return c
        return None

    def live(self, i):
        live = [c for c in self.conns if not c["dead"]]
        return live[i % len(live)] if live else None

    def close(self):
        self.sched.shutdown()
        vsched.activate(None)


def solo_check(w):
    for name, exc in w.sched.failures():
        raise unexpected(exc, oracle="thread-died")
    for box in w.boxes:
        if box.exc is not None and not isinstance(box.exc, nfc.llcp.Error):
            raise unexpected(box.exc, oracle="helper-call-raised")


def solo_inject(w, octets):
    """the peer transmits these octets (a conformant peer: well-formed and
    within the MIU the local side announced)"""
    try:
        ref.decode(octets)
    except ref.RefReject as rr:
        raise HarnessError("peer octets %s: %s" % (octets.hex(), rr))
    if ref.info_len(octets) > w.llc.cfg["recv-miu"]:
        raise HarnessError("peer frame larger than the local MIU")
    try:
        q = pdu.decode(octets)
    except Exception as e:
        raise unexpected(e, detail="decode of the peer's %s"
                         % octets.hex()[:120])
    try:
        w.llc.dispatch(q)
    except (Violation, HarnessError, vsched.Abort, vsched.StepBudget):
        raise
    except Exception as e:
        raise unexpected(e, detail="dispatch of the peer's %s"
                         % octets.hex()[:120])
    w.sched.settle()
    solo_check(w)


def solo_x(w):
    """the local side's turn on the link: one frame, judged"""
    try:
        p = w.llc.collect()
    except (Violation, HarnessError, vsched.Abort, vsched.StepBudget):
        raise
    except Exception as e:
        raise unexpected(e, detail="collect()")
    w.last = None
    if p is None:
        w.sched.settle()
        solo_check(w)
        return None
    try:
        raw = pdu.encode(p)
    except Exception as e:
        raise unexpected(e, detail="encode of collected %s" % p.name)
    if len(p) != len(raw):
        raise Violation("len-mismatch", "len(%s frame)=%d, encoding %d"
                        % (p.name, len(p), len(raw)))
    try:
        r = ref.decode(raw)
    except ref.RefReject as rr:
        raise Violation("frame-not-wellformed", "%s: %s"
                        % (raw.hex()[:200], rr))
    judge_solo(w, raw, r)
    w.sched.settle()
    solo_check(w)
    return r


def judge_solo(w, raw, r):
    link, st_ = w.link, w.stats
    pdus = flat(r)
    info = ref.info_len(raw)
    if info > link.hi:
        raise Violation(
            "info-exceeds-link-miu", "%s frame with %d byte information "
            "field, the peer's general bytes announce a Link MIU of %d "
            "(library works with %s); content %s"
            % (r["type"], info, link.hi, w.llc.cfg.get("send-miu"),
               summary(pdus)))
    for q in pdus:
        t = q["type"]
        c = w.conn(q["ssap"], q["dsap"])
        if t == "UI" and len(q["data"]) > link.hi:
            raise Violation("ui-exceeds-link-miu", "UI payload %d > %d"
                            % (len(q["data"]), link.hi))
        if t == "I":
            if c is None:
                st_["i-unknown-connection"] += 1
                continue
            if len(q["data"]) > c["lim"].hi:
                raise Violation(
                    "i-exceeds-connection-miu", "I payload %d on %d->%d, the "
                    "peer's %s announced a connection MIU of %d"
                    % (len(q["data"]), q["ssap"], q["dsap"], c["pos"],
                       c["lim"].hi))
            if c["lim"].hi - len(q["data"]) <= 8:
                st_["i-near-connection-miu"] += 1
            if len(q["data"]) == c["lim"].hi:
                st_["i-exactly-connection-miu"] += 1
            c["sent"] += 1
            c["nr_local"] = q["nr"]
        elif t in ("RR", "RNR") and c is not None:
            c["nr_local"] = q["nr"]
        elif t == "CONNECT":
            w.connects.append(q)
        elif t == "CC" and c is not None:
            c["rw_local"], c["miu_local"] = q["rw"], q["miu"]
        elif t in ("DM", "DISC", "FRMR") and c is not None:
            c["dead"] = True
            st_["connection-ended"] += 1
    st_["frames"] += 1
    for q in pdus:
        st_["pdu:" + q["type"]] += 1
    if len(pdus) >= 2:
        st_["agf>=2"] += 1
    if link.hi - info <= 8:
        st_["near-miu"] += 1
    if link.hi == info:
        st_["exactly-miu"] += 1
    if sum(len(q["sdres"]) for q in pdus if q["type"] == "SNL") >= 30:
        st_["sdres>=30"] += 1


def solo_listen(w, spec):
    s = nfc.llcp.Socket(w.llc, DATA_LINK_CONNECTION)
    s.setsockopt(nfc.llcp.SO_RCVBUF, spec["rw"])
    s.setsockopt(nfc.llcp.SO_RCVMIU, spec["smiu"])
    name = None if spec["name"] is None else NAMES[spec["name"] % len(NAMES)]
    s.bind(name)
    s.listen(8)
    lst = {"sock": s, "name": name, "accepted": []}

    def acceptor():
        while True:
            try:
                lst["accepted"].append(s.accept())
            except nfc.llcp.Error:
                return
    w.call(acceptor, "accept")
    w.listener = lst


def new_conn(pos, lsap, rsap, tlvs, sock):
    return {"pos": pos, "l": lsap, "r": rsap, "lim": Limit(tlv_octets(tlvs)),
            "sock": sock, "sent": 0, "nr_local": 0, "peer_ns": 0,
            "rw_local": None, "miu_local": None, "dead": False}


def solo_inbound(w, spec):
    """the peer's CONNECT octets arrive at the listening socket (by address,
    or by name when the parameter string has an SN TLV)"""
    lst = w.listener
    lsap, rsap = lst["sock"].getsockname(), spec["rsap"]
    tlvs = spec["tlvs"]
    if w.conn(lsap, rsap) is not None:
        return
    byname = any(t == T_SN for t, v in tlvs)
    solo_inject(w, frame_octets(4, 1 if byname else lsap, rsap,
                                tlv_octets(tlvs)))
    for acc in lst["accepted"]:
        if acc.getpeername() == rsap and \
                not any(c["sock"] is acc for c in w.conns):
            w.conns.append(new_conn("CONNECT", lsap, rsap, tlvs, acc))
            w.stats["connections"] += 1
            return
    w.stats["inbound-not-accepted"] += 1


def solo_outbound(w, spec):
    """connect() at the local side; the peer answers the CONNECT PDU with
    these CC octets"""
    s = nfc.llcp.Socket(w.llc, DATA_LINK_CONNECTION)
    s.setsockopt(nfc.llcp.SO_RCVBUF, spec["rw"])
    s.setsockopt(nfc.llcp.SO_RCVMIU, spec["smiu"])
    rsap = spec["rsap"]
    dest = "urn:nfc:sn:verif-%d" % rsap if spec["byname"] else rsap
    box = w.call(lambda: s.connect(dest), "connect")
    lsap = s.getsockname()
    q = None
    for _ in range(6):
        q = next((x for x in w.connects if x["ssap"] == lsap), None)
        if q is not None or box.done:
            break
        solo_x(w)
    if q is None:
        w.stats["connect-not-sent"] += 1
        return
    w.connects.remove(q)
    c = new_conn("CC", lsap, rsap, spec["tlvs"], s)
    c["rw_local"], c["miu_local"] = q["rw"], q["miu"]
    w.conns.append(c)
    solo_inject(w, frame_octets(6, lsap, rsap, tlv_octets(spec["tlvs"])))
    if not box.done or box.exc is not None:
        # not this property's subject; the case goes on without it
        c["dead"] = True
        w.stats["connect-failed"] += 1
        return
    w.stats["connections"] += 1


def solo_sendto(w, i, kind, val, dsap):
    while len(w.ldl) <= i % 3:
        s = nfc.llcp.Socket(w.llc, LOGICAL_DATA_LINK)
        s.bind()
        w.ldl.append(s)
    s = w.ldl[i % 3]
    lim = w.link
    n = size_for(kind, val, lim.hi, w.fit(2))
    try:
        ok = s.sendto(bytes([val & 255]) * n, 2 + dsap % 62,
                      nfc.llcp.MSG_DONTWAIT)
    except nfc.llcp.Error as err:
        if err.errno == E.EMSGSIZE and n > lim.lo:
            w.stats["oversize-refused" if n > lim.hi
                    else "refused-between-repeated-miux"] += 1
            return
        raise unexpected(err, oracle="sendto-error")
    if n > lim.hi:
        raise Violation("oversize-accepted", "sendto of %d byte accepted, "
                        "the peer's general bytes announce a Link MIU of %d"
                        % (n, lim.hi))
    if ok is not True:
        raise Violation("sendto-returned-false", repr(ok))
    w.stats["ui-queued"] += 1
    w.last = 2 + n


def solo_send(w, i, kind, val):
    c = w.live(i)
    if c is None:
        return
    lim = c["lim"]
    n = size_for(kind, val, lim.hi, w.fit(3))
    # the connection MIU cannot be used beyond the Link MIU
    sure = min(lim.lo, w.link.lo)
    try:
        ok = c["sock"].send(bytes([val & 255]) * n, nfc.llcp.MSG_DONTWAIT)
    except nfc.llcp.Error as err:
        if err.errno == E.EMSGSIZE and n > sure:
            w.stats["oversize-refused" if n > lim.hi
                    else "refused-above-link-miu"] += 1
            return
        if err.errno == E.EWOULDBLOCK:
            # the send window is closed (which error comes first when the
            # message is too long as well is not specified)
            w.stats["send-wouldblock"] += 1
            return
        if err.errno in (E.EPIPE, E.ENOTCONN, E.ESHUTDOWN):
            c["dead"] = True
            return
        raise unexpected(err, oracle="send-error")
    if n > lim.hi:
        raise Violation("oversize-accepted", "send of %d byte accepted, the "
                        "peer's %s announced a connection MIU of %d"
                        % (n, c["pos"], lim.hi))
    if ok is True:
        w.stats["i-queued"] += 1
        w.last = 3 + n


def solo_ack(w, i):
    """the peer acknowledges every I PDU it was sent"""
    c = w.live(i)
    if c is None or c["rw_local"] is None:
        return
    solo_inject(w, frame_octets(13, c["l"], c["r"], bytes([c["sent"] % 16])))
    w.stats["peer-acks"] += 1


def solo_peer_i(w, i, n, recv):
    """the peer sends n byte on the connection (within the MIU and the
    window the local side announced); the application reads it or not"""
    c = w.live(i)
    if c is None or c["rw_local"] is None:
        return
    if (c["peer_ns"] - c["nr_local"]) % 16 >= c["rw_local"]:
        w.stats["peer-window-closed"] += 1
        return
    n = min(n, c["miu_local"], w.llc.cfg["recv-miu"])
    seq = (c["peer_ns"] % 16) << 4 | c["sent"] % 16
    solo_inject(w, frame_octets(12, c["l"], c["r"], bytes([seq]) + b"p" * n))
    c["peer_ns"] += 1
    w.stats["peer-data"] += 1
    if recv:
        s = c["sock"]
        try:
            while s.poll("recv", 0):
                if s.recv() is None:
                    c["dead"] = True
                    return
        except nfc.llcp.Error:
            c["dead"] = True


def solo_snl(w, n, nlen, first_tid):
    """the peer asks for n service names at once (as many as the local MIU
    admits)"""
    name = ("urn:nfc:sn:" + "q" * 60)[:max(1, nlen)].encode()
    known = w.listener["name"].encode() \
        if w.listener and w.listener["name"] else None
    info, k = b"", 0
    while k < n:
        nm = known if known and k % 3 == 0 else name
        tlv = bytes([8, 1 + len(nm), (first_tid + k) % 256]) + nm
        if len(info) + len(tlv) > w.llc.cfg["recv-miu"]:
            break
        info += tlv
        k += 1
    solo_inject(w, frame_octets(9, 1, 1, info))
    w.stats["sdreq-injected"] += k


def solo_resolve(w, k, nlen):
    if sum(1 for b in w.boxes if not b.done and b.name == "resolve") >= 8:
        return
    s = w.ldl[0] if w.ldl else nfc.llcp.Socket(w.llc, LOGICAL_DATA_LINK)
    for j in range(k):
        name = ("urn:nfc:sn:r%d-" % j + "x" * 60)[:max(13, nlen)]
        w.call(lambda name=name: s.resolve(name), "resolve")
    w.stats["resolve-calls"] += k


class Once(object):
    def __init__(self, ctx):
        self.ctx, self.seen = ctx, set()

    def label(self, name):
        if name not in self.seen:
            self.seen.add(name)
            self.ctx.label(name)


def describe_octets(w, case):
    """labels for what the peer put on the wire (each once per case)"""
    ctx = Once(w.ctx)
    strings = [("gb", case["gb"])] + [(c["pos"], c["tlvs"])
                                      for c in case["conns"]]
    for pos, tlvs in strings:
        seen = {}
        for t, v in tlvs:
            seen.setdefault(t, []).append(bytes(v))
            if t == T_MIUX and v[0] & 0xF8:
                ctx.label("reserved-bits:miux@" + pos)
            elif t == T_RW and v[0] & 0xF0:
                ctx.label("reserved-bits:rw")
            elif t == T_OPT and v[0] & 0xF8:
                ctx.label("reserved-bits:opt")
            elif t > 11 or t == 0:
                ctx.label("unknown-tlv@" + pos)
            elif t not in ((T_VERSION, T_MIUX, T_WKS, T_LTO, T_OPT)
                           if pos == "gb" else (T_MIUX, T_RW, T_SN)):
                ctx.label("foreign-tlv@" + pos)
        if T_MIUX not in seen:
            ctx.label("no-miux-tlv@" + pos)
        elif len(seen[T_MIUX]) > 1:
            ctx.label("repeated-miux@" + pos)
        if any(len(v) > 1 for t, v in seen.items() if t != T_MIUX):
            ctx.label("repeated-other-tlv")
    if w.link.hi != w.link.lo or any(c["lim"].hi != c["lim"].lo
                                     for c in w.conns):
        ctx.label("repeated-miux-numbers-differ")


def run_octets(case, ctx):
    ctx.set_class("octets")
    gb = tlv_octets(case["gb"])
    if len(gb) > GB_MAX or any(len(tlv_octets(c["tlvs"])) > TLV_MAX
                               for c in case["conns"]):
        raise HarnessError("parameter string longer than the peer can send")
    w = Solo(case, ctx)
    try:
        w.link = Limit(gb)
        try:
            up = w.llc.activate(stub_mac(case["role"], b"Ffm" + gb))
        except Exception as e:
            raise unexpected(e, detail="activate(), general bytes %s"
                             % gb.hex())
        if up is not True:
            # what a link controller accepts is not this property's subject
            ctx.label("activation-refused")
            return
        w.llc.link.ESTABLISHED = True       # as the run loop does
        if any(c["pos"] == "CONNECT" for c in case["conns"]):
            solo_listen(w, case["listen"])
        for spec in case["conns"]:
            if spec["pos"] == "CONNECT":
                solo_inbound(w, spec)
            else:
                solo_outbound(w, spec)
        for op in case["ops"]:
            name = op[0]
            if name == "x":
                solo_x(w)
            elif name == "sendto":
                solo_sendto(w, *op[1:])
            elif name == "send":
                solo_send(w, *op[1:])
            elif name == "ack":
                solo_ack(w, *op[1:])
            elif name == "peer-i":
                solo_peer_i(w, *op[1:])
            elif name == "snl":
                solo_snl(w, *op[1:])
            elif name == "resolve":
                solo_resolve(w, *op[1:])
            else:
                raise HarnessError("unknown op %r" % (op,))
            solo_check(w)
        idle = 0
        for _ in range(300):
            idle = 0 if solo_x(w) is not None else idle + 1
            if idle >= 2:
                break
        else:
            w.stats["flush-not-quiescent"] += 1
        st_ = w.stats
        describe_octets(w, case)
        ctx.label("role:" + case["role"])
        for k in sorted(st_):
            if k.startswith("pdu:") or k in (
                    "agf>=2", "near-miu", "exactly-miu", "sdres>=30",
                    "i-near-connection-miu", "i-exactly-connection-miu",
                    "oversize-refused", "refused-between-repeated-miux",
                    "refused-above-link-miu", "send-wouldblock",
                    "connections", "connect-failed", "connect-not-sent",
                    "inbound-not-accepted", "connection-ended",
                    "peer-window-closed", "peer-data", "peer-acks",
                    "i-unknown-connection", "flush-not-quiescent"):
                ctx.label(k)
        if st_["near-miu"] or st_["i-near-connection-miu"]:
            ctx.nontrivial()
        ctx.note({"link_miu": w.link.hi, "connection_miu":
                  [c["lim"].hi for c in w.conns], "frames": st_["frames"],
                  "near_miu": st_["near-miu"], "i_near_connection_miu":
                  st_["i-near-connection-miu"], "agf>=2": st_["agf>=2"]})
    finally:
        w.close()


# fixed probes of the exhaustive leg: sizes are relative to the announced
# limit (size_for): one octet too many, exactly the limit, halves that
# aggregate, what the PDU before leaves in the frame; SDRES and SDREQ batches
PROBE_LINK = [
    ["sendto", 0, 3, 0, 15], ["sendto", 0, 1, 85, 15], ["x"],
    ["sendto", 0, 5, 3, 15], ["sendto", 1, 5, 9, 16], ["sendto", 0, 5, 0, 15],
    ["x"], ["x"],
    ["sendto", 0, 4, 7, 15], ["sendto", 1, 6, 1, 16], ["x"],
    ["snl", 40, 1, 0], ["snl", 40, 1, 40], ["x"], ["x"], ["x"],
    ["resolve", 3, 40], ["sendto", 0, 2, 5, 15], ["x"], ["x"],
]
PROBE_CONN = [
    ["send", 0, 3, 0], ["send", 0, 1, 1], ["x"], ["x"], ["ack", 0],
    ["send", 0, 5, 3], ["send", 0, 6, 1], ["sendto", 0, 4, 7, 15], ["x"],
    ["x"], ["ack", 0], ["peer-i", 0, 3, True], ["send", 0, 2, 4], ["x"],
    ["sendto", 0, 5, 2, 15], ["send", 0, 6, 2], ["x"], ["ack", 0],
]
CLEAN_GB = [[T_VERSION, b"\x13"], [T_MIUX, b"\x07\xff"], [T_WKS, b"\x00\x03"]]


def announce_case(pos, number, reserved, agf):
    miux = [T_MIUX, struct.pack(">H", reserved << 11 | number)]
    case = {"role": "target" if pos == "gbt" else "initiator", "miu": 248,
            "agf": agf, "listen": {"name": None, "rw": 2, "smiu": 200}}
    if pos in ("gbi", "gbt"):
        case.update(gb=[CLEAN_GB[0], miux, CLEAN_GB[2]], conns=[],
                    ops=PROBE_LINK)
    else:
        case.update(gb=CLEAN_GB, ops=PROBE_CONN, conns=[{
            "pos": pos, "tlvs": [miux, [T_RW, b"\x04"]], "rsap": 20,
            "byname": False, "rw": 2, "smiu": 200}])
    return case


def enum_announce(tier, seed):
    numbers = [0, 1, 2, 3, 5, 120, 0x3FF, 0x400, 0x7FE, 0x7FF]
    if tier == "thorough":
        numbers = sorted(set(numbers) | set(range(0, 0x800, 37)))
    for pos in ("gbi", "gbt", "CONNECT", "CC"):
        for number in numbers:
            for reserved in range(32):
                for agf in (False, True):
                    yield announce_case(pos, number, reserved, agf)


# generated parameter strings
number_ = st.one_of(st.sampled_from([0, 1, 2, 3, 5, 120, 0x3FF, 0x400, 0x7FE,
                                     0x7FF]),
                    st.integers(0, 40), st.integers(0, 0x7FF))
res5_ = st.one_of(st.just(0), st.integers(0, 31),
                  st.sampled_from([1, 2, 4, 8, 16]))
res4_ = st.one_of(st.just(0), st.integers(0, 15))
t_miux = st.builds(lambda n, r: [T_MIUX, struct.pack(">H", r << 11 | n)],
                   number_, res5_)
t_rw = st.builds(lambda n, r: [T_RW, bytes([r << 4 | n])],
                 st.one_of(st.integers(0, 15), st.sampled_from([2, 4, 15])),
                 res4_)
t_version = st.builds(lambda m: [T_VERSION, bytes([0x10 | m])],
                      st.one_of(st.integers(0, 3), st.integers(0, 15)))
t_wks = st.builds(lambda v: [T_WKS, struct.pack(">H", v | 1)],
                  st.integers(0, 0xFFFF))
t_lto = st.builds(lambda v: [T_LTO, bytes([v])], st.integers(1, 255))
t_opt = st.builds(lambda v, r: [T_OPT, bytes([r << 3 | v])],
                  st.integers(0, 7), st.one_of(st.just(0), st.integers(0, 31)))
t_unknown = st.builds(lambda t, v: [t, v],
                      st.one_of(st.just(0), st.integers(12, 255)),
                      st.binary(max_size=5))
FOREIGN = {"gb": [5, 6, 8, 9, 10, 11], "CONNECT": [1, 3, 4, 7, 8, 9, 10, 11],
           "CC": [1, 3, 4, 6, 7, 8, 9, 10, 11]}


@st.composite
def t_foreign(draw, pos):
    """a TLV the specification defines, but not for this PDU (well-formed:
    with the length its type demands)"""
    t = draw(st.sampled_from(FOREIGN[pos]))
    ln = ref.FIXED_LEN.get(t)
    if ln is None:
        ln = draw(st.integers(1, 4))
    return [t, draw(st.binary(min_size=ln, max_size=ln))]


@st.composite
def param_string(draw, pos, sn=None):
    own = []
    if pos == "gb":
        own.append(draw(t_version))
        for s in (t_wks, t_lto, t_opt):
            if draw(st.booleans()):
                own.append(draw(s))
        kinds = [t_version, t_wks, t_lto, t_opt]
    else:
        if draw(st.integers(0, 3)):
            own.append(draw(t_rw))
        kinds = [t_rw]
    if draw(st.integers(0, 7)):
        own.append(draw(t_miux))
    for _ in range(draw(st.sampled_from([0, 0, 0, 1, 1, 2]))):
        how = draw(st.sampled_from(["miux", "miux-same", "other"]))
        prev = [v for t, v in own if t == T_MIUX]
        if how == "miux-same" and prev:
            # the same number again, other reserved bits
            n = struct.unpack(">H", prev[-1])[0] & 0x7FF
            own.append([T_MIUX, struct.pack(">H", draw(res5_) << 11 | n)])
        elif how == "other":
            own.append(draw(draw(st.sampled_from(kinds))))
        else:
            own.append(draw(t_miux))
    for _ in range(draw(st.sampled_from([0, 0, 1, 1, 2, 3]))):
        own.append(draw(st.one_of(t_unknown, t_foreign(pos))))
    if sn is not None:
        own.append([T_SN, sn])
    out = list(draw(st.permutations(own)))
    room = GB_MAX if pos == "gb" else TLV_MAX
    while len(tlv_octets(out)) > room:
        out.pop(next((k for k in range(len(out) - 1, -1, -1)
                      if out[k][0] != T_SN), 0))
    return [[t, bytes(v)] for t, v in out]


skind_ = st.sampled_from([1, 1, 2, 2, 2, 3, 3, 5, 5, 6, 6, 4, 0])


@st.composite
def octets_case(draw, max_ops):
    name = draw(st.one_of(st.none(), idx_))
    case = {"role": draw(st.sampled_from(["initiator", "target"])),
            "miu": draw(st.one_of(st.just(128), st.just(248), link_miu())),
            "agf": draw(st.sampled_from([True, True, False])),
            "gb": draw(param_string("gb")),
            "listen": {"name": name, "rw": draw(rw_), "smiu": draw(smiu_)}}
    conns, used = [], set()
    for k in range(draw(st.sampled_from([0, 1, 1, 2, 2, 3]))):
        pos = draw(st.sampled_from(["CONNECT", "CC"]))
        rsap = draw(st.integers(2, 63).filter(lambda a: a not in used))
        used.add(rsap)
        if pos == "CONNECT":
            sn = NAMES[name % len(NAMES)].encode() \
                if name is not None and draw(st.booleans()) else None
            conns.append({"pos": pos, "rsap": rsap,
                          "tlvs": draw(param_string(pos, sn))})
        else:
            conns.append({"pos": pos, "rsap": rsap,
                          "tlvs": draw(param_string(pos)),
                          "byname": draw(st.booleans()),
                          "rw": draw(rw_), "smiu": draw(smiu_)})
    case["conns"] = conns
    ops = {
        "x": st.tuples(st.just("x")),
        "sendto": st.tuples(st.just("sendto"), st.integers(0, 2), skind_,
                            val_, st.integers(0, 61)),
        "send": st.tuples(st.just("send"), idx_, skind_, val_),
        "ack": st.tuples(st.just("ack"), idx_),
        "peer-i": st.tuples(st.just("peer-i"), idx_, st.integers(0, 140),
                            st.booleans()),
        "snl": st.tuples(st.just("snl"),
                         st.one_of(st.integers(1, 70), st.integers(25, 70)),
                         st.integers(1, 30), st.integers(0, 255)),
        "resolve": st.tuples(st.just("resolve"), st.integers(1, 4),
                             st.integers(13, 60)),
    }
    weights = ["x"] * 5 + ["sendto"] * 6 + ["snl"] * 2 + ["resolve"]
    if conns:
        weights += ["send"] * 7 + ["ack"] * 3 + ["peer-i"] * 2
    case["ops"] = [list(draw(ops[draw(st.sampled_from(weights))]))
                   for _ in range(draw(st.integers(3, max_ops)))]
    return case


LEGS = [
    Leg("machine", run=run_machine,
        gen=lambda tier: machine_case(40 if tier == "quick" else 60),
        quick=1600, thorough=20000, shards_quick=12, shards_thorough=16,
        nt_floor=0.3,
        rule="two controllers, Link MIU 128..2175 per side (small values and "
             "non-multiples of 4 emphasised), aggregation on/off per side; "
             "drawn furniture (<=6 datagram sockets, <=3 listeners, <=10 "
             "connections with RW 0..15 and connection MIU 128..2175) then "
             "<=40 (quick) / <=60 (thorough) operations that fill the queues, "
             "among them connections that end while I PDUs are still queued "
             "(1..3 non-blocking sends or a thread blocked in send(), then "
             "close() / the peer's DISC / a bad I PDU -> FRMR / the peer's "
             "FRMR, with a datagram of another socket in front of them or "
             "sized around the room they leave in the frame); every frame of every exchange and of the final flush is "
             "judged; non-trivial = some frame aggregated >=2 PDUs or came "
             "within 8 byte of the MIU or carried >=30 SDRES."),
    Leg("sdres", run=run_sdres, enum=enum_sdres, exhaustive=True,
        shards_quick=4, shards_thorough=16,
        rule="thorough: every Link MIU 128..2175 x aggregation on/off x "
             "SDRES backlog 0..600 (one case per MIU and aggregation setting, "
             "the backlogs are enumerated inside and counted as "
             "evaluations); quick: 64 seeded MIUs x backlogs around 0, "
             "1x and 2x the frame capacity and 600; non-trivial = a frame "
             "within 8 byte of the MIU."),
    Leg("announce", run=run_octets, enum=enum_announce, exhaustive=True,
        shards_quick=4, shards_thorough=16,
        rule="one controller, activated through LogicalLinkController."
             "activate() as NFC-DEP Initiator / Target, against a peer made "
             "of octets: the MIUX TLV sits in the peer's general bytes "
             "(both roles), in its CONNECT PDU (accept() at the local side) "
             "or in its CC PDU (connect() at the local side); every one of "
             "the 32 settings of the five reserved bits x 11 bit numbers 0, "
             "1, 2, 3, 5, 120, 3FFh, 400h, 7FEh, 7FFh (thorough: also every "
             "37th number) x aggregation on/off; a fixed probe queues one "
             "octet more than the announced MIU, exactly the MIU, halves "
             "that aggregate, SDRES / SDREQ batches, and acknowledged I PDUs "
             "around the connection MIU; the announced MIU is 128 + (value "
             "& 7FFh) as read by vlib/ref_llcp; non-trivial = a frame within "
             "8 byte of the announced Link MIU or an I PDU payload within 8 "
             "byte of the announced connection MIU."),
    Leg("octets", run=run_octets,
        gen=lambda tier: octets_case(14 if tier == "quick" else 24),
        quick=900, thorough=12000, shards_quick=6, shards_thorough=16,
        nt_floor=0.2,
        rule="as announce, with drawn parameter strings in all positions "
             "at once: general bytes (VERSION 1.0..1.15, MIUX, WKS, LTO, OPT) "
             "and 0..3 connections whose limit comes with the peer's CONNECT "
             "(by address or by name) or CC octets (MIUX, RW); reserved bits "
             "of MIUX / RW / OPT drawn, 0..3 TLVs of unknown type or of a "
             "type defined for other PDUs interleaved, 0..2 TLVs repeated "
             "(same MIUX number with other reserved bits, or another number: "
             "then the largest announced number is the limit), any order, "
             "MIUX TLV absent in 1 of 8 (default 128); local MIU 128..2175, "
             "aggregation on/off; then 3..14 (quick) / 3..24 (thorough) of "
             "sendto / send sized around the announced limits, exchanges, "
             "peer acknowledgements, peer I PDUs, SDREQ batches from the "
             "peer, resolve() calls; every frame of every exchange and of "
             "the final flush is judged; non-trivial as for announce."),
]

# the same search in an interpreter with another string hash seed: what a
# program gets from iterating a set / dict of names differs between runs
_byn = dict((lg.name, lg) for lg in LEGS)
LEGS += [twin_env(_byn['machine'], "hash77", {"PYTHONHASHSEED": "77"})]

# the same searches with every nfc logger enabled down to the lowest level
# (code that only runs, or only evaluates its arguments, when logging is on)
_byl = dict((lg.name, lg) for lg in LEGS)
LEGS += [twin_env(_byl[n], "log", {"VERIF_LOG": "debug"}, quick=q, thorough=t,
                  shards_quick=2)
         for n, q, t in [('machine', 150, 1500)] if n in _byl]
