"""C10 - nothing a link controller transmits exceeds the peer's MIU, and
aggregation is transparent.

legs
  machine   two link controllers pumped by the harness; a generated history
            fills the send queues in any combination (UI sendto on several
            sockets, connection-mode send, pending acknowledgements, busy
            toggles, CONNECT / CC / DM / DISC / FRMR producing operations,
            resolve() calls -> SDREQ, incoming SNL PDUs with many SDREQs ->
            SDRES backlog); every exchange is judged
  sdres     exhaustive: remote Link MIU 128..2175 x aggregation on/off x
            SDRES backlog 0..600 on one controller (thorough; a seeded slice
            of MIUs with the backlogs around the frame capacities in quick)

Oracles per transmitted frame (sender S, receiver R):
  info-exceeds-link-miu   information field (bytes after the 2 byte header,
                          3 byte for I/RR/RNR) <= Link MIU of R
  ui-exceeds-link-miu     every UI payload <= Link MIU of R
  i-exceeds-connection-miu every I payload <= MIU that the receiving
                          endpoint announced in its CONNECT / CC
  len-mismatch            len(pdu) == len(encode(pdu)) for the frame and for
                          every PDU dequeued for it
  frame-differs-from-collected  the PDUs on the wire (independent decoder)
                          are exactly the PDUs dequeued, same order
  dispatch-differs        R's service access points are handed exactly those
                          PDUs (minus the ones addressed to no SAP, with the
                          connect-by-name rewrite), same order
  oversize-accepted       sendto()/send() of more than the MIU is refused
"""
import os

from hypothesis import strategies as st

import nfc.llcp
import nfc.llcp.llc as llc_mod
import nfc.llcp.pdu as pdu

from vlib import ref_llcp as ref, vsched
from vlib.engine import HarnessError, Leg, Violation, unexpected
from vlib.llcpair import (DATA_LINK_CONNECTION, LOGICAL_DATA_LINK, LlcPair,
                          observe, other)

PROPERTY = "C10"
LEVEL = "exploration"
ASSUMPTIONS = [
    "vlib/ref_llcp.py is a correct reading of the LLCP 1.3 frame formats "
    "(information field = everything after the header)",
    "one exchange is collect -> encode -> decode -> dispatch on one thread; "
    "the NFC-DEP layer below is not part of this check",
    "raw access point sockets are not used (excepted by the statement); "
    "LLCP security is off (no OpenSSL in this environment)",
    "peer behaviour the library's own sockets never show (I PDU with a wrong "
    "N(S), numbered PDUs for no connection, SNL PDUs with up to 70 SDREQs) "
    "is injected straight into dispatch() to load the queues",
    "which SAPs exist at the receiver is read from its address table "
    "(the table itself is C17's subject)",
]

# Confirmed-defect classes that can be avoided by construction.  Empty in the
# committed module (the coordinator wires it to the known-findings register;
# VERIF_EXCLUDE_CLASSES is a development aid).
EXCLUDE_CLASSES = set()
EXCLUDE_CLASSES |= set(filter(None, os.environ.get(
    "VERIF_EXCLUDE_CLASSES", "").split(",")))

SDRES_CLASS = "sdres-batch"
AGF_CLASS = "agf-unbudgeted-pdu"
E = nfc.llcp.errno
NAMES = ["urn:nfc:xsn:verif.example:c10-%d" % i for i in range(4)]


def setup():
    vsched.patch_nfc()


def can_answer_sdreq(pair, side):
    """may SDRES be produced at side?  (always, unless the known overshoot
    of SDRES batching is excluded: then only where it cannot occur)"""
    if SDRES_CLASS not in EXCLUDE_CLASSES:
        return True
    cfg = pair.llc[side].cfg
    return cfg["send-agf"] is False and cfg["send-miu"] % 4 == 0


# ------------------------------------------------------------ frame oracle
class Wire(object):
    """connection parameters seen on the wire: MIU every connection endpoint
    announced, and how many I PDUs each endpoint transmitted"""

    def __init__(self):
        self.pending = {}       # (side, ssap) -> miu of CONNECT
        self.miu = {}           # (side, local, remote) -> announced MIU
        self.sent_i = {}        # (side, local, remote) -> I PDUs sent

    def see(self, src, q):
        t = q["type"]
        if t == "CONNECT":
            self.pending[(src, q["ssap"])] = q["miu"]
        elif t == "CC":
            m = self.pending.pop((other(src), q["dsap"]), None)
            if m is not None:
                self.miu[(src, q["ssap"], q["dsap"])] = q["miu"]
                self.miu[(other(src), q["dsap"], q["ssap"])] = m
                self.sent_i[(src, q["ssap"], q["dsap"])] = 0
                self.sent_i[(other(src), q["dsap"], q["ssap"])] = 0
        elif t in ("DM", "DISC", "FRMR"):
            for k in ((src, q["ssap"], q["dsap"]),
                      (other(src), q["dsap"], q["ssap"])):
                self.miu.pop(k, None)
            if t == "DM":
                self.pending.pop((other(src), q["dsap"]), None)
        elif t == "I":
            k = (src, q["ssap"], q["dsap"])
            if k in self.sent_i:
                self.sent_i[k] += 1


def judge_frame(pair, frame, wire, occupied, ctx, stats):
    src = frame.src
    dst = other(src)
    link_miu = pair.llc[dst].cfg["recv-miu"]
    pdus = frame.pdus
    nres = sum(len(q["sdres"]) for q in pdus if q["type"] == "SNL")
    info = ref.info_len(frame.raw)
    if info > link_miu:
        cls = overshoot_class(frame, link_miu, nres)
        if cls is not None and cls in EXCLUDE_CLASSES:
            # what construction cannot avoid: first PDUs the interpreter
            # cannot size (names, SDREQ batches); the single SDRES that
            # answers a resolve() squeezed into the last bytes of an AGF
            stats["excluded-residual:" + cls] += 1
            for q in pdus:
                wire.see(src, q)
            return
        if cls:
            ctx.set_class(cls)
        raise Violation("info-exceeds-link-miu", "%s sent a %s frame with %d "
                        "byte information field, Link MIU of the receiver is "
                        "%d; content %s" % (src, frame.ref["type"], info,
                                            link_miu, summary(pdus)))
    for q in pdus:
        if q["type"] == "UI" and len(q["data"]) > link_miu:
            raise Violation("ui-exceeds-link-miu", "UI payload %d > %d"
                            % (len(q["data"]), link_miu))
        if q["type"] == "I":
            lim = wire.miu.get((dst, q["dsap"], q["ssap"]))
            if lim is None:
                stats["i-unknown-connection"] += 1
            elif len(q["data"]) > lim:
                raise Violation("i-exceeds-connection-miu", "I payload %d on "
                                "%d->%d, receiver announced MIU %d"
                                % (len(q["data"]), q["ssap"], q["dsap"], lim))
    # budgeting arithmetic
    if len(frame.lib) != len(frame.raw):
        raise Violation("len-mismatch", "len(%s frame)=%d, encoding %d"
                        % (frame.lib.name, len(frame.lib), len(frame.raw)))
    for addr, p in frame.collected:
        try:
            n = len(pdu.encode(p))
        except Exception as e:
            raise unexpected(e, detail="encode of dequeued %s" % p.name)
        if len(p) != n:
            raise Violation("len-mismatch", "len(%s)=%d, encoding %d byte"
                            % (p.name, len(p), n))
    # what was dequeued is what is on the wire
    got = [observe(p) for addr, p in frame.collected]
    if got != pdus:
        raise Violation("frame-differs-from-collected",
                        "dequeued %s, on the wire %s"
                        % (summary(got), summary(pdus)))
    # and what the receiver's access points were handed
    enq = [(a, observe(x)) for a, x in frame.enqueued]
    j = 0
    for q in pdus:
        if q["type"] == "CONNECT" and q["dsap"] == 1:
            # connect by name: rewritten to the service's address or refused
            if j < len(enq) and enq[j][1]["type"] == "CONNECT" and \
                    enq[j][0] == enq[j][1]["dsap"] != 1 and \
                    all(enq[j][1][k] == q[k] for k in ("ssap", "miu", "rw")):
                j += 1
            continue
        if q["dsap"] not in occupied:
            stats["pdu-for-unbound-sap"] += 1
            continue
        if j >= len(enq) or enq[j] != (q["dsap"], q):
            raise Violation("dispatch-differs", "sent %s; receiver's access "
                            "points were handed %s" % (
                                summary(pdus), summary([x for a, x in enq])))
        j += 1
    if j != len(enq):
        raise Violation("dispatch-differs", "sent %s; receiver's access "
                        "points were handed %s"
                        % (summary(pdus), summary([x for a, x in enq])))
    for q in pdus:
        wire.see(src, q)
    # accounting
    stats["frames"] += 1
    for q in pdus:
        stats["pdu:" + q["type"]] += 1
    if len(pdus) >= 2:
        stats["agf>=2"] += 1
    if len(pdus) >= 5:
        stats["agf>=5"] += 1
    if link_miu - info <= 8:
        stats["near-miu"] += 1
    if link_miu == info:
        stats["exactly-miu"] += 1
    if nres >= 30:
        stats["sdres>=30"] += 1
    if nres and len(pdus) >= 2:
        stats["sdres-in-agf"] += 1
    if any(q["type"] == "SNL" and q["sdreq"] for q in pdus):
        stats["sdreq-on-wire"] += 1


def overshoot_class(frame, link_miu, nres):
    """narrow input class of a frame that exceeds the Link MIU"""
    if nres:
        return SDRES_CLASS
    pdus = frame.pdus
    if len(pdus) >= 2:
        budget = link_miu - (2 + 2 + len(ref.encode(pdus[0]))) - 3
        if budget < 0 and all(
                q["type"] in ("RR", "RNR", "DM") or
                (q["type"] == "SNL" and not q["sdres"] and not q["sdreq"])
                for q in pdus[1:]):
            # the aggregation loop was entered without any room left and
            # took PDUs that are handed out regardless of the budget
            return AGF_CLASS
    return None


def in_band(pair, side, n, hdr):
    """would a first PDU with n byte payload leave a negative aggregation
    budget at side (without filling the MIU)?"""
    cfg = pair.llc[side].cfg
    miu = cfg["send-miu"]
    return cfg["send-agf"] and n < miu and miu - (2 + 2 + hdr + n) - 3 < 0


def summary(pdus):
    out = []
    for q in pdus:
        t = q["type"]
        if t in ("UI", "I"):
            out.append("%s[%d>%d,%dB]" % (t, q["ssap"], q["dsap"],
                                          len(q["data"])))
        elif t == "SNL":
            out.append("SNL[%d sdres,%d sdreq]" % (len(q["sdres"]),
                                                    len(q["sdreq"])))
        else:
            out.append("%s[%d>%d]" % (t, q["ssap"], q["dsap"]))
    return " ".join(out)


# -------------------------------------------------------------- interpreter
class Stats(dict):
    def __missing__(self, k):
        return 0


class World(object):
    def __init__(self, pair, ctx):
        self.pair = pair
        self.ctx = ctx
        self.wire = Wire()
        self.stats = Stats()
        self.ldl = {"a": [], "b": []}
        self.listeners = {"a": [], "b": []}   # dicts(sock, name, accepted, box)
        self.connecting = []                  # (side, sock, box)
        self.conns = []                       # dict(a=sock, b=sock, sent={})
        self.helpers = []
        self.last = {"a": None, "b": None}    # size of the PDU queued last

    def fit(self, side, hdr):
        """payload size that exactly uses up the aggregation budget when
        only the PDU queued last precedes it in the frame"""
        if self.last[side] is None:
            return None
        miu = self.pair.llc[side].cfg["send-miu"]
        return miu - (2 + 2 + self.last[side]) - 3


def size_for(kind, val, miu, fit=None):
    if kind == 6:
        # aimed at the aggregation budget left by the PDU queued before
        if fit is None:
            return miu
        return max(0, min(miu, fit + val % 4 - 1))
    if kind == 0:
        return val % (miu + 1)
    if kind == 1:
        return miu
    if kind == 2:
        return max(0, miu - 1 - val % 12)
    if kind == 3:
        return miu + 1 + val % 40
    if kind == 4:
        return val % 24
    return max(0, (miu // 2) - 6 + val % 12)


def xfer(w, side):
    pair = w.pair
    dst = pair.llc[other(side)]
    occupied = set(i for i in range(64) if dst.sap[i] is not None)
    f = pair.xfer(side)
    w.last[side] = None
    if f is not None:
        judge_frame(pair, f, w.wire, occupied, w.ctx, w.stats)
    settle_connects(w)
    check_helpers(w)
    return f


def check_helpers(w):
    for name, exc in w.pair.failures():
        raise unexpected(exc, oracle="thread-died")
    for box in w.helpers:
        if box.exc is not None and not isinstance(box.exc, nfc.llcp.Error):
            raise unexpected(box.exc, oracle="helper-call-raised")


def settle_connects(w):
    still = []
    for side, sock, box in w.connecting:
        if not box.done:
            still.append((side, sock, box))
            continue
        if box.exc is not None:
            if isinstance(box.exc, nfc.llcp.ConnectRefused):
                w.stats["connect-refused"] += 1
                continue
            if isinstance(box.exc, nfc.llcp.Error):
                # e.g. EPIPE: a datagram hit the connecting socket
                w.stats["connect-failed"] += 1
                continue
            raise unexpected(box.exc, oracle="connect-raised")
        me, peer = sock.getsockname(), sock.getpeername()
        for lst in w.listeners[other(side)]:
            for acc in lst["accepted"]:
                if acc.getsockname() == peer and acc.getpeername() == me \
                        and not any(c[other(side)] is acc for c in w.conns):
                    w.conns.append({side: sock, other(side): acc,
                                    "n": {"a": 0, "b": 0}, "dead": False})
                    w.stats["connections"] += 1
                    break
    w.connecting = still


def queued_i(sock):
    """number of I PDUs in the send queue of a connection endpoint (read
    only, for the labels)"""
    return sum(1 for p in list(sock._tco.send_queue) if p.name == "I")


def op_ldl(w, side):
    if len(w.ldl[side]) >= 6:
        return
    s = w.pair.socket(side, LOGICAL_DATA_LINK)
    s.bind()
    w.ldl[side].append(s)


def op_sendto(w, side, i, kind, val, dkind, d):
    if not w.ldl[side]:
        op_ldl(w, side)
    s = w.ldl[side][i % len(w.ldl[side])]
    miu = w.pair.llc[other(side)].cfg["recv-miu"]
    n = size_for(kind, val, miu, w.fit(side, 2))
    if AGF_CLASS in EXCLUDE_CLASSES and in_band(w.pair, side, n, 2):
        w.stats["excluded:" + AGF_CLASS] += 1
        n = max(0, miu - 12)
    peers = w.ldl[other(side)]
    if dkind == 0 and peers:
        dest = peers[d % len(peers)].getsockname()
    else:
        dest = 2 + d % 62
    try:
        ok = s.sendto(bytes([val & 255]) * n, dest, nfc.llcp.MSG_DONTWAIT)
    except nfc.llcp.Error as err:
        if err.errno == E.EMSGSIZE and n > miu:
            w.stats["oversize-refused"] += 1
            return
        raise unexpected(err, oracle="sendto-error")
    if n > miu:
        raise Violation("oversize-accepted", "sendto of %d byte accepted, "
                        "Link MIU of the peer is %d" % (n, miu))
    if ok is not True:
        raise Violation("sendto-returned-false", repr(ok))
    w.stats["ui-queued"] += 1
    w.last[side] = 2 + n


def op_listen(w, side, name_i, rw, smiu, backlog):
    if len(w.listeners[side]) >= 3:
        return
    name = NAMES[name_i % len(NAMES)] if name_i is not None else None
    if name is not None and any(l["name"] == name
                                for l in w.listeners[side]):
        name = None
    s = w.pair.socket(side, DATA_LINK_CONNECTION)
    s.setsockopt(nfc.llcp.SO_RCVBUF, rw)
    s.setsockopt(nfc.llcp.SO_RCVMIU, smiu)
    s.bind(name)
    s.listen(backlog)
    lst = {"sock": s, "name": name, "accepted": []}

    def acceptor():
        while True:
            try:
                lst["accepted"].append(s.accept())
            except nfc.llcp.Error:
                return
    lst["box"] = w.pair.call(acceptor, "accept-%s%d" % (side,
                                                       len(w.listeners[side])))
    w.helpers.append(lst["box"])
    w.listeners[side].append(lst)


def op_connect(w, side, tkind, i, rw, smiu, nlen):
    if len(w.connecting) + len(w.conns) >= 10:
        return
    peers = w.listeners[other(side)]
    if tkind in (0, 1) and not peers:
        tkind = 2 + tkind
    if tkind == 0:                      # by address to a listener
        dest = peers[i % len(peers)]["sock"].getsockname()
    elif tkind == 1:                    # by name to a listener (if named)
        lst = peers[i % len(peers)]
        dest = lst["name"] or lst["sock"].getsockname()
    elif tkind == 2:                    # nobody listens there -> DM / silence
        lds = w.ldl[other(side)]
        dest = lds[i % len(lds)].getsockname() if lds else 50 + i % 10
    else:                               # unknown service name -> DM from SDP
        dest = ("urn:nfc:sn:" + "n" * max(1, nlen))[:255]
        if 2 + 2 + len(dest) + 7 > w.pair.llc[side].cfg["send-miu"]:
            w.stats["connect-name-longer-than-miu"] += 1
    s = w.pair.socket(side, DATA_LINK_CONNECTION)
    s.setsockopt(nfc.llcp.SO_RCVBUF, rw)
    s.setsockopt(nfc.llcp.SO_RCVMIU, smiu)
    box = w.pair.call(lambda: s.connect(dest), "connect-" + side)
    w.connecting.append((side, s, box))
    w.helpers.append(box)
    settle_connects(w)


def live_conn(w, i):
    live = [c for c in w.conns if not c["dead"]]
    return live[i % len(live)] if live else None


def op_send(w, i, side, kind, val, blocking=False):
    c = live_conn(w, i)
    if c is None:
        return
    s = c[side]
    lim = w.wire.miu.get((other(side), s.getpeername(), s.getsockname()))
    if lim is None:
        return
    n = size_for(kind, val, lim, w.fit(side, 3))
    if AGF_CLASS in EXCLUDE_CLASSES and in_band(w.pair, side, n, 3):
        w.stats["excluded:" + AGF_CLASS] += 1
        n = max(0, n - 12)
    if blocking:
        # an application thread inside a plain send(): it returns when the
        # I PDU was collected (or the connection ended); errors of the
        # documented kind end up in the helper's box
        if n > lim:
            n = lim
        data = bytes([val & 255]) * n
        box = w.pair.call(lambda: s.send(data, 0), "send-" + side)
        w.helpers.append(box)
        w.stats["blocking-send"] += 1
        if not box.done:
            w.stats["blocking-send-waits"] += 1
            w.last[side] = 3 + n
        return
    try:
        ok = s.send(bytes([val & 255]) * n, nfc.llcp.MSG_DONTWAIT)
    except nfc.llcp.Error as err:
        if err.errno == E.EMSGSIZE and n > lim:
            w.stats["oversize-refused"] += 1
            return
        if err.errno == E.EWOULDBLOCK and n <= lim:
            w.stats["send-wouldblock"] += 1
            return
        if err.errno in (E.EPIPE, E.ENOTCONN, E.ESHUTDOWN):
            c["dead"] = True        # the peer disconnected meanwhile
            return
        raise unexpected(err, oracle="send-error")
    if n > lim:
        raise Violation("oversize-accepted", "send of %d byte accepted, the "
                        "peer announced connection MIU %d" % (n, lim))
    if ok is True:
        c["n"][side] += 1
        w.stats["i-queued"] += 1
        w.last[side] = 3 + n


def op_recv(w, i, side):
    c = live_conn(w, i)
    if c is None:
        return
    s = c[side]
    try:
        while s.poll("recv", 0):
            if s.recv() is None:
                c["dead"] = True
                return
            w.stats["i-received"] += 1
    except nfc.llcp.Error:
        c["dead"] = True


def op_busy(w, i, side, flag):
    c = live_conn(w, i)
    if c is None:
        return
    try:
        c[side].setsockopt(nfc.llcp.SO_RCVBSY, bool(flag))
    except nfc.llcp.Error:
        c["dead"] = True


def op_close(w, i, side):
    c = live_conn(w, i)
    if c is None:
        return
    # I PDUs that send() accepted may still be queued: they leave in front
    # of the DISC PDU and are judged like every other frame content
    if queued_i(c[side]):
        w.stats["closed-with-unsent-data"] += 1
    if queued_i(c[other(side)]):
        w.stats["closed-while-peer-has-unsent-data"] += 1
    c["dead"] = True
    w.helpers.append(w.pair.call(c[side].close, "close-" + side))
    w.stats["closed"] += 1


def op_resolve(w, side, nkind, i, nlen):
    if sum(1 for b in w.helpers if not b.done
           and b.name.startswith("resolve")) >= 12:
        return
    peers = [l for l in w.listeners[other(side)] if l["name"]]
    if nkind == 0 and peers:
        name = peers[i % len(peers)]["name"]
    else:
        name = "urn:nfc:sn:" + "r%d-" % (i % 7) + "x" * nlen
        name = name[-max(1, nlen):] if nkind == 2 else name[:60]
    s = w.ldl[side][0] if w.ldl[side] else w.pair.socket(side,
                                                         LOGICAL_DATA_LINK)
    box = w.pair.call(lambda: s.resolve(name), "resolve-" + side)
    w.helpers.append(box)
    w.stats["resolve-calls"] += 1


def op_snl(w, dst, n, nlen, first_tid):
    """the peer asks dst for n service names at once"""
    if not can_answer_sdreq(w.pair, dst):
        w.stats["excluded:" + SDRES_CLASS] += 1
        return
    name = ("urn:nfc:sn:" + "q" * 60)[:max(1, nlen)].encode()
    known = [l["name"].encode() for l in w.listeners[dst] if l["name"]]
    reqs = []
    for k in range(n):
        nm = known[k % len(known)] if known and k % 3 == 0 else name
        reqs.append(((first_tid + k) % 256, nm))
    w.pair.inject(dst, pdu.ServiceNameLookup(1, 1, sdreq=reqs))
    w.stats["sdreq-injected"] += n


def op_badi(w, i, side):
    """an I PDU with a wrong N(S) arrives at side's endpoint -> FRMR"""
    c = live_conn(w, i)
    if c is None:
        return
    s = c[side]
    vr = s._tco.recv_cnt
    bad = pdu.Information(s.getsockname(), s.getpeername(), ns=(vr + 3) % 16,
                          nr=0, data=b"bad")
    if queued_i(c["a"]) or queued_i(c["b"]):
        w.stats["frmr-with-unsent-data"] += 1
    c["dead"] = True
    w.pair.inject(side, bad)
    w.stats["frmr-provoked"] += 1


def op_stray(w, side, kind, i):
    """numbered PDU / CONNECT for which side has no connection -> DM"""
    socks = w.ldl[side] + [l["sock"] for l in w.listeners[side]]
    if not socks:
        return
    addr = socks[i % len(socks)].getsockname()
    ssap = 2 + i % 60
    if kind == 0:
        p = pdu.Information(addr, ssap, ns=0, nr=0, data=b"stray")
    elif kind == 1:
        p = pdu.ReceiveReady(addr, ssap, nr=0)
    elif kind == 2:
        p = pdu.Disconnect(addr, ssap)
    else:
        p = pdu.Connect(1, ssap, miu=128 + i, rw=i % 16, sn=None)
    w.pair.inject(side, p)
    w.stats["stray-injected"] += 1


def run_ops(w, ops):
    for op in ops:
        name = op[0]
        if name == "x":
            xfer(w, op[1])
        elif name == "ldl":
            op_ldl(w, op[1])
        elif name == "sendto":
            op_sendto(w, *op[1:])
        elif name == "listen":
            op_listen(w, *op[1:])
        elif name == "connect":
            op_connect(w, *op[1:])
        elif name == "send":
            op_send(w, *op[1:])
        elif name == "bsend":
            op_send(w, *op[1:], blocking=True)
        elif name == "recv":
            op_recv(w, *op[1:])
        elif name == "busy":
            op_busy(w, *op[1:])
        elif name == "close":
            op_close(w, *op[1:])
        elif name == "resolve":
            op_resolve(w, *op[1:])
        elif name == "snl":
            op_snl(w, *op[1:])
        elif name == "badi":
            op_badi(w, *op[1:])
        elif name == "stray":
            op_stray(w, *op[1:])
        else:
            raise HarnessError("unknown op %r" % (op,))
        check_helpers(w)


def run_machine(case, ctx):
    ctx.set_class("plain")
    pair = LlcPair(case["miu"][0], case["miu"][1], bool(case["agf"][0]),
                   bool(case["agf"][1]), record=True)
    try:
        w = World(pair, ctx)
        run_ops(w, case["ops"])
        # flush: everything still queued goes over the link and is judged
        idle = 0
        for _ in range(400):
            moved = 0
            for side in "ab":
                if xfer(w, side) is not None:
                    moved += 1
            idle = 0 if moved else idle + 1
            if idle >= 2:
                break
        else:
            w.stats["flush-not-quiescent"] += 1
        st_ = w.stats
        for k in sorted(st_):
            if k.startswith("pdu:") or k in (
                    "agf>=2", "agf>=5", "near-miu", "exactly-miu",
                    "sdres>=30", "sdres-in-agf", "sdreq-on-wire",
                    "oversize-refused", "send-wouldblock", "connect-refused",
                    "connect-failed", "frmr-provoked", "closed", "flush-not-quiescent",
                    "pdu-for-unbound-sap", "connect-name-longer-than-miu",
                    "closed-with-unsent-data", "frmr-with-unsent-data",
                    "closed-while-peer-has-unsent-data", "blocking-send",
                    "blocking-send-waits", "i-received",
                    "connections",
                    "excluded:" + SDRES_CLASS, "excluded:" + AGF_CLASS,
                    "excluded-residual:" + AGF_CLASS,
                    "excluded-residual:" + SDRES_CLASS, "resolve-calls"):
                ctx.label(k)
        if st_["agf>=2"] or st_["near-miu"] or st_["sdres>=30"]:
            ctx.nontrivial()
        ctx.note({"frames": st_["frames"], "agf>=2": st_["agf>=2"],
                  "near_miu": st_["near-miu"], "connections":
                  st_["connections"], "ui": st_["ui-queued"],
                  "i": st_["i-queued"]})
    finally:
        pair.close()


# --------------------------------------------------------------- generators
def link_miu():
    return st.one_of(st.integers(128, 2175), st.integers(128, 160),
                     st.sampled_from([128, 129, 130, 131, 133, 134, 135, 248,
                                      249, 250, 1000, 2174, 2175]))


side_ = st.sampled_from("ab")
idx_ = st.integers(0, 7)
kind_ = st.sampled_from([0, 1, 1, 2, 2, 3, 4, 4, 5, 5])
val_ = st.integers(0, 2200)
rw_ = st.one_of(st.integers(0, 15), st.sampled_from([1, 2, 4]))
smiu_ = st.one_of(st.just(128), st.integers(128, 2175))


OPS = {
    "x": st.tuples(st.just("x"), side_),
    "ldl": st.tuples(st.just("ldl"), side_),
    "sendto": st.tuples(st.just("sendto"), side_, idx_, kind_, val_,
                        st.sampled_from([0, 0, 0, 1]), st.integers(0, 61)),
    "send": st.tuples(st.just("send"), idx_, side_, kind_, val_),
    "recv": st.tuples(st.just("recv"), idx_, side_),
    "listen": st.tuples(st.just("listen"), side_, st.one_of(st.none(), idx_),
                        rw_, smiu_, st.integers(0, 4)),
    "connect": st.tuples(st.just("connect"), side_,
                         st.sampled_from([0, 0, 0, 1, 1, 1, 2, 3]), idx_, rw_,
                         smiu_, st.one_of(st.integers(1, 60),
                                          st.integers(1, 250))),
    "busy": st.tuples(st.just("busy"), idx_, side_, st.booleans()),
    "close": st.tuples(st.just("close"), idx_, side_),
    "resolve": st.tuples(st.just("resolve"), side_,
                         st.sampled_from([0, 1, 1, 2]), idx_,
                         st.integers(1, 60)),
    "snl": st.tuples(st.just("snl"), side_,
                     st.one_of(st.integers(1, 70), st.integers(25, 70)),
                     st.integers(1, 60), st.integers(0, 255)),
    "badi": st.tuples(st.just("badi"), idx_, side_),
    "stray": st.tuples(st.just("stray"), side_, st.integers(0, 3), idx_),
    # a message travels and is consumed: an acknowledgement becomes pending
    "scene-ack": st.tuples(st.just("scene-ack"), idx_, side_, val_),
    # two PDUs, the second sized around what the first leaves in the frame
    "scene-fit": st.tuples(st.just("scene-fit"), idx_, side_, val_, val_,
                           st.booleans()),
    # several service names asked for at once (40..60 byte names)
    "scene-sdreq": st.tuples(st.just("scene-sdreq"), side_,
                             st.integers(2, 5), st.integers(40, 60), idx_,
                             kind_, val_),
    # a connection ends while I PDUs are still queued: up to 3 sends that
    # do not wait (the last one optionally a thread blocked in send()), then
    # close() here / close() at the peer (its DISC arrives) / a bad I PDU
    # arrives here (FRMR to send) / at the peer (its FRMR arrives); a
    # datagram socket may put a PDU in front (before) or fill what is left
    # (after); then the frame is collected
    "scene-eol": st.tuples(st.just("scene-eol"), idx_, side_,
                           st.lists(st.tuples(st.sampled_from([5, 6, 2, 4, 0]),
                                              val_), min_size=1, max_size=3),
                           st.booleans(),
                           st.sampled_from(["close", "close", "close",
                                            "peer-close", "badi", "peer-badi"]),
                           st.sampled_from([None, None, 5, 2, 4]), val_,
                           st.sampled_from([None, 6, 6, 4]), val_,
                           st.booleans()),
}
WEIGHTS = (["x"] * 8 + ["sendto"] * 6 + ["send"] * 8 + ["recv"] * 4
           + ["busy"] * 2 + ["resolve"] * 3 + ["snl"] * 3 + ["connect"] * 2
           + ["scene-ack"] * 3 + ["scene-fit"] * 4 + ["scene-sdreq"] * 2
           + ["scene-eol"] * 4
           + ["ldl", "listen", "close", "badi", "stray"])


@st.composite
def op_strategy(draw):
    return draw(OPS[draw(st.sampled_from(WEIGHTS))])


@st.composite
def machine_case(draw, max_steps):
    miu = [draw(link_miu()), draw(link_miu())]
    agf = [draw(st.sampled_from([True, True, False])) for _ in (0, 1)]
    ops = []
    # a drawn amount of furniture first: sockets, listeners, connections
    nl = {}
    for side in "ab":
        for _ in range(draw(st.integers(0, 3))):
            ops.append(["ldl", side])
        nl[side] = draw(st.integers(0, 2))
        for _ in range(nl[side]):
            ops.append(list(draw(st.tuples(
                st.just("listen"), st.just(side), st.one_of(st.none(), idx_),
                rw_, smiu_, st.integers(0, 4)))))
    servers = [s for s in "ab" if nl[s]]
    nconn = draw(st.integers(0, 5)) if servers else 0
    for _ in range(nconn):
        client = other(draw(st.sampled_from(servers)))
        ops.append(list(draw(st.tuples(
            st.just("connect"), st.just(client), st.sampled_from([0, 1]), idx_,
            st.one_of(st.integers(1, 15), rw_), smiu_, st.just(1)))))
    if nconn:
        ops += [["x", "a"], ["x", "b"], ["x", "a"], ["x", "b"]]
    for o in draw(st.lists(
            op_strategy(), min_size=draw(st.sampled_from([1, max_steps // 2])),
            max_size=max_steps)):
        if o[0] == "scene-ack":
            _, i, side, val = o
            ops += [["send", i, side, 4, val], ["x", side],
                    ["recv", i, other(side)]]
        elif o[0] == "scene-fit":
            _, i, side, v1, v2, ui_first = o
            ops += [["x", side], ["x", side]]
            if ui_first:
                ops.append(["sendto", side, i, 5, v1, 0, i])
            else:
                ops.append(["send", i, side, 5, v1])
            ops += [["send", i, side, 6, v2], ["x", side]]
        elif o[0] == "scene-eol":
            _, i, side, sends, block, how, k1, v1, k2, v2, drain = o
            if drain:
                ops += [["x", side], ["x", side]]
            if k1 is not None:
                ops.append(["sendto", side, i, k1, v1, 0, i])
            for j, (k, v) in enumerate(sends):
                last = j == len(sends) - 1
                ops.append(["bsend" if block and last else "send",
                            i, side, k, v])
            if how == "close":
                ops.append(["close", i, side])
            elif how == "peer-close":
                ops += [["close", i, other(side)], ["x", other(side)]]
            elif how == "badi":
                ops.append(["badi", i, side])
            else:
                ops += [["badi", i, other(side)], ["x", other(side)]]
            if k2 is not None:
                ops.append(["sendto", side, i, k2, v2, 0, i])
            ops.append(["x", side])
        elif o[0] == "scene-sdreq":
            _, side, k, nlen, i, kind, val = o
            if kind in (2, 5):
                ops.append(["sendto", side, i, kind, val, 0, i])
            ops += [["resolve", side, 1, i + j, nlen] for j in range(k)]
            ops.append(["x", side])
        else:
            ops.append(list(o))
    return {"miu": miu, "agf": agf, "ops": ops}


# ---------------------------------------------------------- exhaustive leg
def sdres_limits(miu):
    """largest backlog that cannot trigger the known overshoot"""
    return (miu + 3) // 4 - 1 if miu % 4 else None


def run_sdres(case, ctx):
    """one controller with Link MIU case['miu'] towards its peer and a
    backlog of n pending SDRES for every n in case['n'][0]..case['n'][1]
    (step case['n'][2]); everything collect() returns is judged"""
    miu, agf = case["miu"], bool(case["agf"])
    lo, hi = case["n"][0], case["n"][1]
    step = case["n"][2] if len(case["n"]) > 2 else 1
    ctx.set_class("sdres-only")
    ev = nt = skipped = 0
    cap = sdres_limits(miu)
    for n in range(lo, hi + 1, step):
        if SDRES_CLASS in EXCLUDE_CLASSES and cap is not None and n > cap:
            skipped += 1
            continue
        llc = llc_mod.LogicalLinkController(miu=128, agf=agf, sec=False)
        llc.cfg["send-miu"] = miu
        llc.cfg["llcp-dpc"] = 0
        want = [(k % 256, 16 + k % 16) for k in range(n)]
        names = dict((("urn:nfc:sn:s%d" % a).encode(), a)
                     for a in range(16, 32))
        llc.snl.update(names)
        reqs = [(t, ("urn:nfc:sn:s%d" % a).encode()) for t, a in want]
        for k in range(0, n, 64):
            llc.dispatch(pdu.ServiceNameLookup(1, 1, sdreq=reqs[k:k + 64]))
        got = []
        frames = 0
        big = False
        while True:
            try:
                p = llc.collect()
            except Exception as e:
                raise unexpected(e, detail="collect, miu %d backlog %d"
                                 % (miu, n))
            if p is None:
                break
            frames += 1
            if frames > n + 2:
                raise Violation("collect-never-empty", "miu %d backlog %d"
                                % (miu, n))
            raw = pdu.encode(p)
            if len(p) != len(raw):
                raise Violation("len-mismatch", "len(%s)=%d encoding %d"
                                % (p.name, len(p), len(raw)))
            try:
                r = ref.decode(raw)
            except ref.RefReject as rr:
                raise Violation("frame-not-wellformed", "%s: %s"
                                % (raw.hex()[:120], rr))
            info = ref.info_len(raw)
            if info > miu:
                ctx.set_class(SDRES_CLASS)
                raise Violation(
                    "info-exceeds-link-miu", "Link MIU %d, aggregation %s, %d "
                    "pending SDRES: frame %d has a %d byte information field "
                    "(%d SDRES)" % (miu, agf, n, frames, info, sum(
                        len(q["sdres"]) for q in
                        (r["pdus"] if r["type"] == "AGF" else [r]))))
            for q in (r["pdus"] if r["type"] == "AGF" else [r]):
                if q["type"] != "SNL":
                    raise Violation("frame-differs-from-collected",
                                    "unexpected %s" % q["type"])
                got.extend((t, a) for t, a in q["sdres"])
            if miu - info <= 8:
                big = True
        if got != want:
            raise Violation("sdres-lost-or-reordered", "Link MIU %d backlog "
                            "%d: %d answers sent, first difference at %d"
                            % (miu, n, len(got), next(
                                (k for k in range(min(len(got), len(want)))
                                 if got[k] != want[k]),
                                min(len(got), len(want)))))
        ev += 1
        nt += 1 if big else 0
    if skipped:
        ctx.label("excluded:" + SDRES_CLASS)
    ctx.label("miu%%4=%d" % (miu % 4))
    # the inner loop is the enumeration: account for it
    ctx.acct.bulk(max(0, ev - 1), max(0, nt - 1),
                  {"backlogs-evaluated": ev, "backlogs-excluded": skipped})
    if nt:
        ctx.nontrivial()
    ctx.note({"backlogs": ev, "frame-near-miu": nt, "excluded": skipped})


def enum_sdres(tier, seed):
    if tier == "thorough":
        for miu in range(128, 2176):
            for agf in (False, True):
                yield {"miu": miu, "agf": agf, "n": [0, 600, 1]}
        return
    import random
    rnd = random.Random(seed)
    mius = [128, 129, 130, 131, 132, 2172, 2173, 2174, 2175] + \
        sorted(rnd.sample(range(133, 2172), 55))
    for miu in mius:
        cap = miu // 4
        pts = sorted(set(range(0, 6)) | set(range(max(0, cap - 2), cap + 4))
                     | set(range(2 * cap - 2, 2 * cap + 4)) | {600})
        for agf in (False, True):
            for n in pts:
                if n <= 600:
                    yield {"miu": miu, "agf": agf, "n": [n, n, 1]}


LEGS = [
    Leg("machine", run=run_machine,
        gen=lambda tier: machine_case(40 if tier == "quick" else 60),
        quick=1600, thorough=20000, shards_quick=12, shards_thorough=16,
        nt_floor=0.3,
        rule="two controllers, Link MIU 128..2175 per side (small values and "
             "non-multiples of 4 emphasised), aggregation on/off per side; "
             "drawn furniture (<=6 datagram sockets, <=3 listeners, <=10 "
             "connections with RW 0..15 and connection MIU 128..2175) then "
             "<=40 (quick) / <=60 (thorough) operations that fill the queues, "
             "among them connections that end while I PDUs are still queued "
             "(1..3 non-blocking sends or a thread blocked in send(), then "
             "close() / the peer's DISC / a bad I PDU -> FRMR / the peer's "
             "FRMR, with a datagram of another socket in front of them or "
             "sized around the room they leave in the frame); every frame of every exchange and of the final flush is "
             "judged; non-trivial = some frame aggregated >=2 PDUs or came "
             "within 8 byte of the MIU or carried >=30 SDRES."),
    Leg("sdres", run=run_sdres, enum=enum_sdres, exhaustive=True,
        shards_quick=4, shards_thorough=16,
        rule="thorough: every Link MIU 128..2175 x aggregation on/off x "
             "SDRES backlog 0..600 (one case per MIU and aggregation setting, "
             "the backlogs are enumerated inside and counted as "
             "evaluations); quick: 64 seeded MIUs x backlogs around 0, "
             "1x and 2x the frame capacity and 600; non-trivial = a frame "
             "within 8 byte of the MIU."),
]
