"""C09 - when the LLCP link ends no application thread is left waiting.

Two complete stacks (ContactlessFrontend.connect(llcp=...)) on the simulated
medium under the virtual scheduler.  Each side runs a generated set of
application threads that block in socket calls (accept, connect by name or
address, resolve, send with a full window, recv, sendto, recvfrom, poll,
SNEP / handover servers).  The link is then ended by one of

   break      the RF link is disrupted at frame n (everything later is lost)
   term-i/t   terminate() of that side turns true at virtual time T
   ioerr-i/t  the device of that side raises IOError at driver call j

phase 1 oracle: after the termination and a generous virtual time every
application thread has returned or raised nfc.llcp.Error, every server thread
has exited, both connect() calls have returned, no thread died of another
exception, nothing is blocked.
phase 2: one socket call of every kind is issued *after* termination, on
sockets that existed before and on fresh ones; each must return or raise
nfc.llcp.Error within bounded virtual time.

legs: `random` (generated scenario + schedule choice list), `preempt`
(bounded systematic: for fixed scenarios, every position of one forced
preemption in a window of scheduling points around the termination event),
`race` (one blocking call against terminate(), every schedule), `dlc-eol`
(threads blocked on an established data link connection that reaches its end
of life BEFORE the link does - frame reject received or sent, DISC, DM - and
then the link terminates; every schedule up to a depth.  Oracle as phase 1
and 2: every thread returns or raises nfc.llcp.Error, later calls on the dead
connection too).
"""
from hypothesis import strategies as st

import nfc
import nfc.handover
import nfc.llcp
import nfc.snep

from vlib import p2p, vsched
from vlib.engine import HarnessError, Leg, Violation, unexpected, twin_env

PROPERTY = "C09"
LEVEL = "exploration"
ASSUMPTIONS = [
    "schedules are explored at synchronisation-point granularity under the "
    "virtual scheduler; 'bounded time' is a fixed virtual time bound (30 s "
    "after the termination cause, link timeouts are <= 1 s)",
    "SystemExit leaving connect() after an IOError in the run loop is "
    "counted as 'connect returned' here; that contract is C18's matter",
    "simulated medium/driver (vlib/simdev.py)",
    "race and dlc-eol legs: one link controller without MAC; the link thread "
    "is reduced to what the run loop does with the controller - dispatch() of "
    "a PDU decoded from bytes, collect(), terminate() - and the peer's PDUs "
    "are hand-made; a socket is closed at most once by the application",
]

SVC = "urn:nfc:sn:verif"


def setup():
    vsched.patch_nfc()


# ------------------------------------------------------------ app programs
def prog_accept_recv(llc, log):
    s = nfc.llcp.Socket(llc, nfc.llcp.DATA_LINK_CONNECTION)
    s.bind(SVC)
    s.listen(2)
    c = s.accept()
    log.append("accepted")
    while True:
        d = c.recv()
        if d is None:
            break
    c.close()
    s.close()


def prog_accept_silent(llc, log):
    s = nfc.llcp.Socket(llc, nfc.llcp.DATA_LINK_CONNECTION)
    s.setsockopt(nfc.llcp.SO_RCVBUF, 2)
    s.bind(SVC)
    s.listen(2)
    c = s.accept()
    log.append("accepted")
    c.poll("acks", None)       # never receives: the peer's window fills up
    s.accept()


def prog_connect_recv(llc, log):
    s = nfc.llcp.Socket(llc, nfc.llcp.DATA_LINK_CONNECTION)
    s.connect(SVC)
    log.append("connected")
    s.send(b"hello")
    s.recv()
    s.close()


def prog_connect_flood(llc, log):
    s = nfc.llcp.Socket(llc, nfc.llcp.DATA_LINK_CONNECTION)
    s.connect(SVC)
    log.append("connected")
    for i in range(40):
        if not s.send(bytes([i]) * 20):
            break
    s.poll("send", None)
    s.close()


def prog_connect_nobody(llc, log):
    s = nfc.llcp.Socket(llc, nfc.llcp.DATA_LINK_CONNECTION)
    s.connect("urn:nfc:sn:nobody")


def prog_connect_unbound(llc, log):
    s = nfc.llcp.Socket(llc, nfc.llcp.DATA_LINK_CONNECTION)
    s.connect(40)


def prog_resolve_unknown(llc, log):
    addr = llc.resolve("urn:nfc:sn:unknown")
    log.append(("resolved", addr))
    if addr is None:
        return                     # the link is gone
    s = nfc.llcp.Socket(llc, nfc.llcp.LOGICAL_DATA_LINK)
    s.bind()
    s.recvfrom()


def prog_recvfrom(llc, log):
    s = nfc.llcp.Socket(llc, nfc.llcp.LOGICAL_DATA_LINK)
    s.bind(33)
    while True:
        d, a = s.recvfrom()
        if d is None:
            break


def prog_sendto(llc, log):
    s = nfc.llcp.Socket(llc, nfc.llcp.LOGICAL_DATA_LINK)
    for i in range(100000):
        if not s.sendto(b"datagram", 33):
            break


def prog_poll_recv(llc, log):
    s = nfc.llcp.Socket(llc, nfc.llcp.LOGICAL_DATA_LINK)
    s.bind(34)
    s.poll("recv", None)
    s.close()


def prog_snep_server(llc, log):
    nfc.snep.SnepServer(llc).start()


def prog_handover_server(llc, log):
    nfc.handover.HandoverServer(llc).start()


def prog_snep_put(llc, log):
    c = nfc.snep.SnepClient(llc)
    try:
        log.append(("put", c.put_octets(b"\xd1\x01\x03T\x02en" * 100)))
    except nfc.snep.SnepError as e:
        log.append(("snep-error", e.errno))


def prog_raw_recv(llc, log):
    s = nfc.llcp.Socket(llc, nfc.llcp.llc.RAW_ACCESS_POINT)
    s.bind(35)
    s.recv()


def prog_raw_wks(llc, log):
    # a raw access point on a well-known address, then somebody tries to
    # bind the service name that belongs to that address (refused: the
    # address is in use); the raw socket's reader is woken at link end
    s = nfc.llcp.Socket(llc, nfc.llcp.llc.RAW_ACCESS_POINT)
    try:
        s.bind(4)
    except nfc.llcp.Error as e:
        log.append(("raw-bind", e.errno))
        return
    t = nfc.llcp.Socket(llc, nfc.llcp.LOGICAL_DATA_LINK)
    try:
        t.bind("urn:nfc:sn:snep")
        log.append(("name-bound", t.getsockname()))
    except nfc.llcp.Error as e:
        log.append(("name-bind", e.errno))
    s.recv()


PROGRAMS = {
    "accept-recv": prog_accept_recv, "accept-silent": prog_accept_silent,
    "connect-recv": prog_connect_recv, "connect-flood": prog_connect_flood,
    "connect-nobody": prog_connect_nobody,
    "connect-unbound": prog_connect_unbound,
    "resolve-unknown": prog_resolve_unknown, "recvfrom": prog_recvfrom,
    "sendto": prog_sendto, "poll-recv": prog_poll_recv,
    "snep-server": prog_snep_server, "handover-server": prog_handover_server,
    "snep-put": prog_snep_put, "raw-recv": prog_raw_recv,
    "raw-wks": prog_raw_wks,
}
SERVER_SIDE = ["accept-recv", "accept-silent", "recvfrom", "poll-recv",
               "snep-server", "handover-server", "resolve-unknown",
               "raw-recv", "raw-wks"]
CLIENT_SIDE = ["connect-recv", "connect-flood", "connect-nobody",
               "connect-unbound", "resolve-unknown", "sendto", "snep-put",
               "recvfrom", "raw-wks"]

POST_CALLS = ["connect-name", "connect-addr", "accept", "sendto",
              "sendto-nowait", "recvfrom", "resolve", "sendto-old",
              "recvfrom-old", "poll-old", "close-old", "getsockopt-old",
              "setsockopt-old", "connect-old",
              "close-new", "bind", "listen", "getsockopt", "poll-new"]
# calls that need the (no longer running) link loop to complete, issued on a
# socket created after the link was terminated: one root cause
FRESH_BLOCKING = ("connect-name", "connect-addr", "accept", "sendto",
                  "recvfrom", "poll-new")


def post_call(llc, name, old):
    DLC, LDL = nfc.llcp.DATA_LINK_CONNECTION, nfc.llcp.LOGICAL_DATA_LINK
    if name == "connect-name":
        nfc.llcp.Socket(llc, DLC).connect(SVC)
    elif name == "connect-addr":
        nfc.llcp.Socket(llc, DLC).connect(32)
    elif name == "accept":
        s = nfc.llcp.Socket(llc, DLC)
        s.bind("urn:nfc:sn:post")
        s.listen(1)
        s.accept()
    elif name == "sendto":
        nfc.llcp.Socket(llc, LDL).sendto(b"x", 33)
    elif name == "sendto-nowait":
        nfc.llcp.Socket(llc, LDL).sendto(b"x", 33, nfc.llcp.MSG_DONTWAIT)
    elif name == "recvfrom":
        s = nfc.llcp.Socket(llc, LDL)
        s.bind()
        s.recvfrom()
    elif name == "resolve":
        llc.resolve("urn:nfc:sn:post-resolve")
    elif name == "bind":
        nfc.llcp.Socket(llc, LDL).bind()
    elif name == "listen":
        s = nfc.llcp.Socket(llc, DLC)
        s.listen(1)
    elif name == "close-new":
        nfc.llcp.Socket(llc, DLC).close()
    elif name == "poll-new":
        s = nfc.llcp.Socket(llc, LDL)
        s.bind()
        s.poll("recv", None)
    elif name == "getsockopt":
        nfc.llcp.Socket(llc, LDL).getsockopt(nfc.llcp.SO_SNDMIU)
    elif old is not None:
        if name == "sendto-old":
            old.sendto(b"late", 33)
        elif name == "recvfrom-old":
            old.recvfrom()
        elif name == "poll-old":
            old.poll("recv", None)
        elif name == "close-old":
            old.close()
        elif name == "getsockopt-old":
            old.getsockopt(nfc.llcp.SO_SNDMIU)
        elif name == "setsockopt-old":
            old.setsockopt(nfc.llcp.SO_RCVBUF, 2)
        elif name == "connect-old":
            old.connect(33)


# --------------------------------------------------------------- scenario
def scenario():
    return st.fixed_dictionaries({
        "server": st.sampled_from(["i", "t"]),
        "srv": st.lists(st.sampled_from(SERVER_SIDE), min_size=1, max_size=3,
                        unique=True),
        "cli": st.lists(st.sampled_from(CLIENT_SIDE), min_size=1, max_size=3,
                        unique=True),
        "cause": st.sampled_from(["break", "break", "term-i", "term-t",
                                  "ioerr-i", "ioerr-t"]),
        "when": st.integers(0, 60),
        "lto": st.sampled_from([100, 500, 1000]),
        "miu": st.sampled_from([128, 248, 1000]),
        "post": st.lists(st.sampled_from(POST_CALLS), max_size=4,
                         unique=True),
        "choices": st.lists(st.integers(0, 3), max_size=40),
        "chstart": st.one_of(st.just(0), st.integers(0, 4000)),
        # application threads descheduled (virtual time) at generated
        # scheduling points at which they hold no lock
        "stalls": st.one_of(st.just([]), st.lists(st.tuples(
            # (urn:nfc:sn = the listen threads of the SNEP / handover
            # servers, which carry the service name; a long stall at their
            # first scheduling points lets the link end before they listen)
            st.sampled_from(["i:", "t:", "i:", "t:", "serve", "urn:nfc:sn",
                             "urn:nfc:sn"]),
            st.one_of(st.integers(1, 120), st.integers(1, 4)),
            st.sampled_from([0.002, 0.01, 0.05, 0.2, 1.0, 5.0])),
            max_size=6)),
        # up to three preemptions where nfcpy has no synchronisation point
        "lines": st.one_of(st.just([]), st.just([]), st.lists(st.tuples(
            st.sampled_from(["i:", "t:", "connect-i", "connect-t", "serve"]),
            st.one_of(st.integers(1, 400), st.integers(1, 4000))),
            min_size=1, max_size=3)),
        "seed": st.integers(0, 255)})


def run(case, ctx):
    chstart = case.get("chstart", 0)
    P = p2p.Pair([] if chstart else case["choices"], seed=case["seed"],
                 opts_i={"miu": case["miu"], "lto": case["lto"]},
                 opts_t={"miu": case["miu"], "lto": case["lto"]},
                 step_budget=600000)
    if chstart:
        # the generated choice list applies from scheduling point chstart on
        P.sched.forced = dict((chstart + i, c)
                              for i, c in enumerate(case["choices"]))
    if case.get("force"):
        P.sched.forced = {int(case["force"][0]): int(case["force"][1])}
    P.sched.stalls = [list(x) for x in case.get("stalls", [])]
    if case.get("lines"):
        # preemptions at source-line granularity: the named thread loses the
        # CPU before its n-th line inside nfcpy (vsched line_preempt)
        P.sched.line_trace = True
        P.sched.line_preempt = [list(x) for x in case["lines"]]
    srv, cli = case["server"], ("t" if case["server"] == "i" else "i")
    threads = []          # (side, program, state dict)
    oldsock = {}
    state = {"term_point": None, "t_cause": None}

    def mark():
        if state["term_point"] is None:
            state["term_point"] = P.sched.points
            state["t_cause"] = P.sched.now

    def app(side, name):
        st_ = {"log": [], "done": False, "exc": None}
        threads.append((side, name, st_))

        def body():
            try:
                PROGRAMS[name](P.llc[side], st_["log"])
            except nfc.llcp.Error as e:
                st_["log"].append(("llcp-error", e.errno))
            except (vsched.Abort, vsched.StepBudget):
                raise
            except BaseException as e:
                st_["exc"] = e
            st_["done"] = True
        return body

    terminated = {}       # side -> llc.terminate() has completed
    fresh = []            # sockets created / bound after that

    def watch(side, llc):
        orig_terminate, orig_socket = llc.terminate, llc.socket

        def terminate(reason):
            try:
                return orig_terminate(reason)
            finally:
                terminated[side] = True

        def socket(socket_type):
            sock = orig_socket(socket_type)
            if terminated.get(side):
                fresh.append(sock)
            return sock

        orig_bind = llc.bind

        def bind(socket, *args):
            try:
                return orig_bind(socket, *args)
            finally:
                # bound although the link had terminated (a socket bound
                # before would have been shut down by terminate())
                if terminated.get(side) and socket.is_bound and \
                        not socket.state.SHUTDOWN:
                    fresh.append(socket)
        llc.terminate, llc.socket, llc.bind = terminate, socket, bind

    def on_connect(side, names):
        def cb(llc):
            watch(side, llc)
            # a socket that exists before the link ends, for phase 2
            oldsock[side] = nfc.llcp.Socket(llc, nfc.llcp.LOGICAL_DATA_LINK)
            oldsock[side].bind(60)
            for n in names:
                P.sched.spawn(app(side, n), "%s:%s" % (side, n))
        return cb

    P.on_connect[srv] = on_connect(srv, case["srv"])
    P.on_connect[cli] = on_connect(cli, case["cli"])
    cause, when = case["cause"], case["when"]
    if cause == "break":
        P.air.break_at = 6 + when * 3
        orig_fate = P.air.fate

        def fate(direction, brty, frame):
            f = orig_fate(direction, brty, frame)
            if P.air.broken:
                mark()
            return f
        P.air.fate = fate
    elif cause.startswith("term-"):
        side = cause[-1]
        T = 0.05 + when * 0.05

        def term():
            if P.sched.now >= T and side in P.llc:
                mark()
                return True
            return False
        P.terminate[side] = term
    else:
        side = cause[-1]
        ncall = {"n": 0}

        def host_fault(dev, call, no):
            if dev == side and side in P.llc and call in (
                    "send_cmd_recv_rsp", "send_rsp_recv_cmd"):
                ncall["n"] += 1
                if ncall["n"] > 3 + when:
                    mark()
                    return IOError(5, "sim: device gone")
            return None
        P.air.host_fault = host_fault
    post_state = []
    verdict = None
    try:
        P.start()
        P.sched.run_until(lambda: state["term_point"] is not None, 60.0)
        if state["term_point"] is None:
            ctx.label("cause-never-fired")
        blocked_at_cause = [repr(t) for t in P.sched.blocked()
                            if ":" in t.name]
        # phase 1: everything unwinds
        P.sched.run_until(
            lambda: "i" in P.result or "i" in P.exc, 30.0)
        P.sched.run_until(
            lambda: ("i" in P.result or "i" in P.exc) and
                    ("t" in P.result or "t" in P.exc), 30.0)
        P.sched.sleep(5.0)
        P.sched.settle()
        for _ in range(20):
            # threads the harness itself holds back (stalls) get their turn
            if not any(t.wait_on == "stall" for t in P.sched.alive()):
                break
            P.sched.sleep(1.0)
            P.sched.settle()
        returned = {s: (s in P.result or s in P.exc) for s in "it"}
        alive = [t for t in P.sched.alive()]
        fresh_waits = set()
        for sock in fresh:
            for attr in ("recv_ready", "send_ready", "acks_ready",
                         "send_token"):
                if hasattr(sock, attr):
                    fresh_waits.add(id(getattr(sock, attr)))
        on_fresh = set(t.name for t in alive if id(t.wait_on) in fresh_waits)
        failures = P.sched.failures()
        # phase 2: calls after termination
        if all(returned.values()) and not alive:
            for side in "it":
                llc = P.llc.get(side)
                if llc is None:
                    continue
                for name in case["post"]:
                    ps = {"name": name, "side": side, "done": False,
                          "exc": None}
                    post_state.append(ps)

                    def body(llc=llc, name=name, ps=ps,
                             old=oldsock.get(side)):
                        try:
                            post_call(llc, name, old)
                        except nfc.llcp.Error:
                            pass
                        except (vsched.Abort, vsched.StepBudget):
                            raise
                        except BaseException as e:
                            ps["exc"] = e
                        ps["done"] = True
                    P.sched.spawn(body, "post:%s:%s" % (side, name))
            P.sched.sleep(20.0)
            P.sched.settle()
        verdict = {"returned": returned,
                   "alive": [(t.name, repr(t)) for t in alive],
                   "failures": failures, "blocked_at_cause": blocked_at_cause,
                   "exc": dict(P.exc), "points": P.sched.points}
    except vsched.StepBudget:
        verdict = "step-budget"
    finally:
        P.close()
    # --------------------------------------------------------------- oracle
    ctx.set_class("phase1/" + cause.split("-")[0])
    if verdict == "step-budget":
        raise Violation("livelock", "step budget exhausted")
    ctx.label("cause:" + cause)
    for side, e in verdict["exc"].items():
        if isinstance(e, SystemExit):
            ctx.label("connect-left-by-SystemExit")
        else:
            raise unexpected(e, "connect-raises")
    for side, name, st_ in threads:
        if st_["exc"] is not None:
            ctx.set_class("phase1/%s/%s" % (cause.split("-")[0], name))
            raise unexpected(st_["exc"], "application-thread-raises",
                             detail="%s:%s" % (side, name))
    for name, e in verdict["failures"]:
        if not name.startswith("post:"):
            raise unexpected(e, "thread-died", detail=name)
    if not all(verdict["returned"].values()):
        raise Violation("connect-did-not-return", repr(verdict["returned"]))
    if verdict["alive"]:
        names = sorted(n for n, _ in verdict["alive"])
        if all(n in on_fresh for n in names):
            # every waiting thread waits on a socket that was created or
            # bound after the link had terminated (its program had been
            # descheduled that long): the known post-termination finding,
            # not a thread that termination left behind
            ctx.set_class("post/fresh-socket-blocking-call")
            raise Violation("post-termination-call-blocks",
                            "program started late: %r" % (names,))
        ctx.set_class("phase1/%s/%s" % (cause.split("-")[0],
                                        names[0].split(":")[-1]))
        raise Violation("thread-left-waiting",
                        "after %s: %r" % (cause, verdict["alive"]))
    if verdict["blocked_at_cause"]:
        ctx.nontrivial()
        ctx.label("threads-blocked-at-cause=%d"
                  % min(len(verdict["blocked_at_cause"]), 4))
    for ps in post_state:
        ctx.set_class("post/fresh-socket-blocking-call"
                      if ps["name"] in FRESH_BLOCKING else "post/" + ps["name"])
        if ps["exc"] is not None:
            raise unexpected(ps["exc"], "post-termination-call-raises",
                             detail=ps["name"])
        if not ps["done"]:
            raise Violation("post-termination-call-blocks", ps["name"])
    ctx.set_class("ok")
    ctx.note({"term_point": state["term_point"],
              "points": verdict["points"],
              "blocked_at_cause": verdict["blocked_at_cause"][:4]})
    return state["term_point"], verdict["points"]


# systematic single preemption around the termination event -----------------
BASE = [
    {"server": "t", "srv": ["accept-recv", "recvfrom"],
     "cli": ["connect-recv", "resolve-unknown"], "cause": "break", "when": 6,
     "lto": 100, "miu": 128, "post": [], "choices": [], "seed": 1},
    {"server": "i", "srv": ["accept-silent", "poll-recv"],
     "cli": ["connect-flood", "sendto"], "cause": "term-t", "when": 8,
     "lto": 100, "miu": 128, "post": [], "choices": [], "seed": 2},
    {"server": "t", "srv": ["snep-server", "recvfrom"],
     "cli": ["snep-put", "connect-unbound"], "cause": "term-i", "when": 3,
     "lto": 500, "miu": 248, "post": [], "choices": [], "seed": 3},
    {"server": "t", "srv": ["handover-server", "raw-recv"],
     "cli": ["connect-nobody", "recvfrom"], "cause": "ioerr-i", "when": 5,
     "lto": 100, "miu": 128, "post": [], "choices": [], "seed": 4},
    {"server": "i", "srv": ["accept-recv", "resolve-unknown"],
     "cli": ["connect-recv", "sendto"], "cause": "ioerr-t", "when": 9,
     "lto": 100, "miu": 128, "post": [], "choices": [], "seed": 5},
    {"server": "t", "srv": ["recvfrom", "raw-recv"],
     "cli": ["sendto", "connect-nobody"], "cause": "break", "when": 12,
     "lto": 100, "miu": 128, "post": [], "choices": [], "seed": 6},
]


class _Ctx(object):
    def __getattr__(self, name):
        return lambda *a, **k: None


def enum_preempt(tier, seed):
    window = 40 if tier == "quick" else 150
    bases = (BASE[:2] + BASE[5:]) if tier == "quick" else BASE
    for base in bases:
        try:
            tp, total = run(dict(base), _Ctx())
        except Violation:
            yield dict(base)          # reported by the regular run
            continue
        if tp is None:
            continue
        lo, hi = max(1, tp - window), min(total, tp + window)
        for p in range(lo, hi + 1):
            for pick in (1, 2):
                yield dict(base, force=[p, pick])


# two threads, every schedule: one socket call racing with terminate() ----
RACE_CALLS = ["ldl-recvfrom", "raw-recv", "dlc-accept", "ldl-poll-recv",
              "ldl-sendto", "resolve", "dlc-connect", "raw-send",
              # two threads in the same call on ONE socket (x2)
              "ldl-sendto-x2", "ldl-recvfrom-x2", "raw-recv-x2",
              "dlc-accept-x2", "dlc-recv-x2", "dlc-send-window-full-x2",
              "dlc-poll-acks-x2", "resolve-x2",
              # on an established data link connection
              "dlc-recv", "dlc-send", "dlc-send-window-full",
              "dlc-poll-recv", "dlc-poll-send", "dlc-poll-acks"]


def run_race(case, ctx):
    import itertools  # noqa: F401
    import nfc.llcp.llc as L
    s = vsched.Sched(case["choices"], seed=0, step_budget=20000)
    vsched.activate(s)
    out = {"done": False, "exc": None}
    try:
        llc = L.LogicalLinkController()
        llc.cfg["send-miu"] = 128
        llc.cfg["llcp-dpc"] = 0
        call = case["call"]
        twice = call.endswith("-x2")
        if twice:
            call = call[:-3]
        DLC, LDL = nfc.llcp.DATA_LINK_CONNECTION, nfc.llcp.LOGICAL_DATA_LINK
        RAW = L.RAW_ACCESS_POINT
        if call in ("ldl-recvfrom", "ldl-poll-recv", "ldl-sendto"):
            sock = nfc.llcp.Socket(llc, LDL)
            sock.bind(33)
        elif call in ("raw-recv", "raw-send"):
            sock = nfc.llcp.Socket(llc, RAW)
            sock.bind(34)
        elif call == "dlc-accept":
            sock = nfc.llcp.Socket(llc, DLC)
            sock.bind(35)
            sock.listen(1)
        elif call == "dlc-connect":
            sock = nfc.llcp.Socket(llc, DLC)
            sock.bind(36)
        elif call.startswith("dlc-"):
            # establish a connection first: connect() in a helper thread, the
            # CC PDU handed in the way the link thread does; the schedule
            # choices of the case apply to the race only
            sock = nfc.llcp.Socket(llc, DLC)
            sock.bind(37)
            s.choices = []
            est = {}

            def setup():
                sock.connect(41)
                est["ok"] = True
            s.spawn(setup, "setup")
            s.settle()
            llc.sap[37].dequeue(128, 0)             # the CONNECT PDU
            llc.sap[37].enqueue(nfc.llcp.pdu.ConnectionComplete(
                37, 41, 128, 1))
            s.settle()
            if not est.get("ok"):
                raise HarnessError("race setup: connect() did not return")
            if call == "dlc-send-window-full":
                sock.send(b"1", nfc.llcp.MSG_DONTWAIT)
                llc.sap[37].dequeue(128, 0)         # V(S)=1, RW(R)=1: full
            s.choices, s.ci = list(case["choices"]), 0

        def app():
            try:
                if call == "ldl-recvfrom":
                    sock.recvfrom()
                elif call == "raw-recv":
                    sock.recv()
                elif call == "dlc-accept":
                    sock.accept()
                elif call == "ldl-poll-recv":
                    sock.poll("recv", None)
                elif call == "ldl-sendto":
                    sock.sendto(b"x", 33)
                elif call == "resolve":
                    llc.resolve("urn:nfc:sn:x")
                elif call == "dlc-connect":
                    sock.connect(40)
                elif call == "raw-send":
                    sock.send(nfc.llcp.pdu.UnnumberedInformation(1, 34, b"x"))
                elif call == "dlc-recv":
                    sock.recv()
                elif call in ("dlc-send", "dlc-send-window-full"):
                    sock.send(b"x")
                elif call == "dlc-poll-recv":
                    sock.poll("recv", None)
                elif call == "dlc-poll-send":
                    sock.send(b"1", nfc.llcp.MSG_DONTWAIT)
                    sock.poll("send", None)
                elif call == "dlc-poll-acks":
                    sock.poll("acks", None)
            except nfc.llcp.Error:
                pass
            except (vsched.Abort, vsched.StepBudget):
                raise
            except BaseException as e:
                out["exc"] = e
            out["ndone"] = out.get("ndone", 0) + 1
            out["done"] = out["ndone"] >= (2 if twice else 1)

        def link():
            llc.mac = None
            llc.terminate("test")
        s.spawn(app, "app")
        if twice:
            s.spawn(app, "app2")
        s.spawn(link, "link")
        s.settle()
        s.sleep(5.0)
        s.settle()
        blocked = [repr(t) for t in s.blocked()]
    finally:
        s.shutdown()
        vsched.activate(None)
    ctx.set_class("race/" + case["call"])
    ctx.nontrivial()
    if out["exc"] is not None:
        raise unexpected(out["exc"], "racing-call-raises",
                         detail=case["call"])
    if not out["done"]:
        raise Violation("racing-call-blocks-forever",
                        "%s vs terminate(), schedule %r: %r"
                        % (case["call"], case["choices"], blocked))


def enum_race(tier, seed):
    import itertools
    n = 9 if tier == "quick" else 13
    for call in RACE_CALLS:
        for choices in itertools.product((0, 1), repeat=n):
            yield {"call": call, "choices": list(choices)}


# connection end of life while threads are blocked, then the link ends -----
# A data link connection can die before the link does: the peer rejects a
# frame (FRMR), the peer sends something the local side must reject (I PDU
# out of sequence / longer than the receive MIU / a connection-less PDU on the
# connection; the FRMR goes out with the next collect()), the peer disconnects
# (DISC) or sends DM.  Threads blocked on that connection at that moment are
# still "blocked socket calls" when the link terminates afterwards.
EOL_CALLS = ["recv", "poll-recv", "poll-send", "send", "send-window-full",
             "poll-acks", "close"]
EOL_CALLSETS = [[c] for c in EOL_CALLS] + [
    ["recv", "poll-send"], ["poll-recv", "send"], ["recv", "poll-acks"]]
EOL_EVENTS = ["frmr", "i-ns", "i-long", "ui", "disc", "dm"]
EOL_SEQS = [[e] for e in EOL_EVENTS] + [
    ["i-ok", "frmr"], ["i-ns", "disc"], ["disc", "frmr"], ["i-ns", "i-ns"],
    ["ui", "frmr"]]


def eol_frame(event, local, peer):
    from vlib import ref_llcp as R
    h = {"dsap": local, "ssap": peer}
    if event == "frmr":
        p = dict(h, type="FRMR", flags=1, ptype=12, ns=0, nr=0, vs=0, vr=0,
                 vsa=0, vra=0)
    elif event == "i-ns":
        p = dict(h, type="I", ns=5, nr=0, data=b"out of sequence")
    elif event == "i-long":
        p = dict(h, type="I", ns=0, nr=0, data=bytes(129))
    elif event == "i-ok":
        p = dict(h, type="I", ns=0, nr=0, data=b"in sequence")
    elif event == "ui":
        p = dict(h, type="UI", data=b"datagram")
    elif event == "disc":
        p = dict(h, type="DISC")
    elif event == "dm":
        p = dict(h, type="DM", reason=0)
    else:
        raise HarnessError("unknown event %r" % (event,))
    return R.encode(p)


def run_eol(case, ctx):
    import nfc.llcp.llc as L
    from vlib import ref_llcp as R
    s = vsched.Sched([], seed=0, step_budget=40000)
    vsched.activate(s)
    DLC = nfc.llcp.DATA_LINK_CONNECTION
    LOCAL, PEER = 37, 41
    apps = []
    link = {"exc": None, "done": False, "blocked_at_event": [],
            "blocked_at_term": [], "sent": []}
    post = {"done": False, "exc": None}
    try:
        llc = L.LogicalLinkController()
        llc.cfg["send-miu"] = 128
        llc.cfg["llcp-dpc"] = 0
        est = {}
        # establish the connection the way the link thread does it: PDUs are
        # decoded from bytes and handed to dispatch(), collect() sends
        if case["role"] == "connect":
            sock = nfc.llcp.Socket(llc, DLC)
            sock.bind(LOCAL)

            def setup():
                sock.connect(PEER)
                est["ok"] = True
            s.spawn(setup, "setup")
            s.settle()
            llc.collect()                                   # CONNECT
            llc.dispatch(nfc.llcp.pdu.decode(R.encode(
                {"type": "CC", "dsap": LOCAL, "ssap": PEER, "miu": 128,
                 "rw": 1})))
            s.settle()
        else:
            lsock = nfc.llcp.Socket(llc, DLC)
            lsock.bind(LOCAL)
            lsock.listen(1)

            def setup():
                est["sock"] = lsock.accept()
                est["ok"] = True
            s.spawn(setup, "setup")
            s.settle()
            llc.dispatch(nfc.llcp.pdu.decode(R.encode(
                {"type": "CONNECT", "dsap": LOCAL, "ssap": PEER, "miu": 128,
                 "rw": 1, "sn": None})))
            s.settle()
            llc.collect()                                   # CC
            sock = est.get("sock")
        if not est.get("ok"):
            raise HarnessError("eol setup: connection not established")
        if "send-window-full" in case["calls"]:
            sock.send(b"1", nfc.llcp.MSG_DONTWAIT)
            llc.collect()                       # V(S)=1, RW(R)=1: window full

        closed = []

        def app(call, st_, first):
            def body():
                try:
                    if call == "close":
                        closed.append(call)
                    if call == "recv":
                        st_["ret"] = sock.recv()
                    elif call == "poll-recv":
                        st_["ret"] = sock.poll("recv", None)
                    elif call == "poll-send":
                        sock.send(b"1", nfc.llcp.MSG_DONTWAIT)
                        st_["ret"] = sock.poll("send", None)
                    elif call in ("send", "send-window-full"):
                        st_["ret"] = sock.send(b"x")
                    elif call == "poll-acks":
                        st_["ret"] = sock.poll("acks", None)
                    elif call == "close":
                        sock.close()
                    st_["returned"] = True
                    # the first thread closes the socket when its call is
                    # over (a socket is closed once: close() on a socket
                    # closed before is not part of the documented use)
                    if case["then_close"] and first and call != "close":
                        closed.append(call)
                        sock.close()
                except nfc.llcp.Error as e:
                    st_["errno"] = e.errno
                except (vsched.Abort, vsched.StepBudget):
                    raise
                except BaseException as e:
                    st_["exc"] = e
                st_["done"] = True
            return body

        frames = [eol_frame(e, LOCAL, PEER) for e in case["events"]]
        if case["agf"] and len(frames) > 1:
            frames = [R.encode({"type": "AGF", "dsap": 0, "ssap": 0, "pdus": [
                R.decode(f) for f in frames]})]

        def waiting():
            return [t.name for t in s.blocked() if t.name.startswith("app")]

        def linkloop():
            try:
                for i, f in enumerate(frames):
                    if i == 0:
                        link["blocked_at_event"] = waiting()
                    llc.dispatch(nfc.llcp.pdu.decode(f))
                    link["sent"].append(llc.collect())
                for i in range(case["rounds"]):
                    llc.dispatch(nfc.llcp.pdu.Symmetry())
                    link["sent"].append(llc.collect())
                link["blocked_at_term"] = waiting()
                llc.mac = None
                llc.terminate("test")
            except (vsched.Abort, vsched.StepBudget):
                raise
            except BaseException as e:
                link["exc"] = e
            link["done"] = True

        for i, call in enumerate(case["calls"]):
            st_ = {"call": call, "done": False, "exc": None}
            apps.append(st_)
            s.spawn(app(call, st_, i == 0), "app%d:%s" % (i, call))
        if case["mode"] == "blocked":
            s.settle()              # every application thread waits now
        s.choices, s.ci = list(case["choices"]), 0
        s.spawn(linkloop, "link")
        s.settle()
        s.sleep(5.0)
        s.settle()
        blocked = [repr(t) for t in s.blocked()]
        if link["done"] and all(a["done"] for a in apps):
            # calls issued afterwards on the same (dead) connection
            def later():
                fns = [lambda: sock.recv(), lambda: sock.send(b"late"),
                       lambda: sock.poll("recv", None),
                       lambda: sock.poll("send", None),
                       lambda: sock.poll("acks", None)]
                if not closed:
                    fns.append(lambda: sock.close())
                for fn in fns:
                    try:
                        fn()
                    except nfc.llcp.Error:
                        pass
                    except (vsched.Abort, vsched.StepBudget):
                        raise
                    except BaseException as e:
                        post["exc"] = e
                        break
                post["done"] = True
            s.spawn(later, "later")
            s.settle()
            s.sleep(5.0)
            s.settle()
        else:
            post["done"] = None
    except vsched.StepBudget:
        raise Violation("livelock", "step budget exhausted")
    finally:
        s.shutdown()
        vsched.activate(None)
    ctx.set_class("eol/%s/%s" % ("+".join(case["events"]),
                                 "+".join(case["calls"])))
    ctx.label("event:" + "+".join(case["events"]))
    if link["blocked_at_event"] or link["blocked_at_term"]:
        ctx.nontrivial()
        ctx.label("blocked-at-event=%d at-termination=%d" % (
            len(link["blocked_at_event"]), len(link["blocked_at_term"])))
    if link["exc"] is not None:
        raise unexpected(link["exc"], "link-thread-raises",
                         detail=repr(case["events"]))
    for a in apps:
        if a["exc"] is not None:
            raise unexpected(a["exc"], "application-thread-raises",
                             detail=a["call"])
    if not link["done"]:
        raise Violation("link-thread-blocked", repr(blocked))
    left = [a["call"] for a in apps if not a["done"]]
    if left:
        raise Violation("thread-left-waiting",
                        "connection ended by %r, then the link terminated: "
                        "%r still blocked: %r" % (case["events"], left,
                                                  blocked))
    if post["exc"] is not None:
        raise unexpected(post["exc"], "post-termination-call-raises")
    if post["done"] is False:
        raise Violation("post-termination-call-blocks",
                        "call on the dead connection after termination")


def enum_eol(tier, seed):
    import itertools
    nb, nr = (3, 3) if tier == "quick" else (6, 8)
    nrounds = (0, 1) if tier == "quick" else (0, 1, 2)
    for role in ("connect", "accept"):
        for calls in EOL_CALLSETS:
            for events in EOL_SEQS:
                for agf in ([False, True] if len(events) > 1 else [False]):
                    for rounds in nrounds:
                        for then_close in (False, True):
                            for mode, n in (("blocked", nb), ("race", nr)):
                                for ch in itertools.product((0, 1), repeat=n):
                                    yield {"role": role, "calls": calls,
                                           "events": events, "agf": agf,
                                           "rounds": rounds,
                                           "then_close": then_close,
                                           "mode": mode, "choices": list(ch)}


# the link loop at work while application threads change what it walks ------
# The run loops call dispatch() and collect() on the controller for every
# exchange; both walk the access point table and the socket lists.  An
# application thread that makes progress at that moment (accept() returning a
# new connection, bind / close, connect, resolve) changes those structures.
# An exception other than the ones the run loop handles kills the link thread
# WITHOUT a termination: every blocked caller then waits forever.  Here one
# controller is driven by a link thread (dispatch of the peer's PDUs, collect,
# a reactive scripted peer: CC for CONNECT, DM for DISC, SDRES for SDREQ)
# while 1-2 application threads run a short program, under every schedule
# choice list of a depth; finally the link thread terminates the link.
LOOP_PROGS = ["accept", "accept-two", "accept-close", "connect-send-close",
              "ldl-open-close", "resolve", "accept+ldl", "connect+accept"]


def run_loop_race(case, ctx):
    import nfc.llcp.llc as L
    P = nfc.llcp.pdu
    s = vsched.Sched(case["choices"], seed=0, step_budget=40000)
    if case.get("line") is not None:
        s.line_trace = True
        s.line_preempt = [list(x) for x in case["line"]]
    vsched.activate(s)
    out = {"link": None, "apps": {}}
    DLC, LDL = nfc.llcp.DATA_LINK_CONNECTION, nfc.llcp.LOGICAL_DATA_LINK
    prog = case["prog"]
    parts = prog.split("+")
    try:
        llc = L.LogicalLinkController()
        llc.cfg["send-miu"] = 128
        llc.cfg["llcp-dpc"] = 0
        # PDUs the peer sends per round; with a single round the link ends
        # right behind the first dispatch / collect
        events = [[] for _ in range(case.get("rounds", 6))]
        listener = None
        if any(p.startswith("accept") for p in parts):
            listener = nfc.llcp.Socket(llc, DLC)
            listener.bind(35)
            listener.listen(2)
            events[0].append(P.Connect(35, 41, 128, 2))
            if "accept-two" in parts:
                events[0].append(P.Connect(35, 42, 128, 1))
            if "accept-close" in parts:
                events[min(2, len(events) - 1)].append(
                    P.Information(35, 41, 0, 0, b"data"))
        if any(p.startswith("ldl") for p in parts) or "accept+ldl" == prog:
            base = nfc.llcp.Socket(llc, LDL)
            base.bind(33)
            events[min(1, len(events) - 1)].append(
                P.UnnumberedInformation(33, 20, b"dgram"))

        def app_accept():
            c = listener.accept()
            c.send(b"hello", nfc.llcp.MSG_DONTWAIT)
            if "accept-two" in parts:
                c2 = listener.accept()
                c2.send(b"hello", nfc.llcp.MSG_DONTWAIT)
            if "accept-close" in parts:
                listener.close()
                c.recv()

        ksock = None
        if any(p.startswith("connect") for p in parts):
            # exists before the link can end (calls on sockets made after
            # the termination are the known post-termination finding)
            ksock = nfc.llcp.Socket(llc, DLC)
            ksock.bind(36)

        def app_connect():
            k = ksock
            k.connect(40)
            k.send(b"x")
            k.close()

        def app_ldl():
            for i in range(2):
                if out["link"] is not None:
                    return      # an application stops when the link is gone
                d = nfc.llcp.Socket(llc, LDL)
                d.bind(None)
                d.sendto(b"x", 20, nfc.llcp.MSG_DONTWAIT)
                d.close()

        def app_resolve():
            llc.resolve("urn:nfc:sn:x")
            llc.resolve("urn:nfc:sn:y")

        bodies = {"accept": app_accept, "accept-two": app_accept,
                  "accept-close": app_accept,
                  "connect-send-close": app_connect, "connect": app_connect,
                  "ldl-open-close": app_ldl, "ldl": app_ldl,
                  "resolve": app_resolve}

        def wrap(name, fn):
            def body():
                try:
                    fn()
                    out["apps"][name] = "returned"
                except nfc.llcp.Error:
                    out["apps"][name] = "error"
                except (vsched.Abort, vsched.StepBudget):
                    raise
                except BaseException as e:
                    out["apps"][name] = e
            return body

        def link():
            try:
                for rnd in range(len(events)):
                    for p in events[rnd]:
                        llc.dispatch(p)
                    for _ in range(2):
                        q = llc.collect()
                        nxt = events[min(rnd + 1, len(events) - 1)]
                        for m in (list(q) if q is not None and
                                  q.name == "AGF" else [q]):
                            if m is None:
                                continue
                            if m.name == "CONNECT":
                                nxt.append(P.ConnectionComplete(
                                    m.ssap, m.dsap, 128, 1))
                            elif m.name == "DISC":
                                nxt.append(P.DisconnectedMode(
                                    m.ssap, m.dsap, 0))
                            elif m.name == "SNL" and m.sdreq:
                                nxt.append(P.ServiceNameLookup(
                                    1, 1, sdres=[(tid, 17)
                                                 for tid, name in m.sdreq]))
                            elif m.name == "I":
                                nxt.append(P.ReceiveReady(
                                    m.ssap, m.dsap, (m.ns + 1) % 16))
                llc.mac = None
                llc.terminate("test")
                out["link"] = "done"
            except (vsched.Abort, vsched.StepBudget):
                raise
            except BaseException as e:
                out["link"] = e
                # what the run loop's caller is left with: nothing shuts the
                # access points down
        names = []
        for p in parts:
            names.append(p)
            s.spawn(wrap(p, bodies[p]), "app-" + p)
        s.spawn(link, "link")
        s.settle()
        s.sleep(5.0)
        s.settle()
        blocked = [repr(t) for t in s.blocked()]
        nlines = dict((t.name, t.nlines) for t in s.threads)
        preempted = s.line_preempted
    finally:
        s.shutdown()
        vsched.activate(None)
    if case.get("count_lines"):
        return nlines
    if case.get("line") is not None:
        ctx.label("line-preempted:%d" % preempted)
    ctx.set_class("loop-race/" + prog)
    if case.get("line") is not None:
        if preempted:
            ctx.nontrivial()
    elif any(out["apps"].get(n) == "returned" for n in names):
        ctx.nontrivial()
    if isinstance(out["link"], BaseException):
        raise unexpected(out["link"], "link-loop-raises",
                         detail="%s, schedule %r" % (prog, case["choices"]))
    for name in names:
        r = out["apps"].get(name)
        if isinstance(r, BaseException):
            raise unexpected(r, "racing-call-raises", detail=name)
        if r is None:
            raise Violation("racing-call-blocks-forever",
                            "%s: thread %s never returned after the link "
                            "ended, schedule %r: %r"
                            % (prog, name, case["choices"], blocked))
        ctx.label("%s:%s" % (name, r))


class _NoCtx(object):
    def label(self, *a):
        pass

    def nontrivial(self):
        pass

    def set_class(self, c):
        pass


def enum_line_race(tier, seed):
    """one preemption at every source line: for each program, thread
    (application / link) and every n up to the number of lines that thread
    executes inside nfcpy in the undisturbed run, the thread loses the CPU
    before its n-th line and the other one runs on (until it blocks or
    ends)"""
    progs = LOOP_PROGS[:6]
    step = 1 if tier == "thorough" else 2
    for prog in progs:
        for rounds in (1, 2, 6):
            base = {"prog": prog, "rounds": rounds, "choices": [], "line": []}
            n = run_loop_race(dict(base, count_lines=True), _NoCtx())
            for name, total in sorted(n.items()):
                if name == "controller" or not total:
                    continue
                # the link thread's many rounds repeat themselves: sample
                lim = total if name != "link" else min(total, 700)
                for k in range(1, lim + 1, step):
                    yield dict(base, line=[[name, k]])


def run_line_pairs(case, ctx):
    """two or three preemptions at generated source lines (given as parts
    per 10000 of what the thread executes in the undisturbed run)"""
    base = {"prog": case["prog"], "rounds": case["rounds"], "choices": [],
            "line": []}
    n = run_loop_race(dict(base, count_lines=True), _NoCtx())
    names = sorted(k for k in n if k != "controller" and n[k])
    line = []
    for who, frac in case["at"]:
        name = names[who % len(names)]
        line.append([name, 1 + frac * max(n[name] - 1, 1) // 10000])
    return run_loop_race(dict(base, line=line), ctx)


def line_pairs_case():
    return st.fixed_dictionaries({
        "prog": st.sampled_from(LOOP_PROGS),
        "rounds": st.sampled_from([1, 1, 2, 6]),
        "at": st.lists(st.tuples(st.integers(0, 3), st.integers(0, 9999)),
                       min_size=2, max_size=3).map(
            lambda l: [list(x) for x in l])})


def enum_loop_race(tier, seed):
    import itertools
    n = 9 if tier == "quick" else 13
    for prog in LOOP_PROGS:
        for choices in itertools.product((0, 1), repeat=n):
            yield {"prog": prog, "choices": list(choices)}
        for rounds in (1, 2):
            for choices in itertools.product((0, 1), repeat=n - 1):
                yield {"prog": prog, "rounds": rounds,
                       "choices": list(choices)}
        # three contenders: also third-thread picks on a thinner grid
        if "+" in prog:
            for choices in itertools.product((0, 1, 2), repeat=n - 3):
                yield {"prog": prog, "choices": list(choices)}


LEGS = [
    Leg("loop-race", run=run_loop_race, enum=enum_loop_race, exhaustive=True,
        shards_quick=8, shards_thorough=16,
        rule="one controller; a link thread runs six (also: one, two) "
             "run-loop rounds "
             "(dispatch of the scripted peer's PDUs, two collect() calls, the "
             "peer reacting with CC / DM / SDRES / RR) and then terminate(), "
             "while 1-2 application threads make progress on the structures "
             "the loop walks: accept() returning one / two new connections, "
             "closing the listener, connect + send + close, opening and "
             "closing connection-less sockets, resolve, and pairs of these; "
             "every schedule choice list in {0,1}^9 (quick) / {0,1}^13 "
             "(thorough), for the pairs also {0,1,2}^6 / {0,1,2}^10.  Oracle: "
             "the link thread raises nothing (an exception the run loop does "
             "not handle ends the loop without terminating the link), every "
             "application thread returns or raises nfc.llcp.Error.  "
             "Non-trivial = an application program ran to its end while the "
             "link loop was at work."),
    Leg("line-race", run=run_loop_race, enum=enum_line_race, exhaustive=True,
        shards_quick=16, shards_thorough=16,
        rule="the scenes of loop-race (single programs, 1 / 2 / 6 link "
             "rounds) with ONE preemption at source-line granularity "
             "(vsched line_preempt): for the application thread and for the "
             "link thread, before every (quick: every second) line it "
             "executes inside nfcpy - also where nfcpy has no "
             "synchronisation point, e.g. between accept() handing out a "
             "connection and its registration - the thread loses the CPU and "
             "the other one runs until it blocks or ends.  Same oracle as "
             "loop-race.  Non-trivial = the preemption took place."),
    Leg("line-pairs", run=run_line_pairs, gen=lambda tier: line_pairs_case(),
        quick=800, thorough=20000, shards_quick=8, shards_thorough=16,
        nt_floor=0.3,
        rule="the loop-race scenes (also the two-program ones) with two or "
             "three preemptions at generated source lines of generated "
             "threads; same oracle; non-trivial = at least one preemption "
             "took place."),
    Leg("dlc-eol", run=run_eol, enum=enum_eol, exhaustive=True,
        shards_quick=16, shards_thorough=16,
        rule="an established data link connection (connecting / accepted "
             "side) with 1-2 application threads in blocking calls on it "
             "(recv, poll recv/send/acks, send, send with a full window, "
             "close, optionally followed by close()); the connection ends "
             "before the link does: the peer sends FRMR / an I PDU out of "
             "sequence or longer than the MIU or a UI PDU (local FRMR) / DISC "
             "/ DM, 11 event sequences, two events also in one AGF; 0-1 "
             "(quick) "
             "/ 0-2 (thorough) more link loop rounds (dispatch + collect), "
             "then terminate(); threads blocked first or racing with the "
             "link thread, every schedule choice list in {0,1}^3 (quick), "
             "{0,1}^6 / {0,1}^8 (thorough).  non-trivial = "
             "an application thread was blocked on the connection when the "
             "first event was dispatched or when terminate() began."),
    Leg("race", run=run_race, enum=enum_race, exhaustive=True,
        shards_quick=8, shards_thorough=16,
        rule="one blocking socket call (8 kinds) in one thread against "
             "LogicalLinkController.terminate() in another, every schedule "
             "choice list in {0,1}^9 (quick) / {0,1}^13 (thorough)."),
    Leg("random", run=run, gen=lambda tier: scenario(), quick=400,
        thorough=20000, shards_quick=8, shards_thorough=16, nt_floor=0.3,
        rule="generated scenario (1-3 blocking application programs per "
             "side out of 14, cause of termination, time of termination, "
             "LTO/MIU, up to 4 post-termination calls, schedule choice list "
             "<= 40); non-trivial = at least one application thread was "
             "blocked in a socket call when the cause fired."),
    Leg("preempt", run=run, enum=enum_preempt, exhaustive=True,
        shards_quick=8, shards_thorough=16,
        rule="fixed scenarios x one forced preemption (two alternative "
             "threads) at every scheduling point within +-40 (quick) / +-150 "
             "(thorough) points of the termination event."),
]

# the same search in an interpreter with another string hash seed: what a
# program gets from iterating a set / dict of names differs between runs
_byn = dict((lg.name, lg) for lg in LEGS)
LEGS += [twin_env(_byn['random'], "hash77", {"PYTHONHASHSEED": "77"}, quick=150, thorough=3000)]
