"""C06 - SNEP and handover carry NDEF messages intact through fragmentation,
over the complete stack: two real ContactlessFrontend.connect(llcp=...) calls
on the simulated RF medium (vlib/simdev.py) under the virtual scheduler, a
server thread started in on-connect on one side and a client thread on the
other.

legs
  snep-put   put_octets(): the server application saw exactly one request
             whose octets are the sent ones and the client got True; a message
             longer than the server's acceptable length is refused (False or
             SnepError 0xFF) and never reaches the application, not even in
             part
  snep-get   get_octets(): the client's return value equals the server's
             answer; an answer longer than the client accepts gives
             SnepError(0xC1) / None
  handover   HandoverClient send_octets / recv_octets against a
             HandoverServer answering with a generated select message
  cutoff     multi-record messages whose record boundaries sit at / near the
             fragment boundaries, and transfers that END EARLY: after a
             generated number of fragments the client closes the connection,
             its connect() is terminated or the RF link breaks.  The server
             application sees the complete message exactly once or nothing,
             never the first records as if they were the message
  concurrent several servers (SNEP, a second SNEP service, handover) and
             several clients on one link at the same time, on both devices:
             connection set-ups and transfers overlap, PDUs of different
             data link connections share aggregated frames; every message
             reaches the application it was sent to once and intact
"""
from hypothesis import strategies as st

import ndef
import nfc
import nfc.handover
import nfc.llcp
import nfc.snep

from vlib import p2p, vsched
from vlib.engine import Leg, Violation, unexpected, twin_env

PROPERTY = "C06"
LEVEL = "exploration"
ASSUMPTIONS = [
    "RF medium, drivers and threads are simulated (vlib/simdev.py, "
    "vlib/vsched.py): passive communication mode, no frame loss in this check",
    "NDEF messages are generated in ndeflib's canonical encoding so that the "
    "server's decode/re-encode is the identity; the raw request octets are "
    "captured as well",
    "frame-level limits (LR, MIU) on the air are judged by C10/C19",
    "LLCP secure data transfer is not available in the sandbox (no OpenSSL "
    "1.0), connect() runs with sec=False behaviour",
]


def setup():
    vsched.patch_nfc()


# ----------------------------------------------------------------- messages
def message(n, seed, period=None):
    """canonical single-record NDEF message of exactly n octets (n = 0, 3 or
    >= 6); period: the payload repeats every `period` octets (1 = the same
    octet throughout), so that whole fragments of it are equal"""
    if n <= 0:
        return b""
    if n < 6:
        return b"\xd0\x00\x00"
    if period:
        pay = lambda k: bytes((seed * 17 + (i % period) * 5) & 0xFF  # noqa
                              for i in range(k))
    else:
        pay = lambda k: bytes((seed * 17 + i * 5 + (i >> 8)) & 0xFF  # noqa
                              for i in range(k))
    if n <= 261:
        return b"\xd2\x03" + bytes([n - 6]) + b"a/b" + pay(n - 6)
    if n <= 264:
        t = n - 258
        typ = (b"a/b" + b"cde")[:t]
        return b"\xd2" + bytes([t, 255]) + typ + pay(255)
    return b"\xc2\x03" + (n - 9).to_bytes(4, "big") + b"a/b" + pay(n - 9)


def hr_message(p, seed):
    hr = ndef.HandoverRequestRecord("1.2", (seed * 257 + 1) & 0xFFFF)
    hr.add_alternative_carrier("active", "c1")
    car = ndef.Record("application/vnd.verif", "c1",
                      bytes((seed + i * 3) & 0xFF for i in range(p)))
    return b"".join(ndef.message_encoder([hr, car]))


def hs_records(q, seed):
    hs = ndef.HandoverSelectRecord("1.2")
    hs.add_alternative_carrier("active", "c1")
    car = ndef.Record("application/vnd.verif", "c1",
                      bytes((seed * 3 + i * 7) & 0xFF for i in range(q)))
    return [hs, car]


# --------------------------------------------------------------- generators
miu = st.one_of(st.sampled_from([128, 129, 131, 248, 255, 256, 1000, 2175]),
                st.integers(128, 2175))


def period_of(case):
    """payload period of a case: None (no repetition) or a divisor / the
    value of a fragment size in play"""
    f = case.get("fill")
    if not f:
        return None
    cands = [1, 64, 124, case.get("srv_miu", 128), case["miu_i"],
             case["miu_t"], 128, min(case.get("srv_miu", 128),
                                     case["miu_" + case["server"]])]
    return max(1, cands[f % len(cands)])


FILL = st.sampled_from([0, 0, 0, 1, 2, 3, 4, 5, 6, 7, 8])


def around(m, kmax=4):
    """sizes k*m + d, d in -7..7"""
    return st.tuples(st.integers(0, kmax), st.integers(-7, 7)).map(
        lambda t: max(0, t[0] * m + t[1]))


def link():
    return st.fixed_dictionaries({
        "miu_i": miu, "miu_t": miu,
        "lto_i": st.sampled_from([100, 500, 1000]),
        "lto_t": st.sampled_from([100, 500, 1000]),
        "agf_i": st.booleans(), "agf_t": st.booleans(),
        "lri": st.integers(0, 3), "lrt": st.integers(0, 3),
        "brs": st.integers(0, 2),
        "server": st.sampled_from(["i", "t"]),
        "choices": st.lists(st.integers(0, 3), max_size=12)})


@st.composite
def snep_case(draw, kind):
    lk = draw(link())
    smiu = draw(st.one_of(st.sampled_from([128, 248, 1984]),
                          st.integers(128, 2175)))
    srw = draw(st.integers(1, 15))
    # the connection MIU towards the server is min(server socket MIU, link)
    eff = min(smiu, lk["miu_" + lk["server"]])
    size = draw(st.one_of(around(eff), around(128), st.integers(0, 6000),
                          st.sampled_from([0, 3, 6])))
    case = dict(lk, kind=kind, srv_miu=smiu, srv_rw=srw, size=size,
                seed=draw(st.integers(0, 255)), fill=draw(FILL),
                explicit=draw(st.booleans()),
                # the server's acceptable length: not set, the message size
                # -1 / +0 / +1, or an absolute number of octets (0: a server
                # that takes nothing but the empty message)
                limit=draw(st.sampled_from([None, None, None, -1, 0, 1, -1,
                                            0, 1, ["abs", 0], ["abs", 0],
                                            ["abs", 1], ["abs", 7],
                                            ["abs", 200]])))
    if kind == "get":
        case["rsize"] = draw(st.one_of(around(128), st.integers(0, 5000),
                                       st.sampled_from([0, 3, 6])))
        case["climit"] = draw(st.sampled_from([None, None, -1, 0, 1]))
    return case


@st.composite
def ho_case(draw):
    lk = draw(link())
    return dict(lk, kind="handover",
                srv_miu=draw(st.one_of(st.sampled_from([128, 248, 1984]),
                                       st.integers(128, 2175))),
                srv_rw=draw(st.integers(1, 15)),
                cli_miu=draw(st.one_of(st.sampled_from([128, 248]),
                                       st.integers(128, 2175))),
                cli_rw=draw(st.integers(1, 15)),
                psize=draw(st.one_of(around(128), st.integers(0, 4000))),
                qsize=draw(st.one_of(around(128), st.integers(0, 4000))),
                # further request / select rounds on the same connection
                more=draw(st.lists(st.lists(
                    st.one_of(around(128, 2), st.integers(0, 600)),
                    min_size=2, max_size=2), min_size=0, max_size=2)),
                seed=draw(st.integers(0, 255)))


@st.composite
def stall_burst(draw):
    """a thread loses the CPU at 1..4 of its scheduling points close together"""
    who = draw(st.sampled_from(["serve", "serve", "client"]))
    n = draw(st.integers(1, 160))
    d = draw(st.sampled_from([0.002, 0.005, 0.02, 0.05, 0.2]))
    out = []
    for _ in range(draw(st.integers(1, 4))):
        out.append((who, n, d))
        n += draw(st.integers(1, 3))
    return out


@st.composite
def lag_case(draw):
    """many fragments through a small receive window while the consuming
    application threads lose the CPU at generated points: the LLC threads
    keep exchanging PDUs, the receive queue fills"""
    kind = draw(st.sampled_from(["put", "get", "handover"]))
    case = draw(ho_case() if kind == "handover" else snep_case(kind))
    case["miu_i"] = draw(st.sampled_from([128, 248]))
    case["miu_t"] = draw(st.sampled_from([128, 248]))
    case["srv_miu"] = 128
    case["srv_rw"] = draw(st.integers(2, 7))
    big = draw(st.integers(5, 22)) * 128 + draw(st.integers(-7, 7))
    if kind == "handover":
        case["cli_miu"] = 128
        case["cli_rw"] = draw(st.integers(2, 7))
        case["psize"] = big
        case["qsize"] = draw(st.integers(5, 22)) * 128
    else:
        case["size"] = big
        case["limit"] = None
        if kind == "get":
            case["rsize"] = draw(st.integers(5, 22)) * 128
            case["climit"] = None
    case["stalls"] = [x for b in draw(st.lists(stall_burst(), min_size=1,
                                               max_size=4)) for x in b]
    return case


def norm_size(n):
    return 0 if n <= 0 else (3 if n < 6 else n)


# ---------------------------------------------------------------------- run
def run(case, ctx):
    kind = case["kind"]
    srv_side = case["server"]
    cli_side = "t" if srv_side == "i" else "i"
    opts = {}
    for side in ("i", "t"):
        opts[side] = {"miu": case["miu_" + side], "lto": case["lto_" + side],
                      "agf": case["agf_" + side], "lri": case["lri"],
                      "lrt": case["lrt"], "brs": case["brs"]}
    P = p2p.Pair(case["choices"], seed=case["seed"], opts_i=opts["i"],
                 opts_t=opts["t"])
    P.sched.stalls = [list(x) for x in case.get("stalls", [])]
    seen = []          # what reached the server application
    raw = []           # raw request octets at the server
    out = {}
    done = []
    try:
        if kind in ("put", "get"):
            size = norm_size(case["size"])
            msg = message(size, case["seed"], period_of(case))
            limit = None if case["limit"] is None else (
                case["limit"][1] if isinstance(case["limit"], list)
                else max(0, size + case["limit"]))
            rsize = norm_size(case.get("rsize", 0))
            answer = message(rsize, case["seed"] ^ 0x55, period_of(case))
            climit = None
            if kind == "get" and case.get("climit") is not None:
                climit = max(0, rsize + case["climit"])

            class Server(nfc.snep.SnepServer):
                def process_snep_request(self, request_data):
                    raw.append(bytes(request_data))
                    return nfc.snep.SnepServer.process_snep_request(
                        self, request_data)

                def process_put_request(self, records):
                    seen.append(b"".join(ndef.message_encoder(records)))
                    return nfc.snep.Success

                def process_get_request(self, records):
                    seen.append(b"".join(ndef.message_encoder(records)))
                    return list(ndef.message_decoder(answer))

            def start_server(llc):
                kw = {"recv_miu": case["srv_miu"], "recv_buf": case["srv_rw"]}
                if limit is not None:
                    kw["max_acceptable_length"] = limit + (
                        4 if kind == "get" else 0)
                Server(llc, **kw).start()

            def client(llc):
                kw = {}
                if climit is not None:
                    kw["max_ndef_msg_recv_size"] = climit
                elif kind == "get":
                    kw["max_ndef_msg_recv_size"] = 100000
                c = nfc.snep.SnepClient(llc, **kw)
                try:
                    if case["explicit"]:
                        c.connect("urn:nfc:sn:snep")
                    if kind == "put":
                        out["result"] = c.put_octets(
                            bytearray(msg) if case["seed"] & 1 else msg)
                    else:
                        out["result"] = c.get_octets(msg, timeout=5.0)
                    if case["explicit"]:
                        c.close()
                except nfc.snep.SnepError as e:
                    out["snep_error"] = e.errno
                except nfc.llcp.Error as e:
                    out["llcp_error"] = e
                except Exception as e:
                    out["other"] = e
                finally:
                    done.append(1)
        else:
            rounds = [[case["psize"], case["qsize"]]] + [
                list(r) for r in case.get("more") or []]
            msgs = [hr_message(p, case["seed"] + 5 * k)
                    for k, (p, q) in enumerate(rounds)]
            answers = [b"".join(ndef.message_encoder(
                hs_records(q, case["seed"] + 5 * k)))
                for k, (p, q) in enumerate(rounds)]
            msg, answer = msgs[0], answers[0]

            class Server(nfc.handover.HandoverServer):
                def _process_request_data(self, octets):
                    raw.append(bytes(octets))
                    return nfc.handover.HandoverServer._process_request_data(
                        self, octets)

                def process_handover_request_message(self, records):
                    seen.append(b"".join(ndef.message_encoder(records)))
                    k = min(len(seen), len(rounds)) - 1
                    return hs_records(rounds[k][1], case["seed"] + 5 * k)

            def start_server(llc):
                Server(llc, recv_miu=case["srv_miu"],
                       recv_buf=case["srv_rw"]).start()

            def client(llc):
                c = nfc.handover.HandoverClient(llc)
                try:
                    c.connect(recv_miu=case["cli_miu"],
                              recv_buf=case["cli_rw"])
                    out["sent"] = c.send_octets(
                        bytearray(msg) if case["seed"] & 1 else msg)
                    out["result"] = c.recv_octets(timeout=5.0)
                    out["more"] = []
                    for m in msgs[1:]:
                        sent = c.send_octets(m)
                        out["more"].append([sent, c.recv_octets(timeout=5.0)
                                            if sent else None])
                    c.close()
                except nfc.llcp.Error as e:
                    out["llcp_error"] = e
                except Exception as e:
                    out["other"] = e
                finally:
                    done.append(1)

        P.on_connect[srv_side] = start_server
        P.on_connect[cli_side] = lambda llc: P.sched.spawn(
            lambda: client(llc), "client")
        P.terminate[cli_side] = lambda: bool(done)
        P.start()
        finished = P.sched.run_until(
            lambda: "i" in P.result and "t" in P.result, 120.0)
        failures = P.sched.failures()
        blocked = [repr(t) for t in P.sched.blocked()]
    finally:
        stuck = P.close()
    # ----------------------------------------------------------- verdicts
    ctx.set_class(kind)
    if P.exc:
        side, e = sorted(P.exc.items())[0]
        raise unexpected(e, "connect-raises")
    if "other" in out:
        raise unexpected(out["other"], "client-raises")
    for name, e in failures:
        raise unexpected(e, "thread-died:" + name)
    if not done:
        raise Violation("client-never-finished",
                        "blocked: %r llc=%r" % (blocked, sorted(P.llc)))
    if not finished:
        raise Violation("connect-did-not-return", "blocked: %r" % blocked)
    if "llcp_error" in out:
        raise Violation("client-llcp-error", repr(out["llcp_error"]))
    nfrag = 0
    if kind in ("put", "get"):
        eff = min(case["srv_miu"], case["miu_" + srv_side])
        total = 6 + len(msg) + (4 if kind == "get" else 0)
        nfrag = (total + eff - 1) // eff
        over = limit is not None and len(msg) > limit
        if over:
            ctx.label("oversize-request")
            if seen or any(r[6:] for r in raw if r[1:2] in (b"\x01", b"\x02")):
                raise Violation("oversize-delivered",
                                "limit %d size %d: application saw %d request"
                                "(s)" % (limit, len(msg), len(seen)))
            ok = out.get("result") in (False, None) or \
                out.get("snep_error") == 0xFF
            if not ok:
                raise Violation("oversize-not-refused", repr(out))
        elif kind == "put":
            if out.get("result") is not True:
                raise Violation("put-not-confirmed", repr(out))
            if seen != [msg]:
                raise Violation("put-not-delivered-once-intact",
                                "sent %d octets, application saw %r"
                                % (len(msg), [len(s) for s in seen]))
            if [r[6:] for r in raw] != [msg]:
                raise Violation("put-raw-octets-differ", "")
        else:
            if seen != [msg] or [r[10:] for r in raw] != [msg]:
                raise Violation("get-request-not-delivered-once-intact",
                                "%r" % [len(s) for s in seen])
            cover = climit is not None and len(answer) > climit
            if cover:
                ctx.label("oversize-response")
                if not (out.get("snep_error") == 0xC1 or
                        out.get("result", 1) is None):
                    raise Violation("oversize-response-not-refused",
                                    repr(out)[:200])
            else:
                got = out.get("result")
                if got is None or bytes(got) != answer:
                    raise Violation("get-response-differs",
                                    "want %d octets, got %r" % (
                                        len(answer), None if got is None
                                        else len(got)))
        if limit is not None and (abs(len(msg) - limit) <= 1 or
                                  (len(msg) > limit and
                                   isinstance(case["limit"], list))):
            ctx.nontrivial()
    else:
        if out.get("sent") is not True:
            raise Violation("handover-send-failed", repr(out)[:200])
        if out.get("result") != answer:
            got = out.get("result")
            raise Violation("handover-response-differs",
                            "want %d octets got %r" % (
                                len(answer), None if got is None else len(got)))
        for k, (sent, got) in enumerate(out.get("more") or [], 1):
            if sent is not True:
                raise Violation("handover-send-failed", "request %d on the "
                                "same connection: %r" % (k + 1, sent))
        if seen != msgs or raw != msgs:
            raise Violation("handover-request-not-delivered-once-intact",
                            "sent %r, server saw %r, its application %r" % (
                                [len(m) for m in msgs], [len(s) for s in raw],
                                [len(s) for s in seen]),)
        for k, (sent, got) in enumerate(out.get("more") or [], 1):
            if got != answers[k]:
                raise Violation("handover-response-differs", "request %d on "
                                "the same connection: want %d octets got %r"
                                % (k + 1, len(answers[k]),
                                   None if got is None else len(got)))
        if len(msgs) > 1:
            ctx.label("handover-rounds:%d" % len(msgs))
        eff = min(case["srv_miu"], case["miu_" + srv_side])
        nfrag = max((len(msg) + eff - 1) // eff,
                    (len(answer) + 127) // 128)
    if nfrag >= 2:
        ctx.nontrivial()
        ctx.label("fragmented")
    if P.sched.stalled:
        ctx.label("stalled:%d" % min(P.sched.stalled, 4))
    if stuck:
        ctx.label("threads-killed-at-shutdown")
    ctx.note({"frames_on_air": len(P.air.log), "fragments": nfrag,
              "virtual_seconds": round(P.sched.now, 3)})


# ------------------------------------------------------- leg: sessions
@st.composite
def session_case(draw):
    """several requests on ONE data link connection (explicit connect)"""
    lk = draw(link())
    size = st.one_of(around(128, 3).map(lambda n: max(3, n - 6)),
                     st.sampled_from([3, 6, 122, 250, 378]),
                     st.integers(6, 600))
    reqs = draw(st.lists(st.one_of(
        st.tuples(st.just("put"), size, st.just(0)),
        st.tuples(st.just("get"), size, size)), min_size=2, max_size=5))
    # temp: every request over a temporary connection of its own (no
    # explicit connect; the client's address comes back each time) while the
    # server threads are descheduled now and then, so that a finished
    # connection's end may still exist when the next one arrives
    temp = draw(st.sampled_from([False, False, True]))
    stalls = draw(st.lists(st.tuples(
        st.just("serve"), st.integers(1, 60),
        st.sampled_from([0.002, 0.01, 0.05])), max_size=4)) if temp else []
    return dict(lk, kind="session", reqs=[list(r) for r in reqs],
                fill=draw(FILL), temp=temp, stalls=[list(x) for x in stalls],
                srv_miu=draw(st.sampled_from([128, 128, 248, 1984])),
                srv_rw=draw(st.integers(1, 6)),
                seed=draw(st.integers(0, 255)))


def run_session(case, ctx):
    srv_side = case["server"]
    cli_side = "t" if srv_side == "i" else "i"
    opts = {}
    for side in ("i", "t"):
        opts[side] = {"miu": case["miu_" + side], "lto": case["lto_" + side],
                      "agf": case["agf_" + side], "lri": case["lri"],
                      "lrt": case["lrt"], "brs": case["brs"]}
    P = p2p.Pair(case["choices"], seed=case["seed"], opts_i=opts["i"],
                 opts_t=opts["t"])
    P.sched.stalls = [list(x) for x in case.get("stalls", [])]
    reqs = [(op, message(norm_size(n), case["seed"] + 3 * k,
                         period_of(case)),
             message(norm_size(m), case["seed"] + 3 * k + 1,
                     period_of(case)))
            for k, (op, n, m) in enumerate(case["reqs"])]
    answers = [ans for op, msg, ans in reqs if op == "get"]
    seen, results, done, out = [], [], [], {}
    try:
        class Server(nfc.snep.SnepServer):
            def process_put_request(self, records):
                seen.append(("put", b"".join(ndef.message_encoder(records))))
                return nfc.snep.Success

            def process_get_request(self, records):
                seen.append(("get", b"".join(ndef.message_encoder(records))))
                k = sum(1 for x in seen if x[0] == "get") - 1
                return list(ndef.message_decoder(answers[k]))

        def start_server(llc):
            Server(llc, recv_miu=case["srv_miu"],
                   recv_buf=case["srv_rw"]).start()

        def client(llc):
            c = nfc.snep.SnepClient(llc, max_ndef_msg_recv_size=100000)
            try:
                if not case.get("temp"):
                    c.connect("urn:nfc:sn:snep")
                for op, msg, ans in reqs:
                    if op == "put":
                        results.append(c.put_octets(msg))
                    else:
                        r = c.get_octets(msg, timeout=5.0)
                        results.append(None if r is None else bytes(r))
                if not case.get("temp"):
                    c.close()
            except nfc.snep.SnepError as e:
                out["snep_error"] = e.errno
            except nfc.llcp.Error as e:
                out["llcp_error"] = e
            except Exception as e:
                out["other"] = e
            finally:
                done.append(1)
        P.on_connect[srv_side] = start_server
        P.on_connect[cli_side] = lambda llc: P.sched.spawn(
            lambda: client(llc), "client")
        P.terminate[cli_side] = lambda: bool(done)
        P.start()
        finished = P.sched.run_until(
            lambda: "i" in P.result and "t" in P.result, 120.0)
        failures = P.sched.failures()
        blocked = [repr(t) for t in P.sched.blocked()]
    finally:
        P.close()
    ctx.set_class("session")
    if P.exc:
        side, e = sorted(P.exc.items())[0]
        raise unexpected(e, "connect-raises")
    if "other" in out:
        raise unexpected(out["other"], "client-raises")
    for name, e in failures:
        raise unexpected(e, "thread-died:" + name)
    if not done:
        raise Violation("client-never-finished", "blocked: %r" % blocked)
    if not finished:
        raise Violation("connect-did-not-return", "blocked: %r" % blocked)
    if "llcp_error" in out or "snep_error" in out:
        raise Violation("session-error", repr(out)[:200])
    want_seen = [(op, msg) for op, msg, ans in reqs]
    want_res = [True if op == "put" else ans for op, msg, ans in reqs]
    if seen != want_seen:
        raise Violation("request-not-delivered-once-intact",
                        "requests %r, the server application saw %r" % (
                            [(op, len(m)) for op, m in want_seen],
                            [(op, len(m)) for op, m in seen]))
    if results != want_res:
        k = 0
        while k < len(results) and k < len(want_res) and \
                results[k] == want_res[k]:
            k += 1
        raise Violation("response-differs", "request %d (%s): client got %r"
                        % (k, reqs[k][0] if k < len(reqs) else "-",
                           None if k >= len(results) or results[k] is None
                           else (results[k] if results[k] is True
                                 else len(results[k]))))
    ctx.label("requests:%d" % len(reqs))
    if case.get("temp"):
        ctx.label("temporary-connections")
    if any(op == "get" and (len(ans) + 6) % 128 < 3 or
           (len(ans) + 6) % 128 > 125 for op, msg, ans in reqs):
        ctx.label("response-at-miu-boundary")
    ctx.nontrivial()
    ctx.note({"reqs": [(op, len(m), len(a)) for op, m, a in reqs],
              "frames_on_air": len(P.air.log)})


# --------------------------------------------------------- leg: cutoff
def record_of(n, seed, k):
    """ndef.Record whose canonical encoding has exactly n octets (n >= 6)"""
    def pay(m):
        return bytes((seed * 17 + k * 29 + i * 5 + (i >> 8)) & 0xFF
                     for i in range(m))
    if n <= 261:
        return ndef.Record("a/b", "", pay(n - 6))
    if n <= 264:
        return ndef.Record("a/bcde"[:n - 258], "", pay(255))
    return ndef.Record("a/b", "", pay(n - 9))


def hr_record(seed):
    hr = ndef.HandoverRequestRecord("1.2", (seed * 257 + 1) & 0xFFFF)
    hr.add_alternative_carrier("active", "c1")
    return hr


HR_SIZE = len(b"".join(ndef.message_encoder([hr_record(0)])))


@st.composite
def cut_case(draw):
    """a message of 2..7 records laid out against the fragment grid of the
    connection, and the point at which the client side goes away"""
    lk = draw(link())
    kind = draw(st.sampled_from(["put", "put", "get", "handover"]))
    lk["miu_" + lk["server"]] = draw(st.one_of(
        st.sampled_from([128, 129, 131, 248, 255, 256]),
        st.integers(128, 400), miu))
    smiu = draw(st.one_of(st.sampled_from([128, 128, 248, 1984]),
                          st.integers(128, 400)))
    eff = min(smiu, lk["miu_" + lk["server"]])
    # position in the octet stream the client cuts into fragments of eff
    pos = {"put": 6, "get": 10, "handover": HR_SIZE}[kind]
    recs = []
    for _ in range(draw(st.integers(2, 7) if eff <= 600
                        else st.integers(2, 3))):
        how = draw(st.sampled_from(["edge", "edge", "edge", "half", "free"]))
        nxt = (pos // eff + 1) * eff          # next fragment boundary
        if how == "edge":
            n = nxt - pos + draw(st.sampled_from([0, 0, 0, 0, -1, 1, -2, 2,
                                                  -6, 6]))
        elif how == "half":
            n = (nxt - pos) // 2
        else:
            n = draw(st.integers(6, 300))
        if n < 6:
            n += eff
        recs.append(n)
        pos += n
    nfrag = (pos + eff - 1) // eff
    case = dict(lk, kind=kind, srv_miu=smiu, srv_rw=draw(st.integers(1, 6)),
                recs=recs, seed=draw(st.integers(0, 255)),
                cut=draw(st.one_of(st.integers(1, max(1, nfrag - 1)),
                                   st.integers(1, nfrag + 2))),
                how=draw(st.sampled_from(["close", "close", "break",
                                          "terminate"])),
                wait=draw(st.sampled_from([0, 0, 0.001, 0.01, 0.05, 0.5])))
    if kind == "handover":
        case["cli_miu"] = draw(st.sampled_from([128, 248]))
        case["cli_rw"] = draw(st.integers(1, 6))
    return case


def run_cut(case, ctx):
    kind = case["kind"]
    srv_side = case["server"]
    cli_side = "t" if srv_side == "i" else "i"
    opts = {}
    for side in ("i", "t"):
        opts[side] = {"miu": case["miu_" + side], "lto": case["lto_" + side],
                      "agf": case["agf_" + side], "lri": case["lri"],
                      "lrt": case["lrt"], "brs": case["brs"]}
    P = p2p.Pair(case["choices"], seed=case["seed"], opts_i=opts["i"],
                 opts_t=opts["t"])
    records = [record_of(n, case["seed"], k)
               for k, n in enumerate(case["recs"])]
    if kind == "handover":
        records.insert(0, hr_record(case["seed"]))
    msg = b"".join(ndef.message_encoder(records))
    bounds, n = set(), 0        # record boundaries inside the message
    for r in list(ndef.message_encoder(records))[:-1]:
        n += len(r)
        bounds.add(n)
    answer = message(40, case["seed"] ^ 0x55) if kind == "get" else b""
    hdr = {"put": 6, "get": 10, "handover": 0}[kind]
    seen = []          # what reached the server application
    raw = []           # octets the server tried to process
    out, done, sends, cut_done, gone = {}, [], [0], [], []
    try:
        class SnepSrv(nfc.snep.SnepServer):
            def process_snep_request(self, request_data):
                raw.append(bytes(request_data[hdr:]))
                return nfc.snep.SnepServer.process_snep_request(
                    self, request_data)

            def process_put_request(self, records):
                seen.append(b"".join(ndef.message_encoder(records)))
                return nfc.snep.Success

            def process_get_request(self, records):
                seen.append(b"".join(ndef.message_encoder(records)))
                return list(ndef.message_decoder(answer))

        class HoSrv(nfc.handover.HandoverServer):
            def _process_request_data(self, octets):
                raw.append(bytes(octets))
                return nfc.handover.HandoverServer._process_request_data(
                    self, octets)

            def process_handover_request_message(self, records):
                seen.append(b"".join(ndef.message_encoder(records)))
                return hs_records(20, case["seed"])

        def start_server(llc):
            (HoSrv if kind == "handover" else SnepSrv)(
                llc, recv_miu=case["srv_miu"], recv_buf=case["srv_rw"]).start()

        def leave(sock):
            """the client side goes away"""
            if case["wait"]:
                P.sched.sleep(case["wait"])
            cut_done.append(sends[0])
            if case["how"] == "close":
                sock.close()
            elif case["how"] == "break":
                P.air.break_link()
            else:
                gone.append(1)

        def tap(sock):
            orig = sock.send

            def send(*args, **kwargs):
                if sends[0] == case["cut"] and not cut_done:
                    leave(sock)
                sends[0] += 1
                return orig(*args, **kwargs)
            sock.send = send

        def client(llc):
            try:
                if kind == "handover":
                    c = nfc.handover.HandoverClient(llc)
                    c.connect(recv_miu=case["cli_miu"],
                              recv_buf=case["cli_rw"])
                    tap(c.socket)
                    out["sent"] = c.send_octets(msg)
                    out["result"] = c.recv_octets(timeout=5.0)
                else:
                    c = nfc.snep.SnepClient(llc, max_ndef_msg_recv_size=9999)
                    c.connect("urn:nfc:sn:snep")
                    tap(c.socket)
                    if kind == "put":
                        out["result"] = c.put_octets(msg)
                    else:
                        out["result"] = c.get_octets(msg, timeout=5.0)
                c.close()
            except nfc.snep.SnepError as e:
                out["snep_error"] = e.errno
            except nfc.llcp.Error as e:
                out["llcp_error"] = e
            except Exception as e:
                out["other"] = e
            finally:
                done.append(1)

        P.on_connect[srv_side] = start_server
        P.on_connect[cli_side] = lambda llc: P.sched.spawn(
            lambda: client(llc), "client")
        P.terminate[cli_side] = lambda: bool(done) or bool(gone)
        P.start()
        finished = P.sched.run_until(
            lambda: "i" in P.result and "t" in P.result, 120.0)
        # the serve thread works off what it has after the link is gone
        P.sched.sleep(1.0)
        P.sched.settle()
        failures = P.sched.failures()
        blocked = [repr(t) for t in P.sched.blocked()]
    finally:
        P.close()
    # ----------------------------------------------------------- verdicts
    was_cut = bool(cut_done)
    ctx.set_class("cutoff/" + kind)
    if P.exc:
        side, e = sorted(P.exc.items())[0]
        raise unexpected(e, "connect-raises")
    for name, e in failures:
        raise unexpected(e, "thread-died:" + name)
    if "other" in out and not was_cut:
        raise unexpected(out["other"], "client-raises")
    if not done:
        raise Violation("client-never-finished", "blocked: %r" % blocked)
    if not finished:
        raise Violation("connect-did-not-return", "blocked: %r" % blocked)
    for s in seen:
        if s != msg:
            raise Violation(
                "delivered-in-part",
                "%s of %d octets in %d records (%r), client left after %r "
                "fragment(s) by %s: the server application received %d "
                "octets%s" % (kind, len(msg), len(records), case["recs"],
                              cut_done, case["how"], len(s),
                              " = the first record(s)" if len(s) in bounds
                              else ""))
    if len(seen) > 1:
        raise Violation("delivered-more-than-once", "%d times" % len(seen))
    if not was_cut:
        ctx.label("complete")
        ok = out.get("result") is True if kind == "put" else \
            out.get("result") is not None and bytes(out["result"]) == (
                answer if kind == "get" else b"".join(ndef.message_encoder(
                    hs_records(20, case["seed"]))))
        if seen != [msg] or not ok:
            raise Violation("not-delivered-once-intact",
                            "%s of %d octets: application saw %r, client %r"
                            % (kind, len(msg), [len(s) for s in seen],
                               repr(out)[:120]))
        if [r for r in raw if r] != [msg]:
            raise Violation("raw-octets-differ", "%r" % [len(r) for r in raw])
    else:
        ctx.label("left-by-" + case["how"])
        ctx.label("delivered" if seen else "not-delivered")
        eff = min(case["srv_miu"], case["miu_" + srv_side])
        if cut_done[0] * eff - hdr in bounds:
            # what had been sent when the client left ends where a record ends
            ctx.label("left-at-record-boundary")
            ctx.nontrivial()
        part = [r for r in raw if r and len(r) < len(msg)]
        if part:
            ctx.label("server-processed-a-part")
            if len(part[0]) in bounds:
                ctx.label("part-ends-at-record-boundary")
                ctx.nontrivial()
    if "other" in out:
        ctx.label("client-exception:" + type(out["other"]).__name__)
    ctx.note({"recs": case["recs"], "octets": len(msg), "cut": cut_done,
              "how": case["how"], "server_processed": [len(r) for r in raw],
              "application_saw": [len(s) for s in seen],
              "frames_on_air": len(P.air.log)})


# ------------------------------------------------------ leg: concurrent
SNEP2 = "urn:nfc:xsn:verif.example:snep2"
SVC_NAME = {"snep": "urn:nfc:sn:snep", "snep2": SNEP2,
            "handover": "urn:nfc:sn:handover"}
SETUP = ("CONNECT", "CC")
PTYPES = {0: "SYMM", 1: "PAX", 2: "AGF", 3: "UI", 4: "CONNECT", 5: "DISC",
          6: "CC", 7: "DM", 8: "FRMR", 9: "SNL", 10: "DPS", 12: "I",
          13: "RR", 14: "RNR"}
DLC_PDUS = ("CC", "DISC", "DM", "FRMR", "I", "RR", "RNR")


@st.composite
def concurrent_case(draw):
    """1..4 services spread over the two devices (default SNEP server, a
    second SNEP server under its own service name, handover server - each at
    most once per device), 2..4 client threads on the respective other
    device, at most two per service (the servers listen with a backlog of
    two), each starting after its own delay and doing one or two
    operations"""
    lk = draw(link())
    # aggregation is what packs PDUs of several connections into one frame:
    # on in three of four cases per side, off in the rest
    lk["agf_i"] = draw(st.sampled_from([True, True, True, False]))
    lk["agf_t"] = draw(st.sampled_from([True, True, True, False]))
    lk["choices"] = draw(st.lists(st.integers(0, 5), max_size=40))
    combos = [(s, t) for s in ("i", "t")
              for t in ("snep", "snep2", "handover")]
    picked = draw(st.lists(st.sampled_from(combos), min_size=1, max_size=4,
                           unique=True))
    services = []
    for side, typ in picked:
        services.append({
            "side": side, "type": typ,
            "miu": draw(st.one_of(st.sampled_from([128, 128, 248, 1984]),
                                  st.integers(128, 2175))),
            "rw": draw(st.integers(1, 15))})
    slots = [k for k in range(len(services)) for _ in range(2)]
    ncli = draw(st.integers(2, min(4, len(slots))))
    order = draw(st.permutations(slots))[:ncli]
    delay = st.one_of(st.sampled_from([0, 0, 0, 1, 2, 3, 5, 8]),
                      st.integers(0, 60))
    clients = []
    for k in order:
        svc = services[k]
        eff = min(svc["miu"], lk["miu_" + svc["side"]])
        size = st.one_of(around(eff, 3), around(128, 4),
                         st.integers(7, 1500)).map(lambda n: max(7, n))
        ops = []
        for _ in range(draw(st.integers(1, 2))):
            if svc["type"] == "handover":
                ops.append({"op": "handover",
                            "size": draw(st.one_of(around(eff, 3),
                                                   around(128, 4),
                                                   st.integers(0, 1500))),
                            "rsize": draw(st.one_of(around(128, 4),
                                                    st.integers(0, 1500))),
                            "gap": draw(delay)})
            else:
                ops.append({"op": draw(st.sampled_from(["put", "put",
                                                        "get"])),
                            "size": draw(size),
                            "rsize": draw(st.one_of(
                                around(128, 4), st.integers(7, 1500)).map(
                                    lambda n: max(7, n))),
                            "gap": draw(delay)})
        clients.append({
            "svc": k, "delay": draw(delay), "ops": ops,
            "explicit": svc["type"] == "snep2" or draw(st.booleans()),
            "miu": draw(st.sampled_from([128, 128, 248, 1000])),
            "rw": draw(st.integers(1, 6))})
    return dict(lk, kind="concurrent", services=services, clients=clients,
                closer=draw(st.sampled_from(["i", "t"])),
                seed=draw(st.integers(0, 255)))


def llc_frames(air_log):
    """independent reading of the air: the LLC frames (one per NFC-DEP
    information transfer, chained frames put together) as
    (direction, [(name, dsap, ssap), ...]) - the list has more than one
    entry for an aggregated frame"""
    from vlib import deppair as dp
    buf = {"I>T": b"", "T>I": b""}
    out = []
    for e in air_log:
        if e["fate"] != "deliver":
            continue
        f = dp.parse(e["brty"], e["data"])
        if f["code"] != "DEP" or f["kind"] not in ("INF", "I++"):
            continue
        buf[e["dir"]] += f["inf"]
        if f["kind"] == "I++":
            continue
        raw, buf[e["dir"]] = buf[e["dir"]], b""
        if len(raw) < 2:
            continue

        def head(b):
            return (PTYPES.get((b[0] & 3) << 2 | b[1] >> 6, "?"),
                    b[0] >> 2, b[1] & 63)
        top = head(raw)
        if top[0] != "AGF":
            out.append((e["dir"], [top]))
            continue
        inner, pos = [], 2
        while pos + 2 <= len(raw):
            n = int.from_bytes(raw[pos:pos + 2], "big")
            if n >= 2 and pos + 2 + n <= len(raw):
                inner.append(head(raw[pos + 2:pos + 4]))
            pos += 2 + n
        out.append((e["dir"], inner))
    return out


def overlap_on_air(air_log):
    """(frames, labels): what the aggregated frames on the air carried"""
    frames = llc_frames(air_log)
    labels = set()
    for d, pdus in frames:
        if len(pdus) < 2:
            continue
        names = [p[0] for p in pdus]
        if any(n in SETUP for n in names):
            labels.add("agf-carries-connect-or-cc")
            for n in SETUP:
                if names.count(n) >= 2:
                    labels.add("agf-carries-two-" + n.lower())
            if "CC" in names:
                labels.add("agf-carries-cc")
            if any(n in ("I", "RR", "RNR") for n in names):
                labels.add("agf-carries-connect-or-cc-with-i-or-rr")
        # a data link connection = (SAP on the initiator device, SAP on the
        # target device)
        conns = set((p[2], p[1]) if d == "I>T" else (p[1], p[2])
                    for p in pdus if p[0] in DLC_PDUS)
        if len(conns) >= 2:
            labels.add("agf-carries-two-connections")
    return frames, labels


def run_concurrent(case, ctx):
    opts = {}
    for side in ("i", "t"):
        opts[side] = {"miu": case["miu_" + side], "lto": case["lto_" + side],
                      "agf": case["agf_" + side], "lri": case["lri"],
                      "lrt": case["lrt"], "brs": case["brs"]}
    P = p2p.Pair(case["choices"], seed=case["seed"], opts_i=opts["i"],
                 opts_t=opts["t"])
    services, clients = case["services"], case["clients"]
    # what every client sends and what it is to get back
    plan = []
    for k, c in enumerate(clients):
        todo = []
        for j, op in enumerate(c["ops"]):
            s = (case["seed"] + 16 * k + 5 * j + 1) & 0xFF
            if op["op"] == "handover":
                msg = hr_message(op["size"], s)
                ans = b"".join(ndef.message_encoder(
                    hs_records(op["rsize"], s)))
            else:
                msg = message(op["size"], s)
                ans = message(op["rsize"], (s + 100) & 0xFF) \
                    if op["op"] == "get" else None
            todo.append((op["op"], msg, ans, op["gap"]))
        plan.append(todo)
    answers = [{} for _ in services]    # per service: request -> answer
    for k, c in enumerate(clients):
        for op, msg, ans, gap in plan[k]:
            answers[c["svc"]][msg] = (op, ans)
    seen = [[] for _ in services]       # (op, octets) at the application
    raw = [[] for _ in services]        # raw request octets at the server
    results = [[] for _ in clients]
    errors = [None] * len(clients)
    done = []
    try:
        def snep_server(n):
            class Server(nfc.snep.SnepServer):
                def process_snep_request(self, request_data):
                    raw[n].append(bytes(request_data))
                    return nfc.snep.SnepServer.process_snep_request(
                        self, request_data)

                def process_put_request(self, records):
                    seen[n].append(
                        ("put", b"".join(ndef.message_encoder(records))))
                    return nfc.snep.Success

                def process_get_request(self, records):
                    req = b"".join(ndef.message_encoder(records))
                    seen[n].append(("get", req))
                    op, ans = answers[n].get(req, (None, None))
                    if op != "get":
                        return nfc.snep.NotFound
                    return list(ndef.message_decoder(ans))
            return Server

        def ho_server(n):
            class Server(nfc.handover.HandoverServer):
                def _process_request_data(self, octets):
                    raw[n].append(bytes(octets))
                    return nfc.handover.HandoverServer._process_request_data(
                        self, octets)

                def process_handover_request_message(self, records):
                    req = b"".join(ndef.message_encoder(records))
                    seen[n].append(("handover", req))
                    op, ans = answers[n].get(req, (None, None))
                    if op != "handover":
                        return [ndef.HandoverSelectRecord("1.2")]
                    return list(ndef.message_decoder(ans))
            return Server

        def start_servers(side, llc):
            for n, svc in enumerate(services):
                if svc["side"] != side:
                    continue
                if svc["type"] == "handover":
                    ho_server(n)(llc, recv_miu=svc["miu"],
                                 recv_buf=svc["rw"]).start()
                else:
                    snep_server(n)(llc, SVC_NAME[svc["type"]],
                                   recv_miu=svc["miu"],
                                   recv_buf=svc["rw"]).start()

        def client(k, llc):
            c = clients[k]
            svc = services[c["svc"]]
            try:
                if c["delay"]:
                    P.sched.sleep(c["delay"] / 1000.0)
                snep = None
                for op, msg, ans, gap in plan[k]:
                    if op == "handover":
                        h = nfc.handover.HandoverClient(llc)
                        h.connect(recv_miu=c["miu"], recv_buf=c["rw"])
                        sent = h.send_octets(msg)
                        got = h.recv_octets(timeout=5.0)
                        h.close()
                        results[k].append((sent, got))
                    else:
                        if snep is None:
                            snep = nfc.snep.SnepClient(
                                llc, max_ndef_msg_recv_size=100000)
                            if c["explicit"]:
                                snep.connect(SVC_NAME[svc["type"]])
                        if op == "put":
                            results[k].append(
                                snep.put_octets(msg, timeout=5.0))
                        else:
                            r = snep.get_octets(msg, timeout=5.0)
                            results[k].append(None if r is None else bytes(r))
                    if gap:
                        P.sched.sleep(gap / 1000.0)
                if snep is not None and c["explicit"]:
                    snep.close()
            except nfc.snep.SnepError as e:
                errors[k] = ("snep-error", e)
            except nfc.llcp.Error as e:
                errors[k] = ("llcp-error", e)
            except Exception as e:
                errors[k] = ("other", e)
            finally:
                done.append(k)

        def on_connect(side):
            def fn(llc):
                start_servers(side, llc)
                for k, c in enumerate(clients):
                    if services[c["svc"]]["side"] != side:
                        P.sched.spawn(lambda k=k: client(k, llc),
                                      "client-%d" % k)
            return fn
        P.on_connect["i"] = on_connect("i")
        P.on_connect["t"] = on_connect("t")
        P.terminate[case["closer"]] = lambda: len(done) == len(clients)
        P.start()
        finished = P.sched.run_until(
            lambda: "i" in P.result and "t" in P.result, 120.0)
        failures = P.sched.failures()
        blocked = [repr(t) for t in P.sched.blocked()]
    finally:
        P.close()
    # ----------------------------------------------------------- verdicts
    ctx.set_class("concurrent")
    frames, marks = overlap_on_air(P.air.log)
    shape = ["%s@%s<-%s" % (
        services[c["svc"]]["type"], services[c["svc"]]["side"],
        "+".join("%s:%d" % (o[0], len(o[1])) for o in plan[k]))
        for k, c in enumerate(clients)]
    agfs = [[p[0] for p in pdus] for d, pdus in frames if len(pdus) > 1]
    where = "clients %r; aggregated frames on the air: %r" % (
        shape, agfs[:6])
    if P.exc:
        side, e = sorted(P.exc.items())[0]
        raise unexpected(e, "connect-raises")
    for k, err in enumerate(errors):
        if err is not None and err[0] == "other":
            raise unexpected(err[1], "client-raises")
    for name, e in failures:
        raise unexpected(e, "thread-died:" + name)
    if len(done) != len(clients):
        raise Violation("client-never-finished",
                        "clients done %r of %d, blocked: %r; %s" % (
                            sorted(done), len(clients), blocked, where))
    if not finished:
        raise Violation("connect-did-not-return", "blocked: %r" % blocked)
    for k, err in enumerate(errors):
        if err is not None:
            raise Violation("client-" + err[0], "client %d: %r; %s" % (
                k, err[1], where))
    for k, c in enumerate(clients):
        want = [True if op == "put" else ans if op == "get" else (True, ans)
                for op, msg, ans, gap in plan[k]]
        if results[k] != want:
            j = 0
            while j < len(results[k]) and results[k][j] == want[j]:
                j += 1
            got = results[k][j] if j < len(results[k]) else "nothing"
            if isinstance(got, tuple):
                got = (got[0], None if got[1] is None else len(got[1]))
            elif isinstance(got, bytes):
                got = len(got)
            raise Violation(
                "%s-result-differs" % plan[k][j][0],
                "client %d operation %d (%s of %d octets%s): got %r; %s" % (
                    k, j, plan[k][j][0], len(plan[k][j][1]),
                    "" if plan[k][j][2] is None
                    else ", answer %d octets" % len(plan[k][j][2]),
                    got, where))
    for n, svc in enumerate(services):
        want = sorted((op, msg) for k, c in enumerate(clients)
                      if c["svc"] == n for op, msg, ans, gap in plan[k])
        if sorted(seen[n]) != want:
            raise Violation(
                "not-delivered-once-intact-to-the-right-application",
                "%s server on %s: sent to it %r, its application saw %r; %s"
                % (svc["type"], svc["side"], [(o, len(m)) for o, m in want],
                   [(o, len(m)) for o, m in sorted(seen[n])], where))
        # raw request octets: SNEP header is 6 octets (put) / 10 octets (get)
        got_raw = sorted(r if svc["type"] == "handover"
                         else r[10 if r[1:2] == b"\x01" else 6:]
                         for r in raw[n])
        if got_raw != sorted(m for o, m in want):
            raise Violation("raw-octets-differ", "%s server on %s: %r" % (
                svc["type"], svc["side"], [len(r) for r in raw[n]]))
    for m in sorted(marks):
        ctx.label(m)
    if "agf-carries-connect-or-cc" in marks or \
            "agf-carries-two-connections" in marks:
        ctx.nontrivial()
    else:
        ctx.label("no-two-connections-in-one-frame"
                  if case["agf_i"] or case["agf_t"] else "aggregation-off")
    ctx.label("clients:%d" % len(clients))
    ctx.label("services:%d" % len(services))
    if len(set(services[c["svc"]]["side"] for c in clients)) == 2:
        ctx.label("clients-on-both-devices")
    ctx.note({"clients": shape, "aggregated_frames": agfs[:8],
              "frames_on_air": len(P.air.log),
              "virtual_seconds": round(P.sched.now, 3)})


def _leg(name, gen, q, t):
    return Leg(name, run=run, gen=lambda tier: gen, quick=q, thorough=t,
               shards_quick=6, shards_thorough=16, nt_floor=0.2,
               rule="generated link configuration (MIU 128..2175 each side, "
                    "LTO, aggregation, LR, bit rate, which side serves), "
                    "socket MIU/RW, message sizes k*MIU-7..k*MIU+7 and random "
                    "<= 6000, acceptable-length limits at size-1/size/size+1, "
                    "short schedule choice lists; non-trivial = at least two "
                    "fragments in one direction or the limit within 1 of the "
                    "size.")


LEGS = [
    Leg("concurrent", run=run_concurrent, gen=lambda tier: concurrent_case(),
        quick=360, thorough=8000, shards_quick=6, shards_thorough=16,
        nt_floor=0.3,
        rule="concurrent services on one link: 1..4 servers spread over the "
             "two devices (default SNEP server, a second SNEP server under "
             "its own service name, handover server), 2..4 client threads on "
             "the respective other device (at most two per server), each "
             "starting 0..60 ms of virtual time after on-connect and doing "
             "one or two operations (SNEP put / get on one explicit "
             "connection or on implicit connections, handover request / "
             "select on a connection each) with message sizes at k*MIU+-7, "
             "k*128+-7 and random <= 1500; generated link configuration "
             "with aggregation on in 3 of 4 cases per side, schedule choice "
             "lists up to 40.  Every message must reach the application of "
             "the server it was sent to exactly once and intact, every "
             "client must get the right result (True / the server's answer / "
             "the select message) and none may fail.  non-trivial = the LLC "
             "frames read off the air contain an aggregated frame that "
             "carries PDUs of two different data link connections, or a "
             "CONNECT / CC PDU together with another PDU (labels agf-*)."),
    Leg("lag", run=run, gen=lambda tier: lag_case(), quick=600,
        thorough=12000, shards_quick=6, shards_thorough=16, nt_floor=0.2,
        rule="5..22 fragments each way through receive windows of 2..7 at "
             "MIU 128 while the consuming application threads (server "
             "connection thread, client) are descheduled for 2..200 ms of "
             "virtual time in 1..4 bursts of 1..4 nearby scheduling points "
             "at which they hold no lock; non-trivial "
             "= fragmented (always) - the stalled:N labels count cases in "
             "which N stalls fired."),
    Leg("session", run=run_session, gen=lambda tier: session_case(),
        quick=500, thorough=10000, shards_quick=6, shards_thorough=16,
        nt_floor=0.5,
        rule="2..5 SNEP requests (put / get) on one data link connection "
             "(explicit connect), request and response sizes at k*128-6 +-7 "
             "(fragment boundaries of the default MIU), 3..600 otherwise, "
             "generated link configuration; every request must reach the "
             "server application once and intact, every result must be the "
             "right one; non-trivial = always (at least two requests)."),
    Leg("cutoff", run=run_cut, gen=lambda tier: cut_case(), quick=600,
        thorough=12000, shards_quick=6, shards_thorough=16, nt_floor=0.1,
        rule="SNEP put / get requests and handover requests of 2..7 NDEF "
             "records laid out against the fragment grid of the connection "
             "(records ending at a fragment boundary +-0/1/2/6, half way, or "
             "of free size; connection MIU mostly 128..400), sent by the real "
             "SnepClient / HandoverClient; after a generated number of "
             "fragments (1..all+2, i.e. also never) and a generated pause the "
             "client side goes away: it closes the data link connection, its "
             "connect() is terminated, or the RF link breaks.  The server "
             "application must have seen the complete message exactly once "
             "or nothing (and the complete message with the right result "
             "when the client did not leave).  non-trivial = the client left "
             "when the octets sent so far ended exactly at a record boundary "
             "inside the message, or the SNEP server worked on a reassembled "
             "part that ends at a record boundary."),
    _leg("snep-put", snep_case("put"), 700, 12000),
    _leg("snep-get", snep_case("get"), 700, 10000),
    _leg("handover", ho_case(), 500, 8000),
]

# the same searches with every nfc logger enabled down to the lowest level
# (code that only runs, or only evaluates its arguments, when logging is on)
_byl = dict((lg.name, lg) for lg in LEGS)
LEGS += [twin_env(_byl[n], "log", {"VERIF_LOG": "debug"}, quick=q, thorough=t,
                  shards_quick=2)
         for n, q, t in [('snep-put', 100, 1000), ('handover', 60, 600)] if n in _byl]
