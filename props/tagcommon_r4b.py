"""Tag description kind "t3s": a FeliCa Standard card divided into several
systems, one of them the NFC Forum Type 3 Tag system 12FCh
(vlib/simfelica_std.py).  Hooked into props/tagcommon.py (build,
current_area, hist_desc).

description (JSON-able)
  kind "t3s"; ver, nbr, nbw, nmaxb, phys_extra, nbr_extra, nbw_extra, filler
  as for "t3t" - they describe service 0 (0009h/000Bh) of the NDEF system;
  ic        IC code in the PMm (a FeliCa Standard / Mobile product)
  ndef_pos  position of the NDEF system among the systems of the card
  ndef_more further service groups of the NDEF system (behind service 0)
  others    the other systems: {"code", "groups"}; a group is
            {"num", "attrs", "nblocks", "fill", "seed"} with fill
              "zero"     all blocks zero (an unused service)
              "attr"     block 0 looks like a Type 3 attribute block for the
                         service's own size, the rest a pattern
              "pattern"  application data
"""
from hypothesis import strategies as st

from vlib import simfelica_std as std
from vlib import simtags
from props import tagcommon as tc

IC_CODES = [0x0D, 0x0D, 0x01, 0x20, 0x08, 0x09, 0x0C, 0x00, 0x32, 0x14]
SYSTEM_CODES = [0x0003, 0x8A21, 0xFE00, 0x811D, 0x8620, 0x0000, 0x12FD,
                0x86A7, 0x40FC]
# access attribute sets of overlapped services (random, cyclic, purse)
ATTRS = [[0x09, 0x0B], [0x09, 0x0B], [0x09], [0x0B], [0x08, 0x0B],
         [0x08, 0x0A], [0x08], [0x0F], [0x0C, 0x0F], [0x17], [0x10, 0x17],
         [0x10, 0x12, 0x14, 0x16]]


def _group(first):
    num = st.just(0) if first else st.integers(1, 1000)
    attrs = st.sampled_from(ATTRS[:3] * 2 + ATTRS if first else ATTRS)
    return st.fixed_dictionaries({
        "num": num, "attrs": attrs, "nblocks": st.integers(1, 7),
        "fill": st.sampled_from(["zero", "zero", "attr", "pattern"]),
        "seed": st.integers(0, 255)})


def _groups(min_first=True):
    def fix(t):
        first, more = t
        nums = set()
        out = []
        for g in ([first] if first else []) + sorted(more,
                                                    key=lambda g: g["num"]):
            if g["num"] not in nums:
                nums.add(g["num"])
                out.append(g)
        return out
    first = _group(True) if min_first else st.none()
    return st.tuples(first, st.lists(_group(False), max_size=2)).map(fix)


def t3s_desc():
    def fix(t):
        d, ic, pos, more, codes, groups = t
        others = [{"code": c, "groups": g} for c, g in zip(codes, groups)
                  if g]
        others = others or [{"code": codes[0], "groups": [
            {"num": 0, "attrs": [0x09, 0x0B], "nblocks": 3, "fill": "zero",
             "seed": 1}]}]
        return dict(d, kind="t3s", nmaxb=min(d["nmaxb"], 40), ic=ic,
                    ndef_pos=pos % (len(others) + 1), ndef_more=more,
                    others=others)
    n = st.sampled_from([1, 1, 1, 2, 3])
    return st.tuples(
        tc.t3t_desc("t3t"), st.sampled_from(IC_CODES), st.integers(0, 3),
        _groups(False),
        st.lists(st.sampled_from(SYSTEM_CODES), min_size=3, max_size=3,
                 unique=True),
        n.flatmap(lambda k: st.lists(_groups(), min_size=k, max_size=k))
    ).map(fix)


def _blocks(g):
    n = g["nblocks"]
    if g["fill"] == "zero":
        return [bytearray(16) for _ in range(n)]
    blocks = [bytearray(tc.message(16, g["seed"] + i)) for i in range(n)]
    if g["fill"] == "attr":
        blocks[0] = simtags.t3_attribute(0x10, 4, 2, n - 1, 0, 1,
                                         min(5, 16 * (n - 1)))
    return blocks


def build_t3s(b, desc, old_spec, old_seed):
    cap = desc["nmaxb"] * 16
    old = tc.message(tc.resolve_len(old_spec, cap), old_seed)[:cap]
    blocks = simtags.t3_image(desc["ver"], desc["nbr"], desc["nbw"],
                              desc["nmaxb"], len(old), old,
                              desc["nmaxb"] + desc.get("phys_extra", 0),
                              filler=desc.get("filler", 0))
    ndef = std.System(0x12FC, [std.Group(0, [0x09, 0x0B], blocks)] + [
        std.Group(g["num"], g["attrs"], _blocks(g))
        for g in desc.get("ndef_more", [])])
    systems = [std.System(o["code"], [
        std.Group(g["num"], g["attrs"], _blocks(g)) for g in o["groups"]])
        for o in desc["others"]]
    pos = desc["ndef_pos"]
    systems.insert(pos, ndef)
    b.tag = std.FelicaStdCard(
        systems, ic_code=desc["ic"],
        nbr_phys=min(15, desc["nbr"] + desc.get("nbr_extra", 0)),
        nbw_phys=min(13, desc["nbw"] + desc.get("nbw_extra", 0)))
    b.cap, b.old = cap, old
    base, size = b.tag.span(pos, 0)
    b.ndef_span = (base, size)
    b.allowed = set(range(base, base + (desc["nmaxb"] + 1) * 16))
    b.unit = 16
    b.ref_read = lambda: simtags.t3_ref_read(ndef.groups[0].blocks)

    def region_of(a):
        code, num, blk = b.tag.where(a)
        if code == 0x12FC and num == 0:
            return "ndef-service-beyond-nmaxb"
        return "other-service" if code == 0x12FC else "other-system"
    b.region_of = region_of
    return b


def area_t3s(b, image):
    """as tagcommon.current_area for the other kinds: (allowed addresses in
    tag.mem space, capacity, attributes) read off service 0 of the NDEF
    system by the independent model"""
    base, size = b.ndef_span
    a = tc.t3_attr(image[base:base + 16])
    if a is None or a["ver"] >> 4 != 1:
        return None
    nblocks = min(a["nmaxb"], size // 16 - 1)
    return set(range(base, base + (nblocks + 1) * 16)), nblocks * 16, a
