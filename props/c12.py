"""C12 - ISO-DEP exchanges each APDU exactly once or reports a tag error.

Type4ATag / Type4BTag activated on the ISO/IEC 14443-4 PICC model
(vlib/isodep_card.py) behind the real ContactlessFrontend.  A case is a
configuration (FSCI, FWI, device frame limits, PICC chunk size, S(WTX) per
command), a list of echo APDUs (command and response lengths around multiples
of FSC-3) and a fault script over the block exchanges that follow activation:

   LC  the PCD block is lost / corrupted (PICC never sees it, PCD times out)
   LR  the PICC block is lost (PICC executed, PCD times out)
   CR  the PICC block is corrupted (PICC executed, PCD gets a CRC error)

Oracle per transceive(): it returns exactly the response the card produced
for this very execution (responses carry the card's execution serial) and the
card executed the APDU exactly once; or it raises Type4TagCommandError and the
card executed it at most once.  Nothing else may be raised, no PCD block plus
CRC exceeds FSC.  Transparency: when every run of consecutive faults is within
the retry budget the library derives from FWI (min(int(1/FWT), 5)), no error
may be raised at all.
"""
import itertools

from hypothesis import strategies as st

import nfc.tag
import nfc.tag.tt4

from vlib import isodep_card, tagdev
from vlib.engine import Leg, Violation, unexpected

PROPERTY = "C12"
LEVEL = "fault_enumeration"
ASSUMPTIONS = [
    "the PICC model follows ISO/IEC 14443-4 7.5.4 rules D, E, 2, 9-13",
    "a corrupted PCD block is ignored by the PICC (same as lost)",
    "the retry budget is the library's own policy derived from FWI; with "
    "budget 0 (FWI >= 12) every fault may surface as an error",
    "faults are injected only after activation (RATS / ATTRIB)",
]

FAULTS = {"LC": ("timeout", "cmd"), "LR": ("timeout", "rsp"),
          "CR": ("transmission", "rsp")}
FSC = (16, 24, 32, 40, 48, 64, 96, 128, 256)


def budget_of(fwi):
    fwt = 4096 / 13.56E6 * (2 ** fwi)
    return min(int(1 / fwt), 5)


def cfg_strategy():
    return st.fixed_dictionaries({
        "tech": st.sampled_from(["A", "B"]),
        "fsci": st.integers(0, 8),
        "fwi": st.one_of(st.integers(0, 9), st.integers(0, 14)),
        "chunk": st.one_of(st.none(), st.integers(1, 253),
                           st.sampled_from([1, 5, 13, 29])),
        "wtx": st.sampled_from([0, 0, 0, 1, 2]),
        "max_send": st.sampled_from([290, 290, 64, 40, 20]),
        "max_recv": st.sampled_from([290, 290, 255, 64])})


def apdu_strategy():
    around = st.sampled_from([1, 4, 5, 12, 13, 14, 26, 27, 58, 61, 62, 122,
                              125, 126, 253, 254, 506, 507, 600])
    n = st.one_of(around, st.integers(0, 700))
    return st.tuples(st.one_of(around, st.integers(4, 700)).map(
        lambda x: max(4, x)), n)


def case_strategy():
    return st.fixed_dictionaries({
        "cfg": cfg_strategy(),
        "apdus": st.lists(apdu_strategy(), min_size=1, max_size=6),
        "script": st.lists(st.tuples(st.integers(0, 120),
                                     st.sampled_from(["LC", "LR", "CR"])),
                           max_size=8)})


def run(case, ctx):
    cfg = case["cfg"]
    app = isodep_card.T4App()
    tag_sim = isodep_card.T4Tag(app, cfg["tech"], cfg["fsci"], cfg["fwi"],
                                cfg.get("chunk"), cfg.get("wtx", 0))
    try:
        clf, tag = tagdev.activate(tag_sim, max_send=cfg["max_send"],
                                   max_recv=cfg["max_recv"])
    except Exception as e:
        raise unexpected(e, "activation-raises")
    if tag is None:
        raise Violation("activation-failed", repr(cfg))
    dev = clf.device
    base = dev.exchanges
    script = {}
    for slot, kind in case["script"]:
        script.setdefault(base + 1 + slot, FAULTS[kind])
    dev.script = script
    n_retry = budget_of(cfg["fwi"])
    ctx.label("%s budget=%d" % (type(tag).__name__, n_retry))
    outcomes = []
    for idx, (clen, rlen) in enumerate(case["apdus"]):
        cmd = bytes([0x00, 0xEE, rlen >> 8, rlen & 0xFF]) + bytes(
            (idx * 31 + i) & 0xFF for i in range(clen - 4))
        before = app.serial
        x0 = len(dev.xlog)
        after_error = any(o != "ok" for o in outcomes)
        err = None
        try:
            rsp = tag.transceive(cmd)
        except nfc.tag.tt4.Type4TagCommandError as e:
            err = e
        except Exception as e:
            _classify(ctx, dev, base, script, after_error)
            raise unexpected(e, "transceive-raises")
        execs = [(s, a) for s, a in app.execlog if s > before]
        mine = [s for s, a in execs if a == cmd]
        if len(execs) > 1 or len(mine) != len(execs):
            _classify(ctx, dev, base, script, after_error)
            raise Violation("executed-more-than-once-or-foreign",
                            "apdu %d: card executed %r" % (
                                idx, [(s, a[:4].hex()) for s, a in execs]))
        if err is None:
            if not mine:
                _classify(ctx, dev, base, script, after_error)
                raise Violation("response-without-execution",
                                "apdu %d returned %s.. but the card never "
                                "executed it (stale response)"
                                % (idx, bytes(rsp[:6]).hex()))
            want = app.echo_response(mine[0], rlen)
            if bytes(rsp) != want:
                _classify(ctx, dev, base, script, after_error)
                raise Violation("wrong-response",
                                "apdu %d: got %d bytes %s.., want %d bytes "
                                "%s.." % (idx, len(rsp), bytes(rsp[:6]).hex(),
                                          len(want), want[:6].hex()))
            outcomes.append("ok")
        else:
            # transparency: the retry counter of the library counts every
            # exchange made for one block; a fault costs at most two extra
            # exchanges (R(NAK) + retransmission), so floor((budget+1)/2)
            # faults per APDU are always within its own policy
            mine_faults = [x for x in dev.xlog[x0:]
                           if isinstance(x[2], str)]
            h = _classify(ctx, dev, base, script, after_error, since=x0)
            if not after_error and len(mine_faults) <= (n_retry + 1) // 2:
                raise Violation(
                    "recoverable-fault-not-absorbed",
                    "apdu %d: %d fault(s) at exchanges %r, retry budget %d, "
                    "raised %r" % (idx, len(mine_faults), h["slots"], n_retry,
                                   err))
            outcomes.append("error:%d" % err.errno)
    if tag_sim.picc is not None and tag_sim.picc.oversize:
        raise Violation("block-exceeds-fsc", "%d blocks larger than FSC %d"
                        % (tag_sim.picc.oversize, tag_sim.fsc))
    hit = _classify(ctx, dev, base, script, False)
    if hit["slots"]:
        ctx.label("faults-hit=%d" % min(len(hit["slots"]), 5))
        if hit["chain"] or hit["rblock"] or hit["wtx"]:
            ctx.nontrivial()
    ctx.label("errors" if any(o != "ok" for o in outcomes) else "all-ok")
    ctx.note({"outcomes": outcomes, "exchanges": dev.exchanges - base,
              "faults_hit": hit["slots"]})


def _classify(ctx, dev, base, script, after_error, since=0):
    """which faults were actually hit, and what kind of block they hit"""
    hit = {"slots": [], "wtx": False, "chain": False, "rblock": False}
    prev_rsp = None
    for idx, cmd, rsp, phase in dev.xlog[since:]:
        if idx <= base:
            continue
        if isinstance(rsp, str) and rsp.startswith("ERR:"):
            hit["slots"].append(idx - base - 1)
            pcb = cmd[0] if cmd else 0
            if pcb & 0xC7 == 0xC2 or (prev_rsp and prev_rsp[:1] == b"\xF2"):
                hit["wtx"] = True
            if pcb & 0xE2 == 0x02 and pcb & 0x10:
                hit["chain"] = True
            if pcb & 0xE6 == 0xA2:
                hit["rblock"] = True
        prev_rsp = rsp if isinstance(rsp, bytes) else None
    # an S(WTX) request that was lost is a fault on the WTX exchange too
    cls = "fault-hits-wtx" if hit["wtx"] else (
        "fault-hits-chain" if hit["chain"] else
        "fault-hits-rblock" if hit["rblock"] else
        ("fault" if hit["slots"] else "no-fault"))
    if after_error:
        # an earlier APDU of this sequence ended with an unrecoverable error
        cls = "after-error"
    ctx.set_class(cls)
    return hit


# bounded exhaustive: all scripts with <= 2 faults over the first N slots ------
CONFIGS = [
    ({"tech": "A", "fsci": 2, "fwi": 4, "chunk": 13, "wtx": 0,
      "max_send": 290, "max_recv": 290}, [(70, 40), (4, 0), (29, 29)]),
    ({"tech": "B", "fsci": 5, "fwi": 8, "chunk": None, "wtx": 0,
      "max_send": 290, "max_recv": 290}, [(130, 130), (61, 62)]),
    ({"tech": "A", "fsci": 8, "fwi": 9, "chunk": 100, "wtx": 0,
      "max_send": 64, "max_recv": 255}, [(300, 260), (10, 10)]),
    ({"tech": "A", "fsci": 0, "fwi": 10, "chunk": 5, "wtx": 0,
      "max_send": 290, "max_recv": 290}, [(30, 12), (13, 13)]),
    ({"tech": "B", "fsci": 3, "fwi": 11, "chunk": 29, "wtx": 0,
      "max_send": 40, "max_recv": 64}, [(80, 70)]),
    ({"tech": "A", "fsci": 4, "fwi": 4, "chunk": 20, "wtx": 1,
      "max_send": 290, "max_recv": 290}, [(50, 50), (8, 8)]),
    ({"tech": "B", "fsci": 6, "fwi": 2, "chunk": 40, "wtx": 2,
      "max_send": 290, "max_recv": 290}, [(100, 90)]),
    ({"tech": "A", "fsci": 7, "fwi": 13, "chunk": None, "wtx": 0,
      "max_send": 290, "max_recv": 290}, [(200, 200)]),
]


def enum_scripts(tier, seed):
    nslots = 12 if tier == "quick" else 26
    cfgs = CONFIGS[:5] + CONFIGS[5:6] if tier == "quick" else CONFIGS
    kinds = ("LC", "LR", "CR")
    for cfg, apdus in cfgs:
        yield {"cfg": cfg, "apdus": apdus, "script": []}
        for s in range(nslots):
            for k in kinds:
                yield {"cfg": cfg, "apdus": apdus, "script": [[s, k]]}
        for s1, s2 in itertools.combinations(range(nslots), 2):
            for k1 in kinds:
                for k2 in kinds:
                    yield {"cfg": cfg, "apdus": apdus,
                           "script": [[s1, k1], [s2, k2]]}


LEGS = [
    Leg("enum2", run=run, enum=enum_scripts, exhaustive=True,
        shards_quick=8, shards_thorough=16,
        rule="fixed configurations (4A/4B, FSCI 0..8, FWI 2..13, chunked "
             "responses, 0-2 S(WTX)) x every script with <= 2 faults in "
             "{LC, LR, CR} over the first 12 (quick) / 26 (thorough) block "
             "exchanges; non-trivial = a fault hit a chained I-block, an "
             "R-block or an S(WTX) exchange."),
    Leg("random", run=run, gen=lambda tier: case_strategy(), quick=1500,
        thorough=50000, shards_quick=4, shards_thorough=16, nt_floor=0.05,
        rule="generated configuration x 1-6 echo APDUs with lengths around "
             "multiples of FSC-3 x up to 8 faults anywhere in the first 120 "
             "exchanges; non-trivial as above."),
]
