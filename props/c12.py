"""C12 - ISO-DEP exchanges each APDU exactly once or reports a tag error.

Type4ATag / Type4BTag activated on the ISO/IEC 14443-4 PICC model
(vlib/isodep_card.py) behind the real ContactlessFrontend.  A case is a
configuration (FSCI, FWI, device frame limits, PICC chunk size, S(WTX) per
command), a list of echo APDUs (command and response lengths around multiples
of FSC-3) and a fault script over the block exchanges that follow activation:

   LC  the PCD block is lost / corrupted (PICC never sees it, PCD times out)
   LR  the PICC block is lost (PICC executed, PCD times out)
   CR  the PICC block is corrupted (PICC executed, PCD gets a CRC error)

Oracle per transceive(): it returns exactly the response the card produced
for this very execution (responses carry the card's execution serial) and the
card executed the APDU exactly once; or it raises Type4TagCommandError and the
card executed it at most once.  Nothing else may be raised, no PCD block plus
CRC exceeds FSC.  Transparency: when every run of consecutive faults is within
the retry budget the library derives from FWI (min(int(1/FWT), 5)), no error
may be raised at all.

Activation response shapes: the card may announce its frame size in any
legitimate form - Type 4A: ATS of TL only (defaults FSCI 2, FWI 4), TL + T0,
T0 with any subset of TA(1)/TB(1)/TC(1), with or without historical bytes;
Type 4B: SENSB_RES of 12 or 13 byte with any protocol type / FO bits and any
ATTRIB answer (MBLI, higher layer response).  The card model takes its FSC and
FWI from the bytes it actually sent (parsed here after ISO/IEC 14443-4 5.2 and
14443-3 7.9.4, independent of tt4.py), not from what the reader assumed.
"""
import itertools

from hypothesis import strategies as st

import nfc.tag
import nfc.tag.tt4

from vlib import isodep_card, rfcard, simchip, tagdev
from vlib.engine import HarnessError, Leg, Violation, derive_seed, unexpected, twin_env

PROPERTY = "C12"
LEVEL = "fault_enumeration"
ASSUMPTIONS = [
    "the PICC model follows ISO/IEC 14443-4 7.5.4 rules D, E, 2, 9-13",
    "a corrupted PCD block is ignored by the PICC (same as lost)",
    "the retry budget is the library's own policy derived from FWI; with "
    "budget 0 (FWI >= 12) every fault may surface as an error",
    "faults are injected only after activation (RATS / ATTRIB)",
    "legs drivers / drivers-random: the chip receiver models of "
    "vlib/rfcard.py (RC-S380: InSetProtocol check_crc; PN53x family: RxCRCEn "
    "of CIU_RxMode; a received frame of less than 3 byte cannot verify as "
    "CRC-protected and is a CRC error when the check is on, passed as "
    "received when it is off); host links are fault-free there",
]

FAULTS = {"LC": ("timeout", "cmd"), "LR": ("timeout", "rsp"),
          "CR": ("transmission", "rsp")}
FSC = (16, 24, 32, 40, 48, 64, 96, 128, 256)


def budget_of(fwi):
    fwt = 4096 / 13.56E6 * (2 ** fwi)
    return min(int(1 / fwt), 5)


# ---------------------------------------------- activation response shapes
def build_ats(fsci, fwi, shape):
    """shape {"t0": bool, "ta": int|None, "sfgi": int|None (TB(1) present
    when not None), "tc": int|None, "hist": bytes} -> ATS with consistent TL"""
    if not shape["t0"]:
        return b"\x01"
    ta, sfgi, tc_ = shape.get("ta"), shape.get("sfgi"), shape.get("tc")
    t0 = fsci | (0x10 if ta is not None else 0) | \
        (0x20 if sfgi is not None else 0) | (0x40 if tc_ is not None else 0)
    body = bytes([t0])
    if ta is not None:
        body += bytes([ta])
    if sfgi is not None:
        body += bytes([(fwi << 4) | sfgi])
    if tc_ is not None:
        body += bytes([tc_])
    body += bytes(shape.get("hist") or b"")
    return bytes([len(body) + 1]) + body


def parse_ats(ats):
    """(FSCI, FWI) a card that sent this ATS lives by - ISO/IEC 14443-4
    5.2.3 .. 5.2.5: without T0 FSCI = 2, without TB(1) FWI = 4"""
    fsci, fwi = 2, 4
    if ats[0] >= 2:
        t0 = ats[1]
        fsci = t0 & 0x0F
        i = 2
        if t0 & 0x10:
            i += 1
        if t0 & 0x20:
            fwi = ats[i] >> 4
    return fsci, fwi


class ShapedT4Tag(isodep_card.T4Tag):
    """T4Tag with a generated SENSB_RES (Type 4B): protocol type nibble, FO
    bits, optional fourth protocol info byte"""
    sensb_shape = None

    def target(self, poll):
        t = isodep_card.T4Tag.target(self, poll)
        if self.tech == "B" and self.sensb_shape:
            sh = self.sensb_shape
            b = bytearray(t.sensb_res)
            b[10] = (self.fsci << 4) | (sh.get("ptype", 1) & 0x0F)
            b[11] = (self.fwi << 4) | (sh.get("adc_fo", 0) & 0x0F)
            if sh.get("ext") is not None:
                b.append(sh["ext"])
            t.sensb_res = b
        return t


def shape_a():
    opt = lambda s: st.one_of(st.none(), s)    # noqa: E731
    full = st.fixed_dictionaries({
        "t0": st.just(True),
        "ta": opt(st.sampled_from([0x00, 0x80, 0x11, 0x77])),
        "sfgi": opt(st.sampled_from([0, 0, 1, 8, 14])),
        "tc": opt(st.sampled_from([0x00, 0x02, 0x01, 0x03])),
        "hist": st.one_of(st.just(b""), st.binary(max_size=15))})
    return st.integers(0, 9).flatmap(
        lambda i: st.just({"t0": False}) if i == 0 else full)


def shape_b():
    return st.fixed_dictionaries({
        "attrib": st.sampled_from([b"\x00", b"\x10", b"\xF0",
                                   b"\x00\x90\x00"]),
        "ptype": st.sampled_from([1, 1, 3, 5, 7]),
        "adc_fo": st.sampled_from([0, 1, 2, 3, 5]),
        "ext": st.one_of(st.none(), st.sampled_from([0x00, 0x10, 0xE0]))})


def cfg_strategy():
    def shaped(d):
        # the shape belongs to the technology drawn
        cfg = {k: v for k, v in d.items() if k not in ("shape_a", "shape_b")}
        cfg["shape"] = d["shape_a" if d["tech"] == "A" else "shape_b"]
        return cfg
    return st.fixed_dictionaries({
        "shape_a": st.one_of(st.none(), shape_a()),
        "shape_b": st.one_of(st.none(), shape_b()),
        "tech": st.sampled_from(["A", "B"]),
        "fsci": st.integers(0, 8),
        "fwi": st.one_of(st.integers(0, 9), st.integers(0, 14)),
        "chunk": st.one_of(st.none(), st.integers(1, 253),
                           st.sampled_from([1, 5, 13, 29])),
        "wtx": st.sampled_from([0, 0, 0, 1, 2]),
        # the INF byte of the card's S(WTX) request: WTXM 1..59 in b6-b1,
        # any power level indication in b8-b7
        "wtxm": st.sampled_from([1, 1, 2, 59, 0x41, 0x81, 0xC2, 0xFB]),
        "max_send": st.sampled_from([290, 290, 64, 40, 20]),
        "max_recv": st.sampled_from([290, 290, 255, 64])}).map(shaped)


def apdu_strategy():
    around = st.sampled_from([1, 4, 5, 12, 13, 14, 26, 27, 58, 61, 62, 122,
                              125, 126, 253, 254, 506, 507, 600])
    n = st.one_of(around, st.integers(0, 700))
    return st.tuples(st.one_of(around, st.integers(4, 700)).map(
        lambda x: max(4, x)), n)


def case_strategy():
    return st.fixed_dictionaries({
        "cfg": cfg_strategy(),
        "apdus": st.lists(apdu_strategy(), min_size=1, max_size=6),
        "fill": st.sampled_from([None, None, "const", "period"]),
        "script": st.lists(st.tuples(st.integers(0, 120),
                                     st.sampled_from(["LC", "LR", "CR"])),
                           max_size=8)})


@st.composite
def perblock_case(draw):
    """long chains with (at most) one fault on the first exchange of every
    block step: each one is absorbed by the recovery rules on its own"""
    fsci = draw(st.sampled_from([0, 0, 1, 2, 2, 3, 4]))
    m = FSC[fsci] - 3
    cfg = {"tech": draw(st.sampled_from(["A", "B"])), "fsci": fsci,
           "fwi": draw(st.sampled_from([0, 4, 8, 9, 10, 11])),
           "chunk": draw(st.one_of(st.none(), st.sampled_from([5, 13, 29]),
                                   st.integers(3, 60))),
           "wtx": 0, "max_send": 290, "max_recv": 290, "shape": None}
    apdus = []
    for _ in range(draw(st.sampled_from([1, 1, 2, 3]))):
        kc = draw(st.one_of(st.integers(1, 4), st.integers(5, 14)))
        kr = draw(st.one_of(st.integers(0, 3), st.integers(4, 12)))
        apdus.append([max(4, kc * m + draw(st.integers(-2, 1))),
                      max(0, kr * m + draw(st.integers(-2, 1)))])
    dense = draw(st.booleans())
    kinds = [None, "LC", "LR", "CR"] if not dense else ["LC", "LR", "CR",
                                                         "LC", None]
    plan = draw(st.lists(st.sampled_from(kinds), min_size=4, max_size=60))
    return {"cfg": cfg, "apdus": apdus, "script": [], "plan": plan,
            "fill": draw(st.sampled_from([None, None, "const", "period"]))}


def run(case, ctx):
    cfg = case["cfg"]
    app = isodep_card.T4App()
    fsci, fwi, shape = cfg["fsci"], cfg["fwi"], cfg.get("shape")
    ats, attrib = None, b"\x00"
    if shape is not None and cfg["tech"] == "A":
        ats = build_ats(fsci, fwi, shape)
        # the card lives by what it announced, whatever the reader made of it
        fsci, fwi = parse_ats(ats)
        ctx.label("ats=%s%s%s%s%s" % (
            "T0" if shape["t0"] else "TL-only",
            "+TA" if shape.get("ta") is not None else "",
            "+TB" if shape.get("sfgi") is not None else "",
            "+TC" if shape.get("tc") is not None else "",
            "+hist" if shape.get("hist") else ""))
    elif shape is not None:
        attrib = shape["attrib"]
        ctx.label("sensb=%d byte" % (12 if shape.get("ext") is None else 13))
    tag_sim = ShapedT4Tag(app, cfg["tech"], fsci, fwi, cfg.get("chunk"),
                          cfg.get("wtx", 0), wtxm=cfg.get("wtxm", 1),
                          ats=ats, attrib_res=attrib)
    if shape is not None and cfg["tech"] == "B":
        tag_sim.sensb_shape = shape
    try:
        clf, tag = tagdev.activate(tag_sim, max_send=cfg["max_send"],
                                   max_recv=cfg["max_recv"])
    except Exception as e:
        raise unexpected(e, "activation-raises")
    if tag is None:
        raise Violation("activation-failed", repr(cfg))
    converse(case, ctx, app, tag_sim, tag, clf.device, fwi, FAULTS.get)


def converse(case, ctx, app, tag_sim, tag, dev, fwi, fault_of):
    """the APDU sequence of a case on an activated tag and its oracle.  dev
    is where the block exchanges happen and faults are injected: it counts
    them (``exchanges``), takes ``script`` {exchange number: fault} and logs
    (number, PCD block, PICC block | "ERR:...", phase) in ``xlog`` - the
    TagDevice, or the RF world behind a real driver (vlib/rfcard.py)."""
    base = dev.exchanges
    script = {}
    for slot, kind in case["script"]:
        script.setdefault(base + 1 + slot, fault_of(kind))
    dev.script = script
    if case.get("plan"):
        install_step_faults(dev, case["plan"], fault_of)
    n_retry = budget_of(fwi)
    ctx.label("%s budget=%d" % (type(tag).__name__, n_retry))
    outcomes = []
    for idx, (clen, rlen) in enumerate(case["apdus"]):
        fill = case.get("fill")
        if fill == "const":
            # the same octet throughout (what format(wipe=x) sends)
            body = bytes([(idx * 31) & 0xFF]) * (clen - 4)
        elif fill == "period":
            # content that repeats with the block size: all full blocks of a
            # chain behind the first carry the same octets
            m = max(1, FSC[min(case["cfg"]["fsci"], 8)] - 3)
            body = bytes((idx * 31 + (i + 4) % m) & 0xFF
                         for i in range(clen - 4))
        else:
            body = bytes((idx * 31 + i) & 0xFF for i in range(clen - 4))
        cmd = bytes([0x00, 0xEE, rlen >> 8, rlen & 0xFF]) + body
        before = app.serial
        x0 = len(dev.xlog)
        after_error = any(o != "ok" for o in outcomes)
        err = None
        try:
            rsp = tag.transceive(cmd)
        except nfc.tag.tt4.Type4TagCommandError as e:
            err = e
        except Exception as e:
            _classify(ctx, dev, base, script, after_error)
            raise unexpected(e, "transceive-raises")
        _frame_size(ctx, tag_sim, idx)
        execs = [(s, a) for s, a in app.execlog if s > before]
        mine = [s for s, a in execs if a == cmd]
        if len(execs) > 1 or len(mine) != len(execs):
            _classify(ctx, dev, base, script, after_error)
            raise Violation("executed-more-than-once-or-foreign",
                            "apdu %d: card executed %r" % (
                                idx, [(s, a[:4].hex()) for s, a in execs]))
        if err is None:
            if not mine:
                _classify(ctx, dev, base, script, after_error)
                raise Violation("response-without-execution",
                                "apdu %d returned %s.. but the card never "
                                "executed it (stale response)"
                                % (idx, bytes(rsp[:6]).hex()))
            want = app.echo_response(mine[0], rlen)
            if bytes(rsp) != want:
                _classify(ctx, dev, base, script, after_error)
                raise Violation("wrong-response",
                                "apdu %d: got %d bytes %s.., want %d bytes "
                                "%s.." % (idx, len(rsp), bytes(rsp[:6]).hex(),
                                          len(want), want[:6].hex()))
            outcomes.append("ok")
        else:
            # transparency: the retry counter of the library counts every
            # exchange made for one block; a fault costs at most two extra
            # exchanges (R(NAK) + retransmission), so floor((budget+1)/2)
            # faults per APDU are always within its own policy
            # ... per block: the library counts afresh for every block of a
            # chain (command blocks and R(ACK) requests for the next part of
            # a chained response alike)
            per_step = step_faults(dev.xlog[x0:])
            h = _classify(ctx, dev, base, script, after_error, since=x0)
            if not after_error and max(per_step or [0]) <= (n_retry + 1) // 2:
                raise Violation(
                    "recoverable-fault-not-absorbed",
                    "apdu %d: fault(s) at exchanges %r, at most %d on the "
                    "exchanges for one block (%r), retry budget %d, raised %r"
                    % (idx, h["slots"], max(per_step or [0]), per_step,
                       n_retry, err))
            outcomes.append("error:%d" % err.errno)
    _frame_size(ctx, tag_sim, len(case["apdus"]))
    hit = _classify(ctx, dev, base, script, False)
    if hit["slots"]:
        ctx.label("faults-hit=%d" % min(len(hit["slots"]), 5))
        if hit["chain"] or hit["rblock"] or hit["wtx"]:
            ctx.nontrivial()
    if case.get("nt") == "chained":
        # shapes leg: the announced frame size governed how an APDU was split
        if any(b and b[0] & 0xF2 == 0x12 for b in tag_sim.picc.blocks):
            ctx.nontrivial()
    ctx.label("errors" if any(o != "ok" for o in outcomes) else "all-ok")
    ctx.note({"outcomes": outcomes, "exchanges": dev.exchanges - base,
              "faults_hit": hit["slots"]})


def _starts_step(blk, last):
    """a PCD block that opens the exchanges for a new block of the chain: an
    I-block or an R(ACK) other than the one these exchanges began with (a
    retransmission is octet for octet the same block)"""
    return bool(blk) and (blk[0] & 0xC0 == 0x00 or blk[0] & 0xF6 == 0xA2) \
        and blk != last


def step_faults(xlog):
    """faults per block step of one transceive(): [count, ...]"""
    out, last = [], None
    for idx, cmd, rsp, phase in xlog:
        if _starts_step(cmd, last):
            last = cmd
            out.append(0)
        elif not out:
            out.append(0)
        if isinstance(rsp, str) and rsp.startswith("ERR:"):
            out[-1] += 1
    return out


def install_step_faults(dev, plan, fault_of):
    """fault plan by block step instead of by exchange number: plan[k] is the
    fault (or None) for the first exchange of the k-th block step counted
    over the whole case"""
    inner = dev.send_cmd_recv_rsp
    state = {"last": None, "step": -1}

    def wrapped(target, data, timeout):
        blk = b"" if data is None else bytes(data)
        if _starts_step(blk, state["last"]):
            state["last"] = blk
            state["step"] += 1
            k = plan[state["step"]] if state["step"] < len(plan) else None
            if k:
                dev.script[dev.exchanges + 1] = fault_of(k)
        return inner(target, data, timeout)
    dev.send_cmd_recv_rsp = wrapped


def _frame_size(ctx, tag_sim, idx):
    """no block sent to the card (plus 2 byte EDC) exceeds the frame size the
    card announced; a real card cannot buffer such a block and stays mute"""
    picc = tag_sim.picc
    if picc is not None and picc.oversize:
        big = max(len(b) for b in picc.blocks)
        ctx.set_class("frame-size")
        raise Violation("block-exceeds-fsc",
                        "up to apdu %d: %d block(s) larger than the card's "
                        "frame size, largest %d byte + 2 EDC, FSC %d"
                        % (idx, picc.oversize, big, picc.fsc))


def _classify(ctx, dev, base, script, after_error, since=0):
    """which faults were actually hit, and what kind of block they hit"""
    hit = {"slots": [], "wtx": False, "chain": False, "rblock": False}
    prev_rsp = None
    for idx, cmd, rsp, phase in dev.xlog[since:]:
        if idx <= base:
            continue
        if isinstance(rsp, str) and rsp.startswith("ERR:"):
            hit["slots"].append(idx - base - 1)
            pcb = cmd[0] if cmd else 0
            if pcb & 0xC7 == 0xC2 or (prev_rsp and prev_rsp[:1] == b"\xF2"):
                hit["wtx"] = True
            if pcb & 0xE2 == 0x02 and pcb & 0x10:
                hit["chain"] = True
            if pcb & 0xE6 == 0xA2:
                hit["rblock"] = True
        prev_rsp = rsp if isinstance(rsp, bytes) else None
    # an S(WTX) request that was lost is a fault on the WTX exchange too
    cls = "fault-hits-wtx" if hit["wtx"] else (
        "fault-hits-chain" if hit["chain"] else
        "fault-hits-rblock" if hit["rblock"] else
        ("fault" if hit["slots"] else "no-fault"))
    if after_error:
        # an earlier APDU of this sequence ended with an unrecoverable error
        cls = "after-error"
    ctx.set_class(cls)
    return hit


# bounded exhaustive: all scripts with <= 2 faults over the first N slots ------
CONFIGS = [
    ({"tech": "A", "fsci": 2, "fwi": 4, "chunk": 13, "wtx": 0,
      "max_send": 290, "max_recv": 290}, [(70, 40), (4, 0), (29, 29)]),
    ({"tech": "B", "fsci": 5, "fwi": 8, "chunk": None, "wtx": 0,
      "max_send": 290, "max_recv": 290}, [(130, 130), (61, 62)]),
    ({"tech": "A", "fsci": 8, "fwi": 9, "chunk": 100, "wtx": 0,
      "max_send": 64, "max_recv": 255}, [(300, 260), (10, 10)]),
    ({"tech": "A", "fsci": 0, "fwi": 10, "chunk": 5, "wtx": 0,
      "max_send": 290, "max_recv": 290}, [(30, 12), (13, 13)]),
    ({"tech": "B", "fsci": 3, "fwi": 11, "chunk": 29, "wtx": 0,
      "max_send": 40, "max_recv": 64}, [(80, 70)]),
    ({"tech": "A", "fsci": 4, "fwi": 4, "chunk": 20, "wtx": 1, "wtxm": 0x41,
      "max_send": 290, "max_recv": 290}, [(50, 50), (8, 8)]),
    ({"tech": "B", "fsci": 6, "fwi": 2, "chunk": 40, "wtx": 2, "wtxm": 0x82,
      "max_send": 290, "max_recv": 290}, [(100, 90)]),
    ({"tech": "A", "fsci": 7, "fwi": 13, "chunk": None, "wtx": 0,
      "max_send": 290, "max_recv": 290}, [(200, 200)]),
]


def enum_scripts(tier, seed):
    nslots = 12 if tier == "quick" else 26
    cfgs = CONFIGS[:5] + CONFIGS[5:6] if tier == "quick" else CONFIGS
    kinds = ("LC", "LR", "CR")
    for cfg, apdus in cfgs:
        yield {"cfg": cfg, "apdus": apdus, "script": []}
        for s in range(nslots):
            for k in kinds:
                yield {"cfg": cfg, "apdus": apdus, "script": [[s, k]]}
        for s1, s2 in itertools.combinations(range(nslots), 2):
            for k1 in kinds:
                for k2 in kinds:
                    yield {"cfg": cfg, "apdus": apdus,
                           "script": [[s1, k1], [s2, k2]]}


# every activation response shape x FSCI 0..8 ---------------------------------
def enum_shapes(tier, seed):
    quick = tier == "quick"
    hists = (b"", b"\x80\x71") if quick else (b"", b"\x80", bytes(range(15)))
    tas = (None, 0x80) if quick else (None, 0x00, 0x80, 0x77)
    sfgis = (None, 0) if quick else (None, 0, 14)
    tcs = (None, 0x02) if quick else (None, 0x00, 0x02, 0x03)
    shapes = [("A", {"t0": False})]
    for ta, sfgi, tc_, hist in itertools.product(tas, sfgis, tcs, hists):
        shapes.append(("A", {"t0": True, "ta": ta, "sfgi": sfgi, "tc": tc_,
                             "hist": hist}))
    for attrib, ptype, adc_fo, ext in (
            (b"\x00", 1, 0, None), (b"\x10", 1, 1, None),
            (b"\xF0", 3, 2, 0x00), (b"\x00\x90\x00", 7, 3, 0xE0),
            (b"\x00", 5, 5, 0x10), (b"\x00", 1, 1, 0x00)):
        shapes.append(("B", {"attrib": attrib, "ptype": ptype,
                             "adc_fo": adc_fo, "ext": ext}))
    scripts = [[]] + [[[s, k]] for s in range(4) for k in ("LC", "LR", "CR")]
    for tech, shape in shapes:
        for fsci in range(9):
            if tech == "A" and not shape["t0"] and fsci != 2:
                continue        # TL only: there is no FSCI to announce
            fwi = (4, 10, 11, 2)[fsci % 4]
            for max_send in (290, 40):
                cfg = {"tech": tech, "fsci": fsci, "fwi": fwi, "chunk": None,
                       "wtx": 0, "max_send": max_send, "max_recv": 290,
                       "shape": shape}
                # lengths around multiples of the INF size the card announced
                card_fsci = fsci
                if tech == "A":
                    card_fsci = parse_ats(build_ats(fsci, fwi, shape))[0]
                m = FSC[card_fsci] - 3
                apdus = [[max(4, m - 1), m], [m, m + 1], [m + 1, 1],
                         [2 * m, 2 * m + 1], [2 * m + 1, 0]]
                for script in scripts:
                    yield {"cfg": cfg, "apdus": apdus, "script": script,
                           "nt": "chained"}
                for fill in ("const", "period"):
                    yield {"cfg": cfg, "apdus": apdus + [[3 * m, 1],
                                                         [4 * m, 0]],
                           "script": [], "nt": "chained", "fill": fill}


# ------------------------------------------------ real drivers, RF-level faults
# The legs above put the card behind an idealised driver that reports every
# damaged block as TransmissionError.  Here the Type4Tag runs over the REAL
# drivers on simulated chips (vlib/simchip.py) whose receiver honours the CRC
# settings the driver programmed (vlib/rfcard.py); the ISO 14443-4 card model
# is the RF partner and the faults are events on the air that the driver and
# the chip have to classify.
DRIVERS_A = ("rcs380", "pn531", "pn532", "pn533", "rcs956", "acr122",
             "arygonA", "arygonB")
DRIVERS_B = ("rcs380", "pn532", "pn533", "rcs956", "acr122", "arygonB")
# final SEL_RES values of a Type 4A target: bit 6 (20h) set, cascade bit clear
SEL_T4A = [v for v in range(256) if v & 0x24 == 0x20]
SEL_USUAL = [0x20, 0x20, 0x28, 0x38, 0x60, 0x68]
# single bytes a receiver may pick up instead of the lost answer: the values
# that read as a PCB (I-block, chained I-block, R(ACK), R(NAK), S(WTX),
# S(DESELECT)) with either block number, and others
NOISE = (0x02, 0x03, 0x12, 0x13, 0xA2, 0xA3, 0xB2, 0xB3, 0xF2, 0xC2, 0x00,
         0xFF)


def rf_fault(kind):
    return list(kind)


def run_driver(case, ctx):
    drv, cfg = case["driver"], case["cfg"]
    tech, fsci, fwi = cfg["tech"], cfg["fsci"], cfg["fwi"]
    app = isodep_card.T4App()
    tag_sim = ShapedT4Tag(app, tech, fsci, fwi, cfg.get("chunk"),
                          cfg.get("wtx", 0))
    dev, link = simchip.build(drv)
    world = rfcard.attach(drv, link.chip,
                          rfcard.CardWorld(tag_sim, sel=cfg.get("sel")))
    clf = simchip.frontend(dev)
    ctx.label("driver:" + drv)
    if tech == "A":
        ctx.label("sel_res:%s" % ("20" if world.sel == 0x20 else "other"))
    try:
        target = clf.sense(nfc.clf.RemoteTarget("106" + tech))
        tag = None if target is None else nfc.tag.activate(clf, target)
    except Exception as e:
        raise unexpected(e, "activation-raises")
    if not isinstance(tag, nfc.tag.tt4.Type4Tag):
        raise HarnessError("%s: fault-free activation of the simulated Type "
                           "4%s card gave %r (target %s)" % (drv, tech, tag,
                                                             target))
    for f in case["script"]:
        ctx.label("rf-fault:" + str(f[1][0]) + (
            str(f[1][1]) if f[1][0] == "cut" else ""))
    converse(case, ctx, app, tag_sim, tag, world, fwi, rf_fault)


DRIVER_CONFIGS = [
    # one block each way / chained response of full-size blocks (FSD 256)
    ({"tech": "A", "fsci": 8, "fwi": 4, "chunk": None, "wtx": 0},
     [(9, 9), (270, 301), (5, 0)]),
    # small frames, chained both ways, short card blocks
    ({"tech": "A", "fsci": 2, "fwi": 8, "chunk": 13, "wtx": 0},
     [(70, 40), (4, 0)]),
    ({"tech": "B", "fsci": 5, "fwi": 4, "chunk": 29, "wtx": 0},
     [(130, 70), (12, 1)]),
    ({"tech": "A", "fsci": 5, "fwi": 9, "chunk": 40, "wtx": 1},
     [(61, 62), (8, 8)]),
    ({"tech": "B", "fsci": 8, "fwi": 7, "chunk": None, "wtx": 0},
     [(300, 260), (10, 10)]),
]


def driver_faults(rng):
    out = [["lost-cmd"]] + [["cut", k] for k in range(4)]
    out += [["noise", b] for b in NOISE] + [["noise", rng.randrange(256)]]
    out += [["crc", rng.randrange(16)], ["flip", rng.randrange(4096)]]
    return out


def enum_drivers(tier, seed):
    import random
    quick = tier == "quick"
    nslots = 8 if quick else 16
    for ci, (cfg0, apdus) in enumerate(DRIVER_CONFIGS):
        if quick and ci >= 3:
            break
        for drv in (DRIVERS_A if cfg0["tech"] == "A" else DRIVERS_B):
            rng = random.Random(derive_seed(seed, PROPERTY, "drivers", ci,
                                            drv))
            cfg = dict(cfg0)
            if cfg["tech"] == "A":
                cfg["sel"] = rng.choice(SEL_USUAL + [rng.choice(SEL_T4A)])
            base = {"driver": drv, "cfg": cfg, "apdus": apdus}
            yield dict(base, script=[])
            for slot in range(nslots):
                for f in driver_faults(rng):
                    yield dict(base, script=[[slot, f]])


def st_rf_fault():
    return st.one_of(
        st.just(["lost-cmd"]),
        st.integers(0, 3).map(lambda k: ["cut", k]),
        st.integers(0, 3).map(lambda k: ["cut", k]),
        st.sampled_from(NOISE).map(lambda b: ["noise", b]),
        st.integers(0, 255).map(lambda b: ["noise", b]),
        st.integers(0, 15).map(lambda b: ["crc", b]),
        st.integers(0, 4095).map(lambda b: ["flip", b]),
        st.integers(4, 40).map(lambda k: ["cut", k]))


@st.composite
def driver_case(draw):
    tech = draw(st.sampled_from(["A", "A", "B"]))
    drv = draw(st.sampled_from(DRIVERS_A if tech == "A" else DRIVERS_B))
    cfg = {"tech": tech, "fsci": draw(st.integers(0, 8)),
           "fwi": draw(st.one_of(st.integers(0, 9), st.integers(0, 14))),
           "chunk": draw(st.one_of(st.none(), st.integers(1, 253),
                                   st.sampled_from([1, 5, 13, 29]))),
           "wtx": draw(st.sampled_from([0, 0, 0, 1, 2]))}
    if tech == "A":
        cfg["sel"] = draw(st.one_of(st.sampled_from(SEL_USUAL),
                                    st.sampled_from(SEL_T4A)))
    apdus = draw(st.lists(apdu_strategy(), min_size=1, max_size=4))
    script = draw(st.lists(st.tuples(st.one_of(st.integers(0, 12),
                                               st.integers(0, 60)),
                                     st_rf_fault()), max_size=5))
    return {"driver": drv, "cfg": cfg, "apdus": apdus, "script": script}


LEGS = [
    Leg("enum2", run=run, enum=enum_scripts, exhaustive=True,
        shards_quick=8, shards_thorough=16,
        rule="fixed configurations (4A/4B, FSCI 0..8, FWI 2..13, chunked "
             "responses, 0-2 S(WTX)) x every script with <= 2 faults in "
             "{LC, LR, CR} over the first 12 (quick) / 26 (thorough) block "
             "exchanges; non-trivial = a fault hit a chained I-block, an "
             "R-block or an S(WTX) exchange."),
    Leg("random", run=run, gen=lambda tier: case_strategy(), quick=1500,
        thorough=50000, shards_quick=4, shards_thorough=16, nt_floor=0.05,
        rule="generated configuration x 1-6 echo APDUs with lengths around "
             "multiples of FSC-3 x up to 8 faults anywhere in the first 120 "
             "exchanges; non-trivial as above.  Half of the configurations "
             "carry a generated activation response shape (ATS TL only / T0 "
             "with any subset of TA, TB, TC and 0-15 historical bytes; "
             "SENSB_RES 12/13 byte, protocol type and FO bits, ATTRIB answer "
             "variants) and the card takes FSC/FWI from the bytes it sent."),
    Leg("perblock", run=run, gen=lambda tier: perblock_case(), quick=1200,
        thorough=30000, shards_quick=4, shards_thorough=16, nt_floor=0.3,
        rule="chains of up to 14 command blocks and 12 response parts (FSCI "
             "0-4, 1-3 APDUs) with a fault plan by block step: the first "
             "exchange of the k-th block step (an I-block or an R(ACK) other "
             "than its predecessor) gets no fault or one of {LC, LR, CR}, "
             "dense or sparse.  Every such fault is absorbed on its own by "
             "the recovery rules, so with a retry budget >= 1 the APDU must "
             "succeed however many blocks were hit (transparency is judged "
             "per block step in all legs); non-trivial = faults hit a chain "
             "or R-block."),
    Leg("shapes", run=run, enum=enum_shapes, exhaustive=True,
        shards_quick=8, shards_thorough=16,
        rule="every activation response shape (Type 4A ATS: TL only, TL+T0, "
             "T0 with every subset of TA(1)/TB(1)/TC(1), without / with "
             "historical bytes; Type 4B: six SENSB_RES / ATTRIB answer "
             "variants) x FSCI 0..8 x device frame limit 290 / 40 x five echo "
             "APDUs with command lengths FSC-4 .. 2(FSC-3)+1 for the FSC the "
             "card announced x no fault or one fault in {LC, LR, CR} at one "
             "of the first 4 block exchanges; the card model derives FSC and "
             "FWI from the ATS / SENSB_RES bytes it sent and stays mute on "
             "larger blocks.  Same oracle as enum2 (exactly-once, complete "
             "response, recoverable faults absorbed, no block + EDC larger "
             "than the announced FSC); non-trivial = the reader had to chain "
             "a command, so the frame size governed the split."),
    Leg("drivers", run=run_driver, enum=enum_drivers, exhaustive=True,
        shards_quick=8, shards_thorough=16,
        rule="the Type4Tag over the REAL drivers (rcs380 and the PN53x family "
             "pn531 pn532 pn533 rcs956 acr122 arygonA arygonB; Type 4B where "
             "the driver senses it) on simulated chips whose receiver honours "
             "the CRC settings the driver programmed, the ISO 14443-4 card "
             "model as RF partner, activation through the driver's own sense "
             "+ RATS / ATTRIB: fixed card configurations (3 quick / 5 "
             "thorough; one-block and chained APDUs both ways, Type 4A with a "
             "seeded SEL_RES of the 20h family) x every driver x {no fault, "
             "one RF fault at one of the first 8 (quick) / 16 (thorough) "
             "block exchanges}; RF faults: command not seen by the card, "
             "answer frame cut to 0/1/2/3 byte, answer lost and one noise "
             "byte received (every PCB-like value and a seeded one), one CRC "
             "bit inverted, one seeded bit of the frame inverted.  Same "
             "oracle as enum2; non-trivial = a fault hit a chained I-block, "
             "an R-block or an S(WTX) exchange."),
    Leg("drivers-random", run=run_driver, gen=lambda tier: driver_case(),
        quick=800, thorough=20000, shards_quick=4, shards_thorough=16,
        nt_floor=0.05,
        rule="as leg drivers with a generated driver x card configuration "
             "(FSCI 0..8, FWI 0..14, card block size, S(WTX), any SEL_RES "
             "with bit 6 set) x 1-4 echo APDUs x up to 5 RF faults (as above, "
             "also cuts to 4..40 byte) anywhere in the first 60 block "
             "exchanges; non-trivial as above."),
]

# the same searches with every nfc logger enabled down to the lowest level
# (code that only runs, or only evaluates its arguments, when logging is on)
_byl = dict((lg.name, lg) for lg in LEGS)
LEGS += [twin_env(_byl[n], "log", {"VERIF_LOG": "debug"}, quick=q, thorough=t,
                  shards_quick=2)
         for n, q, t in [('random', 300, 3000)] if n in _byl]
