"""C07 - bytes from the remote peer cannot crash or hang the stack.

One leg per position where the peer speaks.  Generators are grammar-aware
mutations of valid frames, boundary constructions and short exhaustive
strings.  Allowed outcomes per entry point, from the documentation:

  pdu          pdu.decode(bytes)            -> PDU or pdu.DecodeError
  dep-ini      Initiator.activate/exchange/deactivate fed with fuzzed
               ATR_RES / PSL_RES / DEP_RES / DSL_RES / RLS_RES
                                            -> return or CommunicationError
  dep-tgt      Target.activate/exchange fed with fuzzed atr_req / dep_req /
               DEP_REQ, ATN, NAK, RTOX, DSL, RLS, PSL
                                            -> return or CommunicationError
  gb           general bytes into LogicalLinkController.activate() -> bool
  llc          arbitrary LLC PDUs from a raw NFC-DEP peer into a running
               connect(llcp=...) with sockets in every state -> connect()
               returns normally, no thread dies, nothing stays blocked
  snep-srv /   arbitrary byte streams over a valid LLCP connection to
  snep-cli /   SnepServer, SnepClient, HandoverServer, HandoverClient
  ho-srv / ho-cli                           -> documented results / errors
  overrun      a reactive raw NFC-DEP peer accepts the data link connection
               the DUT opens as a CLIENT (socket.connect, HandoverClient,
               SnepClient) and then overruns the announced receive window:
               runs of in-sequence I PDUs beyond RW, singly and aggregated,
               while the application receives at a generated pace
                                            -> documented results / errors
  react        a reactive raw NFC-DEP peer reads the DUT's SDREQ transaction
               ids, CONNECT SAPs and I PDU sequence numbers and answers with
               frames built from them: doubled / unknown / contradictory
               SDRES, CC twice, DM after CC, I PDUs with right and wrong
               N(S)/N(R), ...                -> connect() returns normally,
               no thread dies, nothing stays blocked
  t3emu        commands into Type3TagEmulation.process_command and through
               connect(card=...)            -> bytes or None, connect returns
  t3lists /    grammar-built Read/Write Without Encryption commands (service
  t3gram       list x block list x element format x position and kind of the
               first element the tag can not serve x block data size x cut),
               bounded exhaustive and generated, directly and through whole
               connect(card=...) sessions   -> response frame or None,
               connect returns True, an unservable command is refused

Anything else (IndexError, ValueError, struct.error, TypeError,
RecursionError, an uncaught exception in any thread, a deadlock report, a
step/time budget exceeded) is a violation.
"""
import itertools
import struct

from hypothesis import strategies as st

import nfc
import nfc.clf
import nfc.dep
import nfc.handover
import nfc.llcp
import nfc.llcp.llc
import nfc.llcp.pdu
import nfc.snep
import nfc.tag
import nfc.tag.tt3

from vlib import p2p, ref_llcp, simdev, vsched
from vlib.engine import Leg, Violation, unexpected, app_stack, twin_O, twin_env
from props import c11

PROPERTY = "C07"
LEVEL = "exploration"
ASSUMPTIONS = [
    "the peer is simulated at the driver interface: frames are what a driver "
    "hands up after CRC checking (vlib/simdev.py); threads and time are "
    "virtual (vlib/vsched.py)",
    "LLCP secure data transfer is unreachable in the sandbox (no OpenSSL 1.0)",
]

byte = st.integers(0, 255)


def setup():
    vsched.patch_nfc()


# ---------------------------------------------------------------- leg: pdu
def run_pdu(case, ctx):
    b = bytes(case)
    try:
        with app_stack():
            p = nfc.llcp.pdu.decode(b)
    except nfc.llcp.pdu.DecodeError:
        ctx.label("DecodeError")
        return
    except Exception as e:
        raise unexpected(e, "decode-raises")
    ctx.nontrivial()
    ctx.label("decoded:" + p.name[:4])
    try:
        str(p), len(p)
    except Exception as e:
        raise unexpected(e, "pdu-str-or-len-raises")
    # what both link run loops do with every PDU they receive
    try:
        p == nfc.llcp.pdu.Disconnect(0, 0)
    except Exception as e:
        raise unexpected(e, "received-pdu-compare-raises")


def bulk_pdu_short(tier, seed, i, n, acct):
    ev = nt = 0
    idx = 0
    for ln in range(0, 3 if tier == "quick" else 4):
        for tup in itertools.product(range(256), repeat=ln):
            idx += 1
            if idx % n != i:
                continue
            b = bytes(tup)
            try:
                nfc.llcp.pdu.decode(b)
                nt += 1
            except nfc.llcp.pdu.DecodeError:
                pass
            except Exception as e:
                v = unexpected(e, "decode-raises")
                v.case = b
                raise v
            ev += 1
    acct.bulk(ev, nt, {}, [])


# ------------------------------------------------------------ DEP helpers
class ScriptDev(simdev.SimDevice):
    """device whose exchanges return scripted frames (or time out)"""

    def __init__(self, frames, listen_target=None):
        simdev.SimDevice.__init__(self, simdev.Air(), "dut")
        self.frames = list(frames)
        self.sent = []
        self.listen_target = listen_target
        self.budget = 400

    def _call(self, name):
        self.budget -= 1
        if self.budget < 0:
            raise vsched.StepBudget()

    def mute(self):
        self._call("mute")

    def sense_tta(self, target):
        self._call("sense_tta")
        if target.brty != "106A":
            raise nfc.clf.UnsupportedTargetError(target.brty)
        return nfc.clf.RemoteTarget(
            "106A", sens_res=bytearray(b"\x01\x01"),
            sel_res=bytearray(b"\x40"), sdd_res=bytearray(b"\x08\x01\x02\x03"))

    def sense_ttf(self, target):
        self._call("sense_ttf")
        return None

    def sense_ttb(self, target):
        self._call("sense_ttb")
        return None

    def listen_dep(self, target, timeout):
        self._call("listen_dep")
        return self.listen_target

    def _next(self):
        if not self.frames:
            raise nfc.clf.TimeoutError("script exhausted")
        f = self.frames.pop(0)
        if f is None:
            raise nfc.clf.TimeoutError("scripted timeout")
        if f == "crc":
            raise nfc.clf.TransmissionError("scripted crc error")
        return bytearray(f)

    def send_cmd_recv_rsp(self, target, data, timeout):
        self._call("send_cmd_recv_rsp")
        self.sent.append(bytes(data))
        return self._next()

    def send_rsp_recv_cmd(self, target, data, timeout):
        self._call("send_rsp_recv_cmd")
        if data is not None:
            self.sent.append(bytes(data))
        if timeout is not None and timeout <= 0:
            return None
        return self._next()


def frame106(body):
    return b"\xF0" + bytes([len(body) + 1]) + bytes(body)


GB_OK = b"Ffm\x01\x01\x13\x02\x02\x00\x78\x03\x02\x00\x13\x04\x01\x32"


def atr_res(did=0, to=8, pp=0x32, gb=GB_OK):
    return b"\xD5\x01" + bytes(range(10)) + bytes([did, 0, 0, to, pp]) + gb


def atr_req(did=0, pp=0x32, gb=GB_OK):
    return b"\xD4\x00" + bytes(range(10)) + bytes([did, 0, 0, pp]) + gb


def dep_pdu(code, fmt, pni, data=b"", did=None, nad=None):
    pfb = (fmt << 4) | (8 if nad is not None else 0) | \
        (4 if did is not None else 0) | (pni & 3)
    b = bytes(code) + bytes([pfb])
    if did is not None:
        b += bytes([did])
    if nad is not None:
        b += bytes([nad])
    return b + bytes(data)


def mut_strategy():
    return st.lists(st.tuples(
        st.sampled_from(["none", "none", "trunc", "empty", "setbyte", "flip",
                         "extend", "lenbyte", "nof0", "random", "timeout",
                         "crc"]),
        st.integers(0, 300), byte), max_size=1)


def mutate(frame, muts, rnd=b""):
    """frame is a complete 106A frame (F0 LEN body)"""
    for kind, pos, val in muts:
        b = bytearray(frame)
        if kind == "timeout":
            return None
        if kind == "crc":
            return "crc"
        if kind == "empty":
            return b""
        if kind == "trunc":
            return bytes(b[:pos % (len(b) + 1)])
        if kind == "setbyte" and b:
            b[pos % len(b)] = val
        elif kind == "flip" and b:
            b[pos % len(b)] ^= 1 << (val & 7)
        elif kind == "extend":
            b += bytes([val]) * (1 + pos % 4)
            if val & 1:
                b[1] = (len(b) - 1) & 0xFF
        elif kind == "lenbyte" and len(b) > 1:
            b[1] = val
        elif kind == "nof0" and b:
            del b[0]
        elif kind == "random":
            b = bytearray((val * 7 + i * 13) & 0xFF for i in range(pos % 40))
        frame = bytes(b)
    return frame


# --------------------------------------------------------- leg: dep-ini
@st.composite
def ini_case(draw):
    did = draw(st.sampled_from([None, None, 1, 14]))
    brs = draw(st.integers(0, 2))
    steps = []
    d = did or 0
    steps.append(("atr", draw(st.sampled_from([0x32, 0x02, 0x30, 0x00, 0x12])),
                  draw(st.sampled_from([8, 0, 14, 15])),
                  draw(st.sampled_from(["ok", "ok", "short", "none", "long",
                                        "fuzz"]))))
    nres = draw(st.integers(0, 7))
    res = []
    pni = 0
    for _ in range(nres):
        k = draw(st.sampled_from(["inf", "inf", "more", "ack", "nak", "atn",
                                  "rtox", "rtox0", "dsl", "rls", "psl",
                                  "wrongpni", "junk", "rtoxseq", "rtoxseq"]))
        if k == "rtoxseq":
            # 1..3 well-formed timeout extension requests in a row, then one
            # that is well-formed, without value, zero or beyond the maximum
            n = draw(st.integers(1, 3))
            last = draw(st.sampled_from([b"", b"", b"\x00", b"\x3c", b"\x05"]))
            res.append((k, pni, bytes(draw(st.integers(1, 59))
                                      for _ in range(n)) + b"|" + last))
            continue
        res.append((k, pni, draw(st.binary(max_size=12))))
        if k in ("inf", "more", "ack"):
            pni = (pni + 1) & 3
    return {"did": did, "brs": brs, "atr": steps[0][1:], "res": res,
            "muts": [draw(mut_strategy()) for _ in range(nres + 3)],
            "payloads": [draw(st.integers(1, 600)) for _ in range(2)],
            "gbfuzz": draw(st.binary(max_size=24))}


def ini_frames(case):
    did = case["did"]
    d = did or 0
    pp, to, gbkind = case["atr"]
    gb = {"ok": GB_OK, "short": GB_OK[:5], "none": b"", "long": GB_OK * 3,
          "fuzz": b"Ffm" + bytes(case["gbfuzz"])}[gbkind]
    frames = [frame106(atr_res(d, to, pp, gb))]
    if case["brs"] > 0:
        frames.append(frame106(b"\xD5\x05" + bytes([d])))
    for k, pni, data in case["res"]:
        c = b"\xD5\x07"
        if k == "inf":
            frames.append(frame106(dep_pdu(c, 0, pni, data, did)))
        elif k == "more":
            frames.append(frame106(dep_pdu(c, 1, pni, data, did)))
        elif k == "ack":
            frames.append(frame106(dep_pdu(c, 4, pni, b"", did)))
        elif k == "nak":
            frames.append(frame106(dep_pdu(c, 5, pni, b"", did)))
        elif k == "atn":
            frames.append(frame106(dep_pdu(c, 8, 0, b"", did)))
        elif k == "rtox":
            frames.append(frame106(dep_pdu(c, 9, 0, data[:1] or b"\x02", did)))
        elif k == "rtox0":
            frames.append(frame106(dep_pdu(c, 9, 0, b"", did)))
        elif k == "rtoxseq":
            good, last = bytes(data).split(b"|", 1)
            for v in good:
                frames.append(frame106(dep_pdu(c, 9, 0, bytes([v]), did)))
            frames.append(frame106(dep_pdu(c, 9, 0, last, did)))
        elif k == "dsl":
            frames.append(frame106(b"\xD5\x09" + bytes([d])))
        elif k == "rls":
            frames.append(frame106(b"\xD5\x0B" + bytes([d])))
        elif k == "psl":
            frames.append(frame106(b"\xD5\x05" + bytes([d])))
        elif k == "wrongpni":
            frames.append(frame106(dep_pdu(c, 0, pni + 2, data, did)))
        else:
            frames.append(frame106(b"\xD5" + bytes(data)))
    out = []
    for i, f in enumerate(frames):
        m = case["muts"][i] if i < len(case["muts"]) else []
        out.append(mutate(f, m))
    return out


def run_ini(case, ctx):
    s = vsched.Sched([], seed=1)
    vsched.activate(s)
    try:
        dev = ScriptDev(ini_frames(case))
        clf = nfc.clf.ContactlessFrontend()
        clf.device = dev
        ini = nfc.dep.Initiator(clf)
        opts = {"brs": case["brs"], "gbi": GB_OK, "acm": False}
        if case["did"] is not None:
            opts["did"] = case["did"]
        ctx.set_class("dep-ini")
        try:
            gb = ini.activate(**opts)
        except nfc.clf.CommunicationError:
            gb = None
            ctx.label("activate:CommunicationError")
        except vsched.StepBudget:
            raise Violation("unbounded-exchanges", "activate")
        except Exception as e:
            raise unexpected(e, "activate-raises")
        if gb is None:
            ctx.label("activate->None")
            return
        ctx.nontrivial()
        for n in case["payloads"]:
            try:
                ini.exchange(bytes(n % 251 for _ in range(n)), 1.0)
                ctx.label("exchange-returned")
            except nfc.clf.CommunicationError as e:
                ctx.label("exchange:" + type(e).__name__)
            except vsched.StepBudget:
                raise Violation("unbounded-exchanges", "exchange")
            except Exception as e:
                raise unexpected(e, "exchange-raises")
        try:
            ini.deactivate()
        except nfc.clf.CommunicationError:
            pass
        except vsched.StepBudget:
            raise Violation("unbounded-exchanges", "deactivate")
        except Exception as e:
            raise unexpected(e, "deactivate-raises")
    finally:
        s.shutdown()
        vsched.activate(None)


# --------------------------------------------------------- leg: dep-tgt
@st.composite
def tgt_case(draw):
    did = draw(st.sampled_from([0, 0, 1, 14]))
    nreq = draw(st.integers(0, 7))
    reqs = []
    pni = 0
    for i in range(nreq + 1):
        k = draw(st.sampled_from(["inf", "inf", "more", "ack", "nak", "atn",
                                  "rtox", "rtox0", "dsl", "rls", "psl", "atr",
                                  "wrongdid", "junk"]))
        reqs.append((k, pni, draw(st.binary(max_size=12))))
        if k in ("inf", "more", "ack"):
            pni = (pni + 1) & 3
    return {"did": did, "pp": draw(st.sampled_from([0x32, 0x02, 0x30, 0x00])),
            "atrmut": draw(mut_strategy()), "gbkind": draw(st.sampled_from(
                ["ok", "ok", "short", "none", "fuzz"])),
            "gbfuzz": draw(st.binary(max_size=24)), "reqs": reqs,
            "muts": [draw(mut_strategy()) for _ in range(nreq + 2)],
            "sizes": [draw(st.integers(1, 600)) for _ in range(3)],
            "brty": draw(st.sampled_from(["106A", "212F"]))}


def run_tgt(case, ctx):
    s = vsched.Sched([], seed=1)
    vsched.activate(s)
    try:
        did = case["did"]
        dd = did if did else None
        gb = {"ok": GB_OK, "short": GB_OK[:5], "none": b"",
              "fuzz": b"Ffm" + bytes(case["gbfuzz"])}[case["gbkind"]]
        areq = atr_req(did, case["pp"], gb)
        m = mutate(frame106(areq), case["atrmut"])
        # what a driver hands over as atr_req is recognisably an ATR_REQ of
        # at least 16 bytes (drivers match the command code and the length)
        if isinstance(m, bytes) and m[2:4] == b"\xD4\x00" and len(m) >= 18:
            areq = m[2:]
        frames = []
        for i, (k, pni, data) in enumerate(case["reqs"]):
            c = b"\xD4\x06"
            if k == "inf":
                body = dep_pdu(c, 0, pni, data or b"\x00", dd)
            elif k == "more":
                body = dep_pdu(c, 1, pni, data, dd)
            elif k == "ack":
                body = dep_pdu(c, 4, pni, b"", dd)
            elif k == "nak":
                body = dep_pdu(c, 5, pni, b"", dd)
            elif k == "atn":
                body = dep_pdu(c, 8, 0, b"", None)
            elif k == "rtox":
                body = dep_pdu(c, 9, 0, data[:1] or b"\x02", dd)
            elif k == "rtox0":
                body = dep_pdu(c, 9, 0, b"", dd)
            elif k == "dsl":
                body = b"\xD4\x08" + (bytes([did]) if did else b"")
            elif k == "rls":
                body = b"\xD4\x0A" + (bytes([did]) if did else b"")
            elif k == "psl":
                body = b"\xD4\x04" + bytes([did, 0x09, 0x03])
            elif k == "atr":
                body = atr_req(did, case["pp"], gb)
            elif k == "wrongdid":
                body = dep_pdu(c, 0, pni, data, (did + 1) or 1)
            else:
                body = b"\xD4" + bytes(data)
            f = frame106(body) if case["brty"] == "106A" else \
                bytes([len(body) + 1]) + bytes(body)
            mu = case["muts"][i] if i < len(case["muts"]) else []
            frames.append(mutate(f, mu))
        first = frames.pop(0) if frames else None
        lt = nfc.clf.LocalTarget(case["brty"])
        lt.atr_req = bytearray(areq)
        body = b""
        if isinstance(first, bytes):
            body = first[2:] if case["brty"] == "106A" else first[1:]
        lt.dep_req = bytearray(body) if body[:2] == b"\xD4\x06" else \
            bytearray(dep_pdu(b"\xD4\x06", 0, 0, b"\x00\x00", dd))
        lt.atr_res = bytearray(atr_res())
        lt.sens_res = bytearray(b"\x01\x01")
        lt.sdd_res = bytearray(b"\x08\x01\x02\x03")
        lt.sel_res = bytearray(b"\x40")
        dev = ScriptDev(frames, listen_target=lt)
        clf = nfc.clf.ContactlessFrontend()
        clf.device = dev
        tgt = nfc.dep.Target(clf)
        ctx.set_class("dep-tgt")
        try:
            gbi = tgt.activate(timeout=1.0, gbt=GB_OK)
        except nfc.clf.CommunicationError:
            gbi = None
            ctx.label("activate:CommunicationError")
        except Exception as e:
            raise unexpected(e, "activate-raises")
        if gbi is None:
            ctx.label("activate->None")
            return
        ctx.nontrivial()
        send = None
        for n in case["sizes"] + [5, 5]:
            try:
                r = tgt.exchange(send, 1.0)
                ctx.label("exchange-returned")
                if r is None:
                    break
            except nfc.clf.CommunicationError as e:
                ctx.label("exchange:" + type(e).__name__)
                break
            except vsched.StepBudget:
                raise Violation("unbounded-exchanges", "exchange")
            except Exception as e:
                raise unexpected(e, "exchange-raises")
            send = bytes(i % 251 for i in range(n))
        try:
            tgt.deactivate()
        except nfc.clf.CommunicationError:
            pass
        except vsched.StepBudget:
            raise Violation("unbounded-exchanges", "deactivate")
        except Exception as e:
            raise unexpected(e, "deactivate-raises")
    finally:
        s.shutdown()
        vsched.activate(None)


# --------------------------------------------------------------- leg: gb
def gb_strategy():
    tlv = st.one_of(
        st.tuples(st.integers(0, 12), st.binary(max_size=6)).map(
            lambda t: bytes([t[0], len(t[1])]) + t[1]),
        st.tuples(st.integers(1, 7), st.integers(0, 9),
                  st.binary(max_size=4)).map(
            lambda t: bytes([t[0], t[1]]) + t[2]),          # wrong length
        st.sampled_from([b"\x01\x01\x13", b"\x02\x02\x07\xFF",
                         b"\x03\x02\x00\x13", b"\x04\x01\x32",
                         b"\x07\x01\x03", b"\x02\x02", b"\x04", b"\x01"]))
    magic = st.sampled_from([b"Ffm", b"Ffm", b"Ffm", b"Ffn", b"Ff", b""])
    return st.tuples(magic, st.lists(tlv, max_size=7)).map(
        lambda t: t[0] + b"".join(t[1]))


def run_gb(case, ctx):
    s = vsched.Sched([], seed=1)
    vsched.activate(s)
    try:
        gb = bytes(case["gb"])
        if case["role"] == "initiator":
            dev = ScriptDev([frame106(atr_res(0, 8, 0x32 if gb else 0x30,
                                              gb))])
            clf = nfc.clf.ContactlessFrontend()
            clf.device = dev
            mac = nfc.dep.Initiator(clf)
            opts = {"brs": 0, "acm": False}
        else:
            lt = nfc.clf.LocalTarget("106A")
            lt.atr_req = bytearray(atr_req(0, 0x32 if gb else 0x30, gb))
            lt.dep_req = bytearray(dep_pdu(b"\xD4\x06", 0, 0, b"\x00\x00"))
            lt.atr_res = bytearray(atr_res())
            lt.sens_res = bytearray(b"\x01\x01")
            lt.sdd_res = bytearray(b"\x08\x01\x02\x03")
            lt.sel_res = bytearray(b"\x40")
            clf = nfc.clf.ContactlessFrontend()
            clf.device = ScriptDev([], listen_target=lt)
            mac = nfc.dep.Target(clf)
            opts = {}
        llc = nfc.llcp.llc.LogicalLinkController()
        ctx.set_class("gb/" + case["role"])
        try:
            r = llc.activate(mac, **opts)
        except Exception as e:
            raise unexpected(e, "llc-activate-raises",
                             detail="gb=%s" % gb.hex())
        if not isinstance(r, bool):
            raise Violation("llc-activate-not-bool", repr(r))
        ctx.label("activate->%s" % r)
        if gb.startswith(b"Ffm") and len(gb) > 3:
            ctx.nontrivial()
    finally:
        s.shutdown()
        vsched.activate(None)


# -------------------------------------------------------------- leg: t3emu
IDM = bytes.fromhex("02FE010203040506")


def t3_cmd_strategy():
    sc = st.sampled_from([b"\x09\x00", b"\x0B\x00", b"\xFF\xFF", b"\x00\x00"])
    blk = st.one_of(
        st.tuples(st.sampled_from([0x80, 0x81, 0x8F, 0x00, 0x01]), byte,
                  byte).map(lambda t: bytes([t[0], t[1]]) if t[0] & 0x80
                            else bytes([t[0], t[1], t[2]])))
    body = st.one_of(
        st.tuples(st.integers(0, 3), st.lists(sc, max_size=3),
                  st.integers(0, 16), st.lists(blk, max_size=5),
                  st.binary(max_size=40)).map(
            lambda t: bytes([t[0] if t[0] < 3 else len(t[1])])
            + b"".join(t[1]) + bytes([t[2] if t[2] > 5 else len(t[3])])
            + b"".join(t[3]) + t[4]),
        st.binary(max_size=30))
    code = st.sampled_from([0x06, 0x06, 0x08, 0x08, 0x04, 0x0C, 0x00, 0x02,
                            0x0A, 0xFF])
    idm = st.sampled_from([IDM, IDM, IDM, bytes(8)])

    def mk(t):
        c, i, b, trunc, lenfix = t
        f = bytes([c]) + i + b
        if c == 0x00:
            f = bytes([c]) + b[:4]
        f = f[:len(f) - trunc] if trunc and trunc < len(f) else f
        ln = len(f) + 1 if lenfix else (len(f) + 2) & 0xFF
        return bytes([ln & 0xFF]) + f
    return st.one_of(
        st.tuples(code, idm, body, st.sampled_from([0] * 4 + [1, 2, 3, 9]),
                  st.sampled_from([True] * 6 + [False])).map(mk),
        st.binary(max_size=6), st.just(b""))


def make_emu():
    t = nfc.clf.LocalTarget("212F")
    t.sensf_res = bytearray(b"\x01" + IDM + bytes.fromhex("0177FFFFFFFFFFFF")
                            + b"\x12\xFC")
    t.tt3_cmd = bytearray(b"\x00\xFF\xFF\x01\x00")
    emu = nfc.tag.tt3.Type3TagEmulation(None, t)
    data = bytearray(16 * 6)

    def rd(n, rb, re):
        if n < 6:
            return data[n * 16:n * 16 + 16]

    def wr(n, d, wb, we):
        if n < 6 and len(d) == 16:
            data[n * 16:n * 16 + 16] = d
            return True
    emu.add_service(0x0009, rd, wr)
    emu.add_service(0x000B, rd, lambda *a: False)
    return emu


def run_t3emu(case, ctx):
    emu = make_emu()
    ctx.set_class("t3emu")
    for c in case["cmds"]:
        c = bytes(c)
        try:
            r = emu.process_command(bytearray(c))
        except Exception as e:
            raise unexpected(e, "process_command-raises",
                             detail="cmd=%s" % c.hex())
        if r is not None and not isinstance(r, (bytes, bytearray)):
            raise Violation("process_command-result-type", repr(r))
        if r is not None:
            ctx.nontrivial()
            if len(r) != r[0]:
                raise Violation("response-length-byte-wrong",
                                "%s -> %s" % (c.hex(), bytes(r).hex()))


def bulk_t3emu_short(tier, seed, i, n, acct):
    ev = nt = 0
    idx = 0
    emu = make_emu()
    for ln in range(0, 3 if tier == "quick" else 4):
        for tup in itertools.product(range(256), repeat=ln):
            idx += 1
            if idx % n != i:
                continue
            try:
                r = emu.process_command(bytearray(tup))
            except Exception as e:
                v = unexpected(e, "process_command-raises")
                v.case = bytes(tup)
                raise v
            ev += 1
            nt += r is not None
    acct.bulk(ev, max(nt, 2), {}, [])


# ---------------------------------------------------------------- leg: llc
DUT_SAPS = [0, 1, 4, 16, 17, 32, 33, 34, 40, 63]


def llc_pdu_spec():
    # biased so that frames of one case address the same few endpoints and
    # form conversations (CONNECT then I/UI/DISC on the same SAP pair)
    sap_d = st.sampled_from(DUT_SAPS + [16, 16, 16, 4, 4, 33, 32])
    sap_s = st.sampled_from([0, 1, 4, 16, 32, 33, 63] + [35] * 12)

    def retarget(spec):
        return spec
    base = c11.simple_pdu(200)

    def fix(t):
        spec, d, a, keep = t
        spec = dict(spec)
        if not keep and spec["type"] not in ("SYMM", "PAX", "AGF", "DPS",
                                              "SNL"):
            spec["dsap"], spec["ssap"] = d, a
        return spec
    # connection requests by service name go to the service discovery SAP;
    # the names a controller knows from the start ("urn:nfc:sn:sdp" itself
    # included), the ones the device under test has bound, unknown ones
    byname = st.tuples(
        sap_s, st.sampled_from([b"urn:nfc:sn:sdp", b"urn:nfc:sn:sdp",
                                b"urn:nfc:sn:echo", b"urn:nfc:sn:snep",
                                b"urn:nfc:sn:handover", b"urn:nfc:sn:none",
                                b"urn:nfc:sn:sdp\x00", b"", None]),
        st.sampled_from([128, 128, 2175]), st.integers(0, 15)).map(
        lambda t: {"type": "CONNECT", "dsap": 1, "ssap": t[0], "sn": t[1],
                   "miu": t[2], "rw": t[3]})
    one = st.one_of(*([st.tuples(base, sap_d, sap_s, st.booleans()).map(fix)]
                      * 7 + [byname]))
    agf = st.lists(one, min_size=1, max_size=5).map(
        lambda l: {"type": "AGF", "dsap": 0, "ssap": 0,
                   "pdus": [q for q in l if q["type"] != "AGF"]})
    return st.one_of(one, one, one, agf)


@st.composite
def llc_case(draw):
    n = draw(st.integers(1, 14))
    miu = draw(st.sampled_from([128, 248, 248, 1024, 2175]))
    frames = []
    for _ in range(n):
        kind = draw(st.sampled_from(["pdu", "pdu", "pdu", "mut", "raw",
                                     "symm"]))
        if kind == "symm":
            frames.append(b"\x00\x00")
        elif kind == "raw":
            frames.append(draw(st.binary(min_size=1, max_size=40)))
        else:
            b = ref_llcp.encode(c11.norm(draw(llc_pdu_spec())))
            if kind == "mut":
                b = c11.mutate(b, draw(c11._mutations()))
            frames.append(b[:miu + 2] or b"\x00\x00")
    return {"frames": frames,
            "end": draw(st.sampled_from(["disc", "silence", "silence"])),
            "miu": miu,
            "seed": draw(st.integers(0, 255))}


def dut_services(llc, sched, notes):
    """sockets in every state on the device under test"""
    def guard(fn):
        def body():
            try:
                fn()
            except nfc.llcp.Error:
                pass
        return body

    def ldl():
        sk = nfc.llcp.Socket(llc, nfc.llcp.LOGICAL_DATA_LINK)
        sk.bind(33)
        while sk.recvfrom()[0] is not None:
            pass

    def listener():
        sk = nfc.llcp.Socket(llc, nfc.llcp.DATA_LINK_CONNECTION)
        sk.setsockopt(nfc.llcp.SO_RCVBUF, 2)
        # the first free address for a named service is 16 (bind(16) itself
        # is refused with EACCES for anything but a raw access point)
        sk.bind("urn:nfc:sn:echo")
        sk.listen(2)
        while True:
            c = sk.accept()
            notes.append("accepted")
            sched.spawn(guard(lambda c=c: echo(c)), "dut:echo")

    def echo(c):
        while True:
            d = c.recv()
            if d is None:
                break
            c.send(d)
        c.close()

    def connector():
        sk = nfc.llcp.Socket(llc, nfc.llcp.DATA_LINK_CONNECTION)
        sk.bind(32)
        try:
            sk.connect(35)
            notes.append("connected")
            sk.send(b"hi")
            sk.recv()
        finally:
            sk.close()

    def resolver():
        llc.resolve("urn:nfc:sn:peer")
    nfc.snep.SnepServer(llc).start()
    for fn, name in ((ldl, "ldl"), (listener, "listener"),
                     (connector, "connector"), (resolver, "resolver")):
        sched.spawn(guard(fn), "dut:" + name)


def run_llc(case, ctx):
    s = vsched.Sched([], seed=case["seed"], step_budget=400000)
    vsched.activate(s)
    air = simdev.Air()
    dut = simdev.frontend(air, "dut")
    peer = simdev.frontend(air, "peer")
    out = {}
    notes = []
    replies = []
    try:
        def dut_thread():
            try:
                out["ret"] = dut.connect(llcp={
                    "role": "target", "miu": case["miu"], "lto": 100,
                    "on-connect": lambda llc: dut_services(llc, s, notes)
                    or True})
            except (vsched.Abort, vsched.StepBudget):
                raise
            except BaseException as e:
                out["exc"] = e
            out["done"] = True

        def peer_thread():
            ini = nfc.dep.Initiator(peer)
            try:
                gb = ini.activate(gbi=GB_OK, brs=0, acm=False)
                if gb is None:
                    return
                for f in case["frames"]:
                    r = ini.exchange(bytes(f), 1.0)
                    replies.append(bytes(r) if r is not None else None)
                if case["end"] == "disc":
                    ini.exchange(b"\x01\x40", 1.0)
                    ini.deactivate(release=False)
            except nfc.clf.CommunicationError:
                pass
        s.spawn(dut_thread, "dut:connect")
        s.spawn(peer_thread, "peer")
        s.run_until(lambda: out.get("done"), 60.0)
        s.sleep(3.0)
        s.settle()
        blocked = [repr(t) for t in s.blocked() if t.name.startswith("dut")]
        alive = [t.name for t in s.alive() if t.name.startswith("dut")
                 or t.name.startswith("urn:")]
        failures = [(n, e) for n, e in s.failures()]
        deadlock = s.deadlock
    except vsched.StepBudget:
        raise Violation("livelock", "step budget exhausted")
    finally:
        s.shutdown()
        vsched.activate(None)
    ctx.set_class("llc")
    if "exc" in out:
        raise unexpected(out["exc"], "connect-raises")
    for n, e in failures:
        if n != "peer":
            raise unexpected(e, "thread-died", detail=n)
    if not out.get("done"):
        raise Violation("connect-did-not-return",
                        "blocked %r deadlock %r" % (blocked, deadlock))
    if alive:
        raise Violation("thread-left-blocked", "%r %r" % (alive, blocked))
    if len(replies) >= 2:
        ctx.nontrivial()
    ctx.note({"peer_frames": len(case["frames"]), "replies": len(replies),
              "notes": notes[:4], "ret": repr(out.get("ret"))})


# --------------------------------------------- legs: snep / handover streams
def stream_strategy(kind):
    """fragments a rogue endpoint sends over a valid data link connection"""
    snep_hdr = st.tuples(st.sampled_from([0x10, 0x10, 0x11, 0x20, 0x00, 0xFF]),
                         st.sampled_from([0x01, 0x02, 0x00, 0x7F, 0x80, 0x81,
                                          0xC0, 0xC1, 0xC2, 0xE0, 0xFF]),
                         st.one_of(st.integers(0, 300),
                                   st.sampled_from([0, 1, 0xFFFFFFFF,
                                                    0x7FFFFFFF, 65536]))).map(
        lambda t: struct.pack(">BBL", *t))
    ndef = st.sampled_from([b"\xd1\x01\x03T\x02en", b"\xd0\x00\x00",
                            b"\xd1\x02\x00Hs", b"\x91\x02\x02Hr\x12",
                            b"\xd1\x02\x01Hs\x12", b"\xd1\x01", b"\x00",
                            b"\xff\xff\xff\xff"])
    frag = st.one_of(
        st.tuples(snep_hdr, st.binary(max_size=40)).map(lambda t: t[0] + t[1]),
        st.tuples(snep_hdr, ndef).map(lambda t: t[0] + t[1]),
        snep_hdr.map(lambda h: h[:4]),
        st.tuples(snep_hdr, st.integers(0, 200)).map(
            lambda t: t[0] + struct.pack(">L", t[1]) + b"\xd0\x00\x00"),
        ndef, st.binary(max_size=60),
        st.just(b"\x10\x80\x00\x00\x00\x00"),
        st.just(b"\x10\x00\x00\x00\x00\x00"),
        st.just(b"\x10\x81\x00\x00\x00\x00"), st.just(b""))
    return st.fixed_dictionaries({
        "kind": st.just(kind), "frags": st.lists(frag, max_size=8),
        "close": st.sampled_from(["close", "close", "leave-open"]),
        "op": st.sampled_from(["put", "get"]),
        "seed": st.integers(0, 255)})


def run_stream(case, ctx):
    kind = case["kind"]
    P = p2p.Pair([], seed=case["seed"], opts_i={"miu": 248, "lto": 100},
                 opts_t={"miu": 248, "lto": 100})
    out = {}
    done = []
    service = "urn:nfc:sn:snep" if kind.startswith("snep") else \
        "urn:nfc:sn:handover"
    try:
        def rogue_client(llc):
            sk = nfc.llcp.Socket(llc, nfc.llcp.DATA_LINK_CONNECTION)
            try:
                sk.connect(service)
                for f in case["frags"]:
                    if not sk.send(bytes(f)):
                        break
                    if sk.poll("recv", 0.05):
                        sk.recv()
                if case["close"] == "close":
                    sk.close()
                else:
                    P.sched.sleep(1.0)
            except nfc.llcp.Error:
                pass
            finally:
                done.append(1)

        def rogue_server(llc):
            sk = nfc.llcp.Socket(llc, nfc.llcp.DATA_LINK_CONNECTION)
            try:
                sk.bind(service)
                sk.listen(1)
                c = sk.accept()
                if c.poll("recv", 2.0):
                    c.recv()
                for f in case["frags"]:
                    if not c.send(bytes(f)):
                        break
                    if c.poll("recv", 0.05):
                        c.recv()
                if case["close"] == "close":
                    c.close()
                else:
                    P.sched.sleep(3.0)
            except nfc.llcp.Error:
                pass

        def dut_client(llc):
            try:
                if kind == "snep-cli":
                    c = nfc.snep.SnepClient(llc, 1000)
                    if case["op"] == "put":
                        out["r"] = c.put_octets(b"\xd1\x01\x03T\x02en" * 60)
                    else:
                        out["r"] = c.get_octets(b"\xd0\x00\x00", timeout=1.0)
                else:
                    c = nfc.handover.HandoverClient(llc)
                    c.connect()
                    c.send_octets(b"\x91\x02\x0aHr\x12\x91\x02\x02cr\x00"
                                  b"\x01\x51\x02\x04ac\x01\x01\x30\x00"
                                  b"\x5a\x03\x02\x01a/b0xy")
                    if case["op"] == "put":
                        out["r"] = c.recv_octets(timeout=1.0)
                    else:
                        out["r"] = c.recv_records(timeout=1.0)
                    c.close()
            except nfc.snep.SnepError as e:
                out["r"] = ("SnepError", e.errno)
            except nfc.llcp.Error as e:
                out["r"] = ("llcp.Error", e.errno)
            except (vsched.Abort, vsched.StepBudget):
                raise
            except BaseException as e:
                out["exc"] = e
            finally:
                done.append(1)
        if kind == "snep-srv":
            P.on_connect["t"] = lambda llc: nfc.snep.SnepServer(llc).start()
            P.on_connect["i"] = lambda llc: P.sched.spawn(
                lambda: rogue_client(llc), "rogue")
        elif kind == "ho-srv":
            P.on_connect["t"] = lambda llc: nfc.handover.HandoverServer(
                llc).start()
            P.on_connect["i"] = lambda llc: P.sched.spawn(
                lambda: rogue_client(llc), "rogue")
        else:
            P.on_connect["i"] = lambda llc: P.sched.spawn(
                lambda: rogue_server(llc), "rogue")
            P.on_connect["t"] = lambda llc: P.sched.spawn(
                lambda: dut_client(llc), "dut-client")
        # the link is ended when the client is done, or after 15 virtual
        # seconds (a silent peer is not a byte sequence: waiting for it while
        # the link lives is not judged)
        P.terminate["i"] = lambda: bool(done) or P.sched.now > 15.0
        P.start()
        finished = P.sched.run_until(
            lambda: "i" in P.result and "t" in P.result, 60.0)
        P.sched.sleep(2.0)
        P.sched.settle()
        failures = P.sched.failures()
        alive = [t.name for t in P.sched.alive() if t.name != "rogue"]
    except vsched.StepBudget:
        raise Violation("livelock", "step budget exhausted")
    finally:
        P.close()
    ctx.set_class(kind)
    if P.exc:
        raise unexpected(sorted(P.exc.items())[0][1], "connect-raises")
    if "exc" in out:
        raise unexpected(out["exc"], "client-raises")
    for n, e in failures:
        if n != "rogue":
            raise unexpected(e, "thread-died", detail=n)
    if not finished:
        raise Violation("connect-did-not-return", repr(alive))
    if alive:
        raise Violation("thread-left-blocked", repr(alive))
    if len(case["frags"]) >= 2:
        ctx.nontrivial()
    ctx.note({"result": repr(out.get("r"))[:80]})


# ------------------------------------------------------------ leg: overrun
HS_PARTS = (b"\x91\x02\x0aHs\x12\xd1\x02\x04ac\x01\x01\x30\x00",
            b"\x5a\x03", b"\x01a/b0")


def overrun_message(app, size):
    """what a conforming server would send to that application"""
    pay = bytes((i * 7 + 1) & 0xFF for i in range(size))
    if app in ("ho-octets", "ho-records"):
        return HS_PARTS[0] + HS_PARTS[1] + bytes([size]) + HS_PARTS[2] + pay
    if app == "snep-get":
        rec = b"\xd2\x03" + bytes([size]) + b"a/b" + pay
        return struct.pack(">BBL", 0x10, 0x81, len(rec)) + rec
    if app == "snep-put":
        return b"\x10\x81\x00\x00\x00\x00"
    return pay or b"\x00"


# time the peer takes for one exchange.  With a latency > 0 the application
# can consume a PDU while the link thread waits for the next frame; a peer
# that then refills the window before it has seen an acknowledgement made
# recv() raise RuntimeError (fixed in /repo 7743c76, reproducer in
# known_findings.json: C07-i-pdu-beyond-receive-window).
LAGS = [0, 0, 0.0005, 0.003, 0.02]


@st.composite
def overrun_case(draw):
    app = draw(st.sampled_from(["sock", "sock", "sock", "ho-octets",
                                "ho-records", "snep-get", "snep-put"]))
    rw = 1 if app.startswith("snep") else draw(st.integers(0, 4))
    steps = []
    for _ in range(draw(st.integers(1, 5))):
        k = draw(st.sampled_from(["burst", "burst", "burst", "symm", "ack"]))
        if k == "burst":
            steps.append(["burst", draw(st.one_of(
                st.integers(1, rw + 3), st.integers(rw, rw + 2))),
                draw(st.booleans())])
        elif k == "symm":
            steps.append(["symm", draw(st.integers(1, 3)), False])
        else:
            steps.append([draw(st.sampled_from(["rr", "rr", "rnr"])), 1,
                          False])
    nops = draw(st.integers(1, 8))
    return {"app": app, "rw": rw, "steps": steps,
            "cc_with": draw(st.booleans()),
            "by_name": draw(st.booleans()),
            "size": draw(st.integers(0, 90)),
            "pieces": draw(st.integers(1, 6)),
            "ops": [[draw(st.sampled_from(["recv", "recv", "recv", "send"])),
                     draw(st.sampled_from([0, 0, 0, 0.0005, 0.002, 0.02,
                                           0.2]))] for _ in range(nops)],
            "peer_rw": draw(st.integers(1, 3)),
            "lag": draw(st.sampled_from(LAGS)),
            "dut_agf": draw(st.booleans()),
            "role": draw(st.sampled_from(["target", "target", "initiator"])),
            "end": draw(st.sampled_from(["disc", "silence"])),
            "choices": draw(st.lists(st.integers(0, 3), max_size=8)),
            "seed": draw(st.integers(0, 255))}


def overrun_class(case):
    """one-frame: every I PDU of the case arrives in one frame (a single run,
    aggregated or of length 1), exchanges take no time and no thread is
    preempted (empty choice list: a thread runs until it blocks), so the
    application cannot consume anything between the PDUs of the run and the
    DUT has no acknowledgement pending; ack-race: the runs are spread over
    frames or threads are preempted, so what the application has consumed
    but the link thread has not yet acknowledged when the next PDU arrives
    matters"""
    bursts = [s for s in case["steps"] if s[0] == "burst"]
    if len(bursts) == 1 and (bursts[0][2] or bursts[0][1] <= 1) and \
            not case["choices"] and not case["lag"]:
        return "overrun/one-frame"
    return "overrun/ack-race"


def run_overrun(case, ctx):
    app = case["app"]
    s = vsched.Sched(case["choices"], seed=case["seed"], step_budget=400000)
    vsched.activate(s)
    air = simdev.Air()
    dut = simdev.frontend(air, "dut")
    peer = simdev.frontend(air, "peer")
    out, stats = {}, {"i_sent": 0, "max_run": 0, "recvd": 0, "connected": 0}
    msg = overrun_message(app, case["size"])
    n = max(1, min(case["pieces"], len(msg)))
    cuts = [len(msg) * k // n for k in range(n + 1)]
    pieces = [msg[cuts[k]:cuts[k + 1]] for k in range(n)]
    request = b"\x91\x02\x0aHr\x12\x91\x02\x02cr\x00\x01\x51\x02\x04ac\x01" \
        b"\x01\x30\x00\x5a\x03\x02\x01a/b0xy"
    try:
        def application(llc):
            try:
                if app == "sock":
                    sk = nfc.llcp.Socket(llc, nfc.llcp.DATA_LINK_CONNECTION)
                    sk.setsockopt(nfc.llcp.SO_RCVBUF, case["rw"])
                    try:
                        sk.connect("urn:nfc:sn:peer" if case["by_name"]
                                   else 35)
                        stats["connected"] += 1
                        for op, pause in case["ops"]:
                            if pause:
                                s.sleep(pause)
                            if op == "send":
                                if not sk.send(b"hi"):
                                    break
                            else:
                                if sk.recv() is None:
                                    break
                                stats["recvd"] += 1
                    finally:
                        sk.close()
                elif app.startswith("ho"):
                    c = nfc.handover.HandoverClient(llc)
                    c.connect(recv_miu=128, recv_buf=case["rw"])
                    stats["connected"] += 1
                    c.send_octets(request)
                    if app == "ho-octets":
                        out["r"] = c.recv_octets(timeout=1.0)
                    else:
                        out["r"] = c.recv_records(timeout=1.0)
                    c.close()
                else:
                    c = nfc.snep.SnepClient(llc, 1000)
                    c.connect("urn:nfc:sn:snep")
                    stats["connected"] += 1
                    if app == "snep-put":
                        out["r"] = c.put_octets(b"\xd1\x01\x03T\x02en" * 30)
                    else:
                        out["r"] = c.get_octets(b"\xd0\x00\x00", timeout=1.0)
                    c.close()
            except nfc.snep.SnepError as e:
                out["r"] = ("SnepError", e.errno)
            except nfc.llcp.Error as e:
                out["r"] = ("llcp.Error", e.errno)
            except (vsched.Abort, vsched.StepBudget):
                raise
            except BaseException as e:
                out["exc"] = e

        def dut_thread():
            try:
                out["ret"] = dut.connect(llcp={
                    "role": case["role"], "miu": 248, "lto": 100,
                    "agf": case["dut_agf"], "brs": 0,
                    "on-connect": lambda llc: s.spawn(
                        lambda: application(llc), "dut:app") and True})
            except (vsched.Abort, vsched.StepBudget):
                raise
            except BaseException as e:
                out["exc-connect"] = e
            out["done"] = True

        def reactive_peer(exchange, rcvd=None):
            """exchange(frame) -> the DUT's next frame or None; rcvd is what
            the DUT has sent already (it speaks first as initiator)"""
            conn = {}
            todo = []           # frames still to send: lists of PDU sketches
            ns = [0]

            def build(frame):
                pdus = []
                for kind in frame:
                    p = {"dsap": conn["dut"], "ssap": conn["me"]}
                    if kind == "cc":
                        p.update(type="CC", miu=128, rw=case["peer_rw"])
                    elif kind == "i":
                        k = stats["i_sent"]
                        stats["i_sent"] += 1
                        p.update(type="I", ns=ns[0], nr=conn["nr"],
                                 data=pieces[k] if k < len(pieces) else b"+")
                        ns[0] = (ns[0] + 1) % 16
                    elif kind in ("rr", "rnr"):
                        p.update(type=kind.upper(), nr=conn["nr"])
                    else:
                        p.update(type="DM", reason=0)
                    pdus.append(p)
                if not pdus:
                    return b"\x00\x00"
                if len(pdus) == 1:
                    return ref_llcp.encode(pdus[0])
                return ref_llcp.encode({"type": "AGF", "dsap": 0, "ssap": 0,
                                        "pdus": pdus})

            def react(r):
                try:
                    p = ref_llcp.decode(bytes(r))
                except ref_llcp.RefReject:
                    return
                for q in p["pdus"] if p["type"] == "AGF" else [p]:
                    if q["type"] == "CONNECT" and not conn:
                        conn.update(dut=q["ssap"], nr=0, me=q["dsap"]
                                    if q["dsap"] != 1 else 20)
                        todo.append(["cc"])
                        for kind, k, agf in case["steps"]:
                            if kind == "burst":
                                stats["max_run"] = max(stats["max_run"], k)
                                if agf:
                                    todo.append(["i"] * k)
                                else:
                                    todo.extend(["i"] for _ in range(k))
                            elif kind == "symm":
                                todo.extend([] for _ in range(k))
                            else:
                                todo.append([kind])
                        if case["cc_with"] and len(todo) > 1:
                            todo[0:2] = [todo[0] + todo[1]]
                    elif q["type"] == "I" and conn:
                        conn["nr"] = (q["ns"] + 1) % 16
                    elif q["type"] == "DISC" and conn:
                        todo.insert(0, ["dm"])
            idle = 0
            if rcvd is not None:
                react(rcvd)
            for _ in range(80):
                if case["lag"]:
                    s.sleep(case["lag"])    # the time a real exchange takes
                r = exchange(build(todo.pop(0)) if todo else b"\x00\x00")
                if r is None:
                    return False
                react(r)
                if conn and not todo:
                    idle += 1
                    if idle > 4:
                        return True
            return True

        def peer_thread():
            try:
                if case["role"] == "target":
                    mac = nfc.dep.Initiator(peer)
                    if mac.activate(gbi=GB_OK, brs=0, acm=False) is None:
                        return
                    if reactive_peer(lambda f: mac.exchange(f, 1.0)) and \
                            case["end"] == "disc":
                        mac.exchange(b"\x01\x40", 1.0)
                        mac.deactivate(release=False)
                else:
                    mac = nfc.dep.Target(peer)
                    if mac.activate(timeout=2.0, gbt=GB_OK) is None:
                        return
                    first = mac.exchange(None, 1.0)
                    if first is not None and reactive_peer(
                            lambda f: mac.exchange(f, 1.0), first) and \
                            case["end"] == "disc":
                        mac.exchange(b"\x01\x40", 1.0)
            except nfc.clf.CommunicationError:
                pass
        s.spawn(dut_thread, "dut:connect")
        s.spawn(peer_thread, "peer")
        s.run_until(lambda: out.get("done"), 60.0)
        s.sleep(3.0)
        s.settle()
        blocked = [repr(t) for t in s.blocked() if t.name.startswith("dut")]
        alive = [t.name for t in s.alive() if t.name.startswith("dut")]
        failures = [(n, e) for n, e in s.failures()]
        deadlock = s.deadlock
    except vsched.StepBudget:
        raise Violation("livelock", "step budget exhausted")
    finally:
        s.shutdown()
        vsched.activate(None)
    ctx.set_class(overrun_class(case))
    if "exc-connect" in out:
        raise unexpected(out["exc-connect"], "connect-raises")
    if "exc" in out:
        raise unexpected(out["exc"], "client-raises", detail="%s rw=%d: %r" % (
            app, case["rw"], case["steps"]))
    for n, e in failures:
        if n != "peer":
            raise unexpected(e, "thread-died", detail=n)
        raise e     # the harness' own peer must not fail
    if not out.get("done"):
        raise Violation("connect-did-not-return",
                        "blocked %r deadlock %r" % (blocked, deadlock))
    if alive:
        raise Violation("thread-left-blocked", "%r %r" % (alive, blocked))
    ctx.label("app:" + app)
    if stats["connected"]:
        ctx.label("connected")
        if stats["max_run"] > max(case["rw"], 0) and \
                stats["i_sent"] > case["rw"]:
            ctx.label("window-overrun")
            ctx.nontrivial()
    ctx.note({"app": app, "rw": case["rw"], "i_pdus_sent": stats["i_sent"],
              "received": stats["recvd"], "result": repr(out.get("r"))[:60],
              "ret": repr(out.get("ret"))})


# -------------------------------------------------------------- leg: react
# A hostile peer that LISTENS: it reads what the device under test sends -
# the transaction ids of its SDREQs, the SAPs of its CONNECT PDUs, the
# sequence numbers of its I PDUs - and builds its frames from those values:
# answers that are right, doubled, contradictory or off by one.  The steps of
# a case are templates; they are rendered when they are sent.
REACT_CONNS = ["out", "out", "out", "out0", "in", "snep"]


def react_step():
    conn = st.sampled_from(REACT_CONNS)
    delta = st.sampled_from([0, 0, 0, 0, 1, 15, 2, 5])
    tidsel = st.tuples(st.sampled_from(["last", "last", "last", "first",
                                        "lit"]),
                       st.sampled_from([0, 0, 0, 0, 1, 255, 7]))
    sap = st.sampled_from([35, 35, 20, 0, 1, 4, 16, 63, 0x41, 0x60, 255])
    sdres = st.lists(st.tuples(tidsel, sap).map(
        lambda t: [t[0][0], t[0][1], t[1]]), min_size=1, max_size=3)
    sdreq = st.lists(st.tuples(st.integers(0, 255), st.sampled_from([
        b"urn:nfc:sn:echo", b"urn:nfc:sn:snep", b"urn:nfc:sn:sdp",
        b"urn:nfc:sn:none", b"", b"x"])).map(list), max_size=2)
    one = st.one_of(
        st.tuples(st.just("snl"), sdres, sdreq),
        st.tuples(st.just("snl"), sdres, st.just([])),
        st.tuples(st.just("cc"), conn, st.sampled_from([128, 128, 130, 2175]),
                  st.integers(0, 15)),
        st.tuples(st.just("cc"), conn, st.just(128), st.just(1)),
        st.tuples(st.just("dm"), conn, st.sampled_from([0, 1, 2, 3, 0x10,
                                                        0x20, 0x21, 255])),
        st.tuples(st.just("disc"), conn),
        st.tuples(st.just("frmr"), conn, st.integers(0, 15)),
        st.tuples(st.sampled_from(["rr", "rr", "rnr"]), conn, delta),
        st.tuples(st.just("i"), conn, delta, delta,
                  st.sampled_from([0, 1, 2, 5, 128, 129])),
        st.tuples(st.just("i"), conn, st.just(0), st.just(0),
                  st.sampled_from([1, 2, 5])),
        st.tuples(st.just("ui"), conn, st.integers(0, 8)),
        st.tuples(st.just("connect"), st.sampled_from(["in", "snep", "out"]),
                  st.sampled_from([128, 2175]), st.integers(0, 15),
                  st.sampled_from([None, None, b"urn:nfc:sn:echo",
                                   b"urn:nfc:sn:none", b"urn:nfc:sn:sdp"])),
        st.just(("symm",)))
    agf = st.lists(one, min_size=2, max_size=4).map(lambda q: ("agf", q))
    return st.one_of(one, one, one, agf).map(
        lambda t: [list(x) if isinstance(x, tuple) else x for x in t])


@st.composite
def react_case(draw):
    steps = draw(st.lists(react_step(), min_size=1, max_size=12))
    # often the DUT's connection requests are granted first so that the
    # later templates meet established connections
    steps = draw(st.sampled_from([[], [], [["cc", "out", 128, 2]], [
        ["cc", "out0", 128, 1], ["cc", "out", 128, 1]]])) + steps
    return {"steps": steps,
            "warmup": draw(st.integers(0, 2)),
            "repeat": draw(st.sampled_from([0, 0, 1, 2])),
            "role": draw(st.sampled_from(["target", "target", "initiator"])),
            "dut_agf": draw(st.booleans()),
            "miu": draw(st.sampled_from([128, 248, 248, 1024])),
            "lag": draw(st.sampled_from(LAGS)),
            "end": draw(st.sampled_from(["disc", "silence"])),
            "choices": draw(st.lists(st.integers(0, 3), max_size=8)),
            "seed": draw(st.integers(0, 255))}


def react_services(llc, sched, notes):
    """clients and servers on the device under test whose requests carry the
    values the peer plays with"""
    DLC = nfc.llcp.DATA_LINK_CONNECTION

    def guard(fn):
        def body():
            try:
                fn()
            except nfc.llcp.Error:
                pass
        return body

    def talk(sk, dest):
        try:
            sk.connect(dest)
            notes.append("connected")
            for i in range(3):
                if not sk.send(b"hi %d" % i):
                    break
                if sk.recv() is None:
                    break
        finally:
            sk.close()

    def ldl():
        sk = nfc.llcp.Socket(llc, nfc.llcp.LOGICAL_DATA_LINK)
        sk.bind(33)
        while sk.recvfrom()[0] is not None:
            pass

    def listener():
        sk = nfc.llcp.Socket(llc, DLC)
        sk.setsockopt(nfc.llcp.SO_RCVBUF, 2)
        sk.bind("urn:nfc:sn:echo")
        sk.listen(2)
        while True:
            c = sk.accept()
            notes.append("accepted")
            sched.spawn(guard(lambda c=c: echo(c)), "dut:echo")

    def echo(c):
        while True:
            d = c.recv()
            if d is None:
                break
            c.send(d)
        c.close()

    def connector():
        sk = nfc.llcp.Socket(llc, DLC)
        sk.bind(32)
        talk(sk, 35)

    def connector_by_name():
        talk(nfc.llcp.Socket(llc, DLC), "urn:nfc:sn:peer-svc")

    def resolver(name):
        def body():
            addr = llc.resolve(name)
            if addr:
                notes.append("resolved")
                talk(nfc.llcp.Socket(llc, DLC), addr)
            # a second lookup of the same name and of another one
            llc.resolve(name)
            llc.resolve(name + "-2")
        return body
    nfc.snep.SnepServer(llc).start()
    for fn, name in ((ldl, "ldl"), (listener, "listener"),
                     (connector, "connector"),
                     (resolver("urn:nfc:sn:peer"), "resolver-a"),
                     (resolver("urn:nfc:sn:other"), "resolver-b"),
                     (connector_by_name, "by-name")):
        sched.spawn(guard(fn), "dut:" + name)


class ReactPeer(object):
    """what the peer has seen and its own sequence state"""

    def __init__(self):
        self.tids = []          # transaction ids of the DUT's SDREQs
        self.conns = []         # (dut sap, my sap) of the DUT's CONNECTs
        self.vs = {}            # (dut, me) -> my next N(S)
        self.vr = {}            # (dut, me) -> N(S) I expect next from the DUT
        self.used = 0           # templates rendered with an observed value
        self.kinds = set()

    def observe(self, frame):
        try:
            p = ref_llcp.decode(bytes(frame))
        except ref_llcp.RefReject:
            return
        for q in p["pdus"] if p["type"] == "AGF" else [p]:
            if q["type"] == "SNL":
                self.tids.extend(tid for tid, name in q["sdreq"])
            elif q["type"] == "CONNECT":
                me = q["dsap"] if q["dsap"] != 1 else 20
                self.conns.append((q["ssap"], me))
            elif q["type"] == "I":
                self.vr[(q["ssap"], q["dsap"])] = (q["ns"] + 1) % 16

    def pair(self, conn):
        if conn == "in":
            return (16, 36)
        if conn == "snep":
            return (4, 37)
        if not self.conns:
            return (32, 35)
        self.used += 1
        self.kinds.add("connect-saps")
        return self.conns[0] if conn == "out0" else self.conns[-1]

    def render(self, t):
        k = t[0]
        if k == "symm":
            return {"type": "SYMM", "dsap": 0, "ssap": 0}
        if k == "agf":
            return {"type": "AGF", "dsap": 0, "ssap": 0,
                    "pdus": [self.render(q) for q in t[1] if q[0] != "agf"]}
        if k == "snl":
            sdres = []
            for sel, d, sap in t[1]:
                if sel == "lit" or not self.tids:
                    tid = d
                else:
                    tid = (self.tids[-1] if sel == "last" else self.tids[0])
                    tid = (tid + d) & 255
                    self.used += 1
                    self.kinds.add("sdres-tid")
                sdres.append([tid, sap])
            return {"type": "SNL", "dsap": 1, "ssap": 1, "sdres": sdres,
                    "sdreq": [[tid, bytes(n)] for tid, n in t[2]]}
        dut, me = self.pair(t[1])
        p = {"dsap": dut, "ssap": me}
        if k == "cc":
            p.update(type="CC", miu=t[2], rw=t[3])
        elif k == "dm":
            p.update(type="DM", reason=t[2])
        elif k == "disc":
            p.update(type="DISC")
        elif k == "frmr":
            p.update(type="FRMR", flags=t[2], ptype=12, ns=0, nr=0, vs=0,
                     vr=0, vsa=0, vra=0)
        elif k in ("rr", "rnr"):
            if (dut, me) in self.vr:
                self.used += 1
                self.kinds.add("ack")
            p.update(type=k.upper(),
                     nr=(self.vr.get((dut, me), 0) + t[2]) & 15)
        elif k == "i":
            vs = self.vs.get((dut, me), 0)
            if t[2] == 0:
                self.vs[(dut, me)] = (vs + 1) % 16
            if (dut, me) in self.vr:
                self.used += 1
                self.kinds.add("ack")
            p.update(type="I", ns=(vs + t[2]) & 15,
                     nr=(self.vr.get((dut, me), 0) + t[3]) & 15,
                     data=bytes(i & 0xFF for i in range(t[4])))
        elif k == "ui":
            p.update(type="UI", data=b"u" * t[2])
        elif k == "connect":
            if t[4]:
                p["dsap"] = 1
            p.update(type="CONNECT", miu=t[2], rw=t[3],
                     sn=bytes(t[4]) if t[4] else None)
        else:
            raise ValueError("template %r" % (t,))
        return p


def run_react(case, ctx):
    s = vsched.Sched(case["choices"], seed=case["seed"], step_budget=400000)
    vsched.activate(s)
    air = simdev.Air()
    dut = simdev.frontend(air, "dut")
    peer = simdev.frontend(air, "peer")
    out, notes = {}, []
    rp = ReactPeer()
    stats = {"answered": 0, "sent": 0}
    try:
        def dut_thread():
            try:
                out["ret"] = dut.connect(llcp={
                    "role": case["role"], "miu": case["miu"], "lto": 100,
                    "agf": case["dut_agf"], "brs": 0,
                    "on-connect": lambda llc: react_services(llc, s, notes)
                    or True})
            except (vsched.Abort, vsched.StepBudget):
                raise
            except BaseException as e:
                out["exc"] = e
            out["done"] = True

        def converse(exchange, first=None):
            if first is not None:
                rp.observe(first)
            steps = [["symm"]] * case["warmup"] + list(case["steps"])
            steps += list(case["steps"]) * case["repeat"]
            for t in steps + [["symm"]] * 4:
                if case["lag"]:
                    s.sleep(case["lag"])
                used = rp.used
                frame = ref_llcp.encode(rp.render(t))[:case["miu"] + 3]
                stats["sent"] += 1
                r = exchange(frame)
                if r is None:
                    return False
                if rp.used > used:
                    stats["answered"] += 1
                rp.observe(r)
            return True

        def peer_thread():
            try:
                if case["role"] == "target":
                    mac = nfc.dep.Initiator(peer)
                    if mac.activate(gbi=GB_OK, brs=0, acm=False) is None:
                        return
                    if converse(lambda f: mac.exchange(f, 1.0)) and \
                            case["end"] == "disc":
                        mac.exchange(b"\x01\x40", 1.0)
                        mac.deactivate(release=False)
                else:
                    mac = nfc.dep.Target(peer)
                    if mac.activate(timeout=2.0, gbt=GB_OK) is None:
                        return
                    first = mac.exchange(None, 1.0)
                    if first is not None and converse(
                            lambda f: mac.exchange(f, 1.0), first) and \
                            case["end"] == "disc":
                        mac.exchange(b"\x01\x40", 1.0)
            except nfc.clf.CommunicationError:
                pass
        s.spawn(dut_thread, "dut:connect")
        s.spawn(peer_thread, "peer")
        s.run_until(lambda: out.get("done"), 60.0)
        s.sleep(3.0)
        s.settle()
        blocked = [repr(t) for t in s.blocked() if t.name.startswith("dut")]
        alive = [t.name for t in s.alive() if t.name.startswith("dut")
                 or t.name.startswith("urn:")]
        failures = [(n, e) for n, e in s.failures()]
        deadlock = s.deadlock
    except vsched.StepBudget:
        raise Violation("livelock", "step budget exhausted")
    finally:
        s.shutdown()
        vsched.activate(None)
    ctx.set_class("react")
    if "exc" in out:
        raise unexpected(out["exc"], "connect-raises")
    for n, e in failures:
        if n != "peer":
            raise unexpected(e, "thread-died", detail=n)
        raise e     # the harness' own peer must not fail
    if not out.get("done"):
        raise Violation("connect-did-not-return",
                        "blocked %r deadlock %r" % (blocked, deadlock))
    if alive:
        raise Violation("thread-left-blocked", "%r %r" % (alive, blocked))
    for k in sorted(rp.kinds):
        ctx.label("uses:" + k)
    if stats["answered"]:
        ctx.nontrivial()
    ctx.note({"frames": stats["sent"], "reactive_answered": stats["answered"],
              "tids_seen": rp.tids[:4], "connects_seen": rp.conns[:4],
              "notes": notes[:6], "ret": repr(out.get("ret"))})


# --------------------------------------------------------------- leg: card
class ReaderDev(ScriptDev):
    def __init__(self, first, frames):
        ScriptDev.__init__(self, frames)
        self.first = first
        self.visits = 1

    def listen_ttf(self, target, timeout):
        self._call("listen_ttf")
        if self.visits > 0:
            self.visits -= 1
            t = nfc.clf.LocalTarget(target.brty)
            t.sensf_res = bytearray(target.sensf_res)
            t.tt3_cmd = bytearray(self.first[1:])
            return t
        vsched.current().sleep(min(timeout, 0.2))
        return None

    def _next(self):
        if not self.frames:
            raise nfc.clf.BrokenLinkError("reader switched its field off")
        return ScriptDev._next(self)


def run_card(case, ctx):
    s = vsched.Sched([], seed=1)
    vsched.activate(s)
    out = {}
    try:
        cmds = [bytes(c) for c in case["cmds"]]
        first = cmds[0] if cmds and len(cmds[0]) > 1 else b"\x0a\x04" + IDM
        dev = ReaderDev(first, cmds[1:])
        clf = nfc.clf.ContactlessFrontend()
        clf.device = dev
        n = {"k": 0}

        def terminate():
            n["k"] += 1
            return n["k"] > 30

        def startup(target):
            target.brty = "212F"
            target.sensf_res = bytearray(
                b"\x01" + IDM + bytes.fromhex("0177FFFFFFFFFFFF") + b"\x12\xFC")
            return target

        def on_connect(tag):
            data = bytearray(16 * 4)
            tag.add_service(0x0009, lambda b, rb, re: data[b * 16:b * 16 + 16]
                            if b < 4 else None,
                            lambda b, d, wb, we: b < 4)
            tag.add_service(0x000B, lambda b, rb, re: data[b * 16:b * 16 + 16]
                            if b < 4 else None, lambda *a: False)
            return True
        try:
            out["ret"] = clf.connect(card={"on-startup": startup,
                                           "on-connect": on_connect},
                                     terminate=terminate)
        except vsched.StepBudget:
            raise Violation("unbounded-exchanges", "card loop")
        except Exception as e:
            raise unexpected(e, "connect-raises")
        ctx.set_class("card")
        if len(dev.sent) >= 1:
            ctx.nontrivial()
        ctx.note({"responses": len(dev.sent), "ret": repr(out["ret"])})
    finally:
        s.shutdown()
        vsched.activate(None)


# ------------------------------------------------- legs: t3lists / t3gram
# Grammar of the commands an emulated Type 3 Tag receives.  A command is a
# *spec* (JSON) that t3_build() renders to bytes:
#
#   {"code": 6|8, "idm": "ok"|"wrong"|"zero", "svcs": [service codes],
#    "elems": [[fmt(2|3), access mode, service list index, block number]..],
#    "data": bytes that follow the block list (block data of a write),
#    "nsvc": None|n, "nblk": None|n   (count bytes that disagree with lists),
#    "cut": None|n (frame cut to n bytes, length byte follows the cut),
#    "lend": 0|d  (length byte off by d)}
#   {"code": other, "idm": .., "raw": bytes, "cut": .., "lend": ..}
#
# The emulated tag (t3_add_services) offers three services over callbacks
# that serve a bounded number of blocks:
#   0009h read/write, *nblocks* blocks      000Bh the same blocks, read only
#   1009h read/write, nblocks + 4 blocks
T3_SVC = (0x0009, 0x000B, 0x1009)
T3_SVC_UNKNOWN = (0x4321, 0xFFFF, 0x0109)
T3_SYS = b"\x12\xFC"
T3_SENSF = b"\x01" + IDM + bytes.fromhex("0177FFFFFFFFFFFF") + T3_SYS


def t3_blocks(code, nblocks):
    """number of blocks the callbacks of service *code* serve"""
    if code in (0x0009, 0x000B):
        return nblocks
    if code == 0x1009:
        return nblocks + 4
    return 0


def t3_add_services(tag, nblocks):
    mem = {0x0009: bytearray(16 * nblocks),
           0x1009: bytearray(16 * (nblocks + 4))}
    mem[0x000B] = mem[0x0009]

    def reader(code):
        def rd(n, rb, re):
            if n < t3_blocks(code, nblocks):
                return mem[code][n * 16:n * 16 + 16]
        return rd

    def writer(code):
        def wr(n, d, wb, we):
            if n < t3_blocks(code, nblocks) and len(d) == 16:
                mem[code][n * 16:n * 16 + 16] = d
                return True
            return False
        return wr
    tag.add_service(0x0009, reader(0x0009), writer(0x0009))
    tag.add_service(0x000B, reader(0x000B), None)
    tag.add_service(0x1009, reader(0x1009), writer(0x1009))


def t3_idm(spec):
    return {"ok": IDM, "zero": bytes(8)}.get(spec.get("idm", "ok"),
                                             IDM[:7] + b"\x07")


def t3_build(spec):
    """render a command spec to the bytes the reader sends"""
    code = spec["code"]
    if code in (0x06, 0x08) and "svcs" in spec:
        svcs, elems = spec["svcs"], spec["elems"]
        body = bytearray()
        body.append(len(svcs) if spec.get("nsvc") is None else spec["nsvc"])
        for sc in svcs:
            body += struct.pack("<H", sc)
        body.append(len(elems) if spec.get("nblk") is None else spec["nblk"])
        for fmt, am, idx, blk in elems:
            if fmt == 2:
                body += bytes([0x80 | (am & 7) << 4 | idx & 15, blk & 0xFF])
            else:
                body += bytes([(am & 7) << 4 | idx & 15]) \
                    + struct.pack("<H", blk & 0xFFFF)
        body += bytes((7 * k + 1) & 0xFF for k in range(spec.get("data", 0)))
        frame = bytes([code]) + t3_idm(spec) + bytes(body)
    elif code == 0x00:
        frame = bytes([code]) + bytes(spec.get("raw", b""))
    else:
        frame = bytes([code]) + t3_idm(spec) + bytes(spec.get("raw", b""))
    frame = frame[:254]
    if spec.get("cut") is not None:
        frame = frame[:spec["cut"]]
    return bytes([(len(frame) + 1 + spec.get("lend", 0)) & 0xFF]) + frame


def t3_room(spec):
    """bytes of block data that fit into the frame behind the block list"""
    used = 12 + 2 * len(spec["svcs"]) + sum(e[0] for e in spec["elems"])
    return max(0, 255 - used)


def t3_first_bad(spec, nblocks):
    """(position, kind) of the first block list element the tag can not
    serve, None when all can be served, "n/a" when the command is not a
    complete Read/Write command to this tag with registered services"""
    if spec["code"] not in (0x06, 0x08) or "svcs" not in spec:
        return "n/a"
    if (spec.get("idm", "ok") != "ok" or spec.get("cut") is not None
            or spec.get("lend", 0) or spec.get("nsvc") is not None
            or spec.get("nblk") is not None):
        return "n/a"
    if any(sc not in T3_SVC for sc in spec["svcs"]):
        return "n/a"
    if len(t3_build(spec)) != 12 + 2 * len(spec["svcs"]) + sum(
            e[0] for e in spec["elems"]) + spec.get("data", 0):
        return "n/a"    # did not fit into one frame
    for pos, (fmt, am, idx, blk) in enumerate(spec["elems"]):
        if idx >= len(spec["svcs"]):
            return [pos, "idx"]
        sc = spec["svcs"][idx]
        if blk >= t3_blocks(sc, nblocks):
            return [pos, "blk"]
        if spec["code"] == 0x08 and sc == 0x000B:
            return [pos, "ro"]
    return None


def t3_check(cmd, rsp, spec, nblocks, ctx, where):
    """one command, one answer: a response frame or None (ignored)"""
    if rsp is None:
        ctx.label(where + ":ignored")
        return False
    if not isinstance(rsp, (bytes, bytearray)):
        raise Violation("process_command-result-type", repr(rsp))
    rsp = bytes(rsp)
    detail = "%s: %s -> %s" % (where, cmd.hex(), rsp.hex())
    if len(rsp) < 2 or len(rsp) != rsp[0]:
        raise Violation("response-length-byte-wrong", detail)
    if len(cmd) < 2 or rsp[1] != cmd[1] + 1:
        raise Violation("response-code-does-not-answer-command", detail)
    if rsp[1] != 0x01 and rsp[2:10] != IDM:
        raise Violation("response-without-idm", detail)
    bad = t3_first_bad(spec, nblocks)
    if rsp[1] in (0x07, 0x09):
        if len(rsp) < 12:
            raise Violation("response-without-status-flags", detail)
        ctx.label("%s:%02x/status=%02x%02x" % (where, rsp[1], rsp[10]
                                                 and 1, rsp[11]))
        if isinstance(bad, list) and rsp[10] == 0:
            # "malformed input is answered with a protocol error, an
            # ignored command or an orderly link termination"
            raise Violation("unservable-command-answered-with-success",
                            "first bad element %r; %s" % (bad, detail))
    if isinstance(bad, list):
        ctx.label("first-bad=%s@%s" % (bad[1], "0-7" if bad[0] < 8 else "8+"))
    return rsp[1] in (0x07, 0x09) and len(spec.get("elems", ())) >= 2


class T3Reader(ReaderDev):
    """scripted reader that keeps every answer of the emulation (None =
    the command was ignored) next to the command it answers"""

    def __init__(self, first, frames):
        ReaderDev.__init__(self, first, frames)
        self.answers = []

    def send_rsp_recv_cmd(self, target, data, timeout):
        self._call("send_rsp_recv_cmd")
        self.answers.append(None if data is None else bytes(data))
        return self._next()


def t3_session_direct(cmds, specs, nblocks, ctx):
    t = nfc.clf.LocalTarget("212F")
    t.sensf_res = bytearray(T3_SENSF)
    t.tt3_cmd = bytearray(b"\x04" + IDM)
    emu = nfc.tag.emulate(None, t)
    t3_add_services(emu, nblocks)
    nt = False
    for c, spec in zip(cmds, specs):
        try:
            r = emu.process_command(bytearray(c))
        except Exception as e:
            raise unexpected(e, "process_command-raises",
                             detail="cmd=%s" % c.hex())
        nt |= t3_check(c, r, spec, nblocks, ctx, "direct")
    return nt


def t3_session_card(cmds, specs, nblocks, ctx):
    s = vsched.Sched([], seed=1)
    vsched.activate(s)
    try:
        if len(cmds[0]) < 2:
            # nothing to activate the emulation with: a Request Response
            # command comes first
            cmds = [b"\x0a\x04" + IDM] + cmds
            specs = [{"code": 0x04, "raw": b""}] + specs
        else:
            # the driver hands the first command over without its length
            # byte, the emulation restores it
            cmds = [bytes([len(cmds[0])]) + cmds[0][1:]] + cmds[1:]
        dev = T3Reader(cmds[0], cmds[1:])
        clf = nfc.clf.ContactlessFrontend()
        clf.device = dev
        n = {"k": 0}

        def terminate():
            n["k"] += 1
            return n["k"] > 60

        def startup(target):
            target.brty = "212F"
            target.sensf_res = bytearray(T3_SENSF)
            return target

        def on_connect(tag):
            t3_add_services(tag, nblocks)
            return True
        try:
            ret = clf.connect(card={"on-startup": startup,
                                    "on-connect": on_connect},
                              terminate=terminate)
        except vsched.StepBudget:
            raise Violation("unbounded-exchanges", "card loop")
        except Exception as e:
            raise unexpected(e, "connect-raises")
        if ret is not True:
            raise Violation("connect-result", "the reader left the field "
                            "after %d commands, connect() returned %r"
                            % (len(cmds), ret))
        if dev.frames or len(dev.answers) != len(cmds):
            raise Violation("command-not-handled", "%d commands, %d answered "
                            "or ignored" % (len(cmds), len(dev.answers)))
        nt = False
        for c, spec, r in zip(cmds, specs, dev.answers):
            nt |= t3_check(c, r, spec, nblocks, ctx, "card")
        if s.failures():
            raise Violation("thread-died", repr(s.failures())[:300])
        return nt
    finally:
        s.shutdown()
        vsched.activate(None)


def run_t3gram(case, ctx):
    specs = [dict(sp) for sp in case["cmds"]]
    cmds = [t3_build(sp) for sp in specs]
    ctx.set_class("t3cmd/" + case["via"])
    if case["via"] == "card":
        nt = t3_session_card(cmds, specs, case["nblocks"], ctx)
    else:
        nt = t3_session_direct(cmds, specs, case["nblocks"], ctx)
    if nt:
        ctx.nontrivial()
    ctx.note({"cmds": [c.hex()[:80] for c in cmds[:3]],
              "first_bad": [t3_first_bad(sp, case["nblocks"])
                            for sp in specs[:6]]})


def t3_list_spec(code, svcs, fmt, n, p, kind, nblocks, data=None):
    """Read/Write command with *n* block list elements that can all be
    served except the one at position *p* (None: all can be served): kind
    "idx" = service list index beyond the service list, "blk" = a block the
    callbacks do not serve.  fmt 2 / 3 = element size, "mix" alternates."""
    elems = []
    for j in range(n):
        f = fmt if fmt != "mix" else (2, 3)[j % 2]
        svi = j % len(svcs)
        if code == 0x08 and svcs[svi] == 0x000B:
            svi = 0
        blk = j % t3_blocks(svcs[svi], nblocks)
        if j == p and kind == "idx":
            svi = len(svcs) if j % 2 else 15
        elif j == p:
            blk = (t3_blocks(svcs[svi], nblocks) + j if f == 2 or j % 3
                   else 0x100 + j)
        elems.append([f, 0, svi, blk])
    spec = {"code": code, "idm": "ok", "svcs": list(svcs), "elems": elems}
    if code == 0x08:
        spec["data"] = min(16 * n if data is None else data, t3_room(spec))
    return spec


def enum_t3lists(tier, seed):
    """bounded exhaustive: command x service list x element format x list
    length x position of the first unservable element x kind of defect"""
    nblocks = 6
    svc_lists = ([0x0009], [0x0009, 0x1009],
                 [T3_SVC[k % 3] for k in range(16)])
    for code in (0x06, 0x08):
        for svcs in svc_lists:
            for fmt in (2, 3, "mix"):
                for n in range(1, 18):
                    kinds = ["blk"] if len(svcs) == 16 else ["idx", "blk"]
                    for kind in kinds:
                        specs = [t3_list_spec(code, svcs, fmt, n, p, kind,
                                              nblocks) for p in range(n)]
                        specs.append(t3_list_spec(code, svcs, fmt, n, None,
                                                  None, nblocks))
                        for sp in specs:
                            yield {"via": "direct", "nblocks": nblocks,
                                   "cmds": [sp]}
                        # one reader session asks with the defect at every
                        # position, first to last and last to first (the
                        # first command arrives with the activation)
                        yield {"via": "card", "nblocks": nblocks,
                               "cmds": specs}
                        yield {"via": "card", "nblocks": nblocks,
                               "cmds": specs[::-1]}
    # block data of a write: one block short / long, not a multiple of 16
    for n in range(1, 14):
        for p, kind in ((None, None), (n - 1, "blk"), (n - 1, "idx")):
            specs = [t3_list_spec(0x08, [0x0009, 0x1009], "mix", n, p, kind,
                                  nblocks, data=max(0, 16 * n + d))
                     for d in (-17, -16, -1, 1, 16)]
            yield {"via": "direct", "nblocks": nblocks, "cmds": specs}
            yield {"via": "card", "nblocks": nblocks, "cmds": specs}
    # every command cut at every byte (the length byte follows the cut), the
    # IDm of another tag, the length byte off by one
    for code, n in ((0x06, 15), (0x08, 12)):
        for p, kind in ((None, None), (9, "idx"), (n - 1, "blk")):
            full = t3_list_spec(code, [0x0009, 0x1009], "mix", n, p, kind,
                                nblocks)
            size = len(t3_build(full)) - 1
            variants = [dict(full, cut=k) for k in range(size)]
            variants += [dict(full, idm="wrong"), dict(full, idm="zero"),
                         dict(full, lend=1), dict(full, lend=-1),
                         dict(full, nblk=n + 1), dict(full, nblk=n - 1),
                         dict(full, nsvc=1), dict(full, nsvc=3)]
            for k in range(0, len(variants), 12):
                for via in ("direct", "card"):
                    yield {"via": via, "nblocks": nblocks,
                           "cmds": variants[k:k + 12] + [full]}


# the strategies are built once; everything else is derived from the drawn
# numbers so that generating a case stays cheap
T3G = {
    "code": st.sampled_from([0x06] * 6 + [0x08] * 6 + [0x04, 0x0C, 0x00, 0x02,
                                                       0xFF]),
    # at most one framing defect per command, most commands have none
    "defect": st.sampled_from([None] * 7 + ["cut", "idm", "lend", "nsvc",
                                            "nblk"]),
    "cut": st.one_of(st.integers(0, 40), st.integers(0, 254)),
    "pick": st.integers(0, 0xFFFF),
    "raw": st.one_of(st.just(b""), st.just(T3_SYS + b"\x01\x00"),
                     st.just(b"\xFF\xFF\x00\x00"), st.binary(max_size=8)),
    "nsvc": st.sampled_from([1, 1, 1, 2, 2, 3, 4, 8, 15, 16, 0]),
    "n": st.one_of(st.integers(1, 15), st.integers(1, 13),
                   st.integers(0, 20)),
    "pkind": st.sampled_from(["idx", "blk"]),
    # one byte of entropy per service list entry, four per element
    "ent": st.binary(min_size=96, max_size=96),
    "delta": st.sampled_from([0] * 12 + [-16, -1, 1, 15, 16, 32, -999]),
    "junk": st.sampled_from([0] * 9 + [1, 16]),
    "nblocks": st.sampled_from([1, 2, 4, 6, 10, 13, 16, 20]),
    "via": st.sampled_from(["direct", "card"]),
    "ncmds": st.integers(1, 5),
    "odd": st.sampled_from([False] * 11 + [True]),
}


def t3gram_cmd(draw, nblocks):
    code = draw(T3G["code"])
    defect = draw(T3G["defect"])
    pick = draw(T3G["pick"]) if defect else 0
    spec = {"code": code, "idm": "ok", "cut": None, "lend": 0}
    if defect == "idm":
        spec["idm"] = ("wrong", "zero")[pick % 2]
    elif defect == "cut":
        spec["cut"] = draw(T3G["cut"])
    elif defect == "lend":
        spec["lend"] = (1, -1)[pick % 2]
    if code not in (0x06, 0x08):
        spec["raw"] = draw(T3G["raw"])
        return spec
    nsvc = draw(T3G["nsvc"])
    n = draw(T3G["n"])
    ent = draw(T3G["ent"])
    regd = [sc for sc in T3_SVC if not (code == 0x08 and sc == 0x000B)]
    svcs = [regd[e % len(regd)] for e in ent[80:80 + nsvc]]
    if draw(T3G["odd"]) and nsvc:
        # one entry of the service list is not registered / is read only
        svcs[ent[78] % nsvc] = (T3_SVC_UNKNOWN + (0x000B,))[ent[77] % 4]
    # position of the first element that can not be served, n = none
    where = draw(T3G["pick"])
    p = n if where % 3 == 2 else (where // 3) % (n + 1)
    pkind = draw(T3G["pkind"])
    raw = [((["ok"] * 5 + ["idx", "blk"])[ent[k] % 7],
            (2, 2, 3)[ent[k + 1] % 3],
            ([0] * 6 + [1, 2, 7])[(ent[k + 1] >> 4) % 9],
            ent[k + 2], ent[k + 3]) for k in range(0, 4 * n, 4)]
    elems = []
    for j, (kind, fmt, am, r1, r2) in enumerate(raw):
        kind = "ok" if j < p else kind if j > p else pkind
        if nsvc == 0:
            elems.append([fmt, am, r1 % 16, r2])
            continue
        if kind == "idx" and nsvc < 16:
            elems.append([fmt, am, nsvc + r1 % (16 - nsvc), r2 % nblocks])
            continue
        svi = r1 % nsvc
        have = t3_blocks(svcs[svi], nblocks) or nblocks
        if kind == "ok":
            blk = r2 % have
        elif fmt == 2:
            blk = have + r2 % (256 - have)
        else:
            blk = min(0xFFFF, have + r2 * 257)
        elems.append([fmt, am, svi, blk])
    spec.update(svcs=svcs, elems=elems, nsvc=None, nblk=None)
    if defect == "nsvc":
        spec["nsvc"] = (0, nsvc + 1, max(0, nsvc - 1), 16, 255)[pick % 5]
    elif defect == "nblk":
        spec["nblk"] = (0, n + 1, max(0, n - 1), 15, 16, 255)[pick % 6]
    if code == 0x08:
        want = 16 * n + draw(T3G["delta"])
        spec["data"] = max(0, min(want, t3_room(spec)))
    else:
        spec["data"] = draw(T3G["junk"])
    return spec


@st.composite
def t3gram_case(draw):
    nblocks = draw(T3G["nblocks"])
    return {"via": draw(T3G["via"]), "nblocks": nblocks,
            "cmds": [t3gram_cmd(draw, nblocks)
                     for _ in range(draw(T3G["ncmds"]))]}


LEGS = [
    Leg("pdu", run=run_pdu, gen=c11.gen_bytes, quick=2000, thorough=100000,
        shards_quick=3, shards_thorough=16, nt_floor=0.1,
        rule="C11's byte-string generators (mutated encodings, AGF "
             "constructions, nesting to depth 540, random <= 2200 B); "
             "non-trivial = decoded."),
    Leg("pdu-short", bulk=bulk_pdu_short, exhaustive=True, shards_quick=2,
        shards_thorough=16,
        rule="every byte string of length <= 2 (quick) / <= 3 (thorough)."),
    Leg("dep-ini", run=run_ini, gen=lambda tier: ini_case(), quick=3000,
        thorough=100000, shards_quick=4, shards_thorough=16, nt_floor=0.2,
        rule="scripted target answers (ATR_RES with PP/TO/general-bytes "
             "variants, PSL_RES, up to 7 DEP_RES of every PFB type, DSL/RLS/"
             "junk) each optionally mutated (truncate, empty, byte/bit "
             "change, extension, length byte, missing F0, random, timeout, "
             "CRC error) into a live Initiator; non-trivial = activation "
             "succeeded so the exchange logic was reached."),
    Leg("dep-tgt", run=run_tgt, gen=lambda tier: tgt_case(), quick=3000,
        thorough=100000, shards_quick=4, shards_thorough=16, nt_floor=0.2,
        rule="fuzzed atr_req/dep_req from listen_dep and scripted initiator "
             "requests (INF/MI/ACK/NAK/ATN/RTOX/DSL/RLS/PSL/ATR/wrong DID/"
             "junk, mutated as above) into a live Target; non-trivial = "
             "activation succeeded."),
    Leg("gb", run=run_gb, gen=lambda tier: st.fixed_dictionaries({
        "gb": gb_strategy(), "role": st.sampled_from(["initiator", "target"])}),
        quick=2000, thorough=60000, shards_quick=3, shards_thorough=16,
        nt_floor=0.2,
        rule="general bytes (magic variants, TLV lists with wrong lengths, "
             "truncation, duplicates, unknown types) into llc.activate() in "
             "both roles; non-trivial = correct magic and at least one TLV."),
    Leg("t3emu", run=run_t3emu, gen=lambda tier: st.fixed_dictionaries({
        "cmds": st.lists(t3_cmd_strategy(), min_size=1, max_size=6)}),
        quick=3000, thorough=100000, shards_quick=3, shards_thorough=16,
        nt_floor=0.1,
        rule="mutated Polling/Read/Write/Request commands with truncated "
             "service and block lists into Type3TagEmulation.process_command; "
             "non-trivial = the emulation answered."),
    Leg("card", run=run_card, gen=lambda tier: st.fixed_dictionaries({
        "cmds": st.lists(t3_cmd_strategy(), min_size=1, max_size=6)}),
        quick=1200, thorough=40000, shards_quick=3, shards_thorough=16,
        nt_floor=0.1,
        rule="the same command mutations sent by a scripted reader through "
             "connect(card=...): activation with a fuzzed first command, then "
             "up to 5 commands, then the field goes off; non-trivial = the "
             "emulation sent at least one response."),
    Leg("llc", run=run_llc, gen=lambda tier: llc_case(), quick=500,
        thorough=20000, shards_quick=8, shards_thorough=16, nt_floor=0.3,
        rule="a raw NFC-DEP initiator (real nfc.dep.Initiator on the "
             "simulated medium) sends up to 14 LLC frames - valid PDUs of all "
             "types addressed to the DUT's sockets (LDL bound, DLC listening/"
             "connecting/established, SNEP server, SDP), aggregated, mutated "
             "or random - into a running connect(llcp=...); non-trivial = at "
             "least two frames were answered."),
    Leg("react", run=run_react, gen=lambda tier: react_case(), quick=500,
        thorough=20000, shards_quick=8, shards_thorough=16, nt_floor=0.3,
        rule="a reactive raw NFC-DEP peer (initiator or target) against a "
             "running connect(llcp=...) whose applications look up two "
             "service names (and connect to what was resolved), connect by "
             "SAP and by name, listen and echo.  The peer reads the DUT's "
             "frames and plays 1..12 generated templates (optionally after "
             "granting the DUT's connection requests; whole list repeated up "
             "to twice) rendered from what it has seen: SNL with "
             "1..3 SDRES for the last/first transaction id seen +0/+1/-1 "
             "(the same id twice in one frame and across frames, ids never "
             "asked) and SDREQs, CC / DM / DISC / FRMR / RR / RNR / I / UI / "
             "CONNECT on the connection the DUT opened (SAPs from its "
             "CONNECT; "
             "N(S), N(R) from its own counters and the DUT's I PDUs, right or "
             "off by 1, 2, 5, -1) or on connections to the DUT's listener and "
             "SNEP server, singly or 2..4 in one AGF; ends with DISC or "
             "silence; generated schedule choices and exchange latency.  "
             "non-trivial = at least one frame rendered from an observed "
             "value (transaction id, CONNECT SAPs, sequence number) was "
             "answered by the DUT."),
    Leg("overrun", run=run_overrun, gen=lambda tier: overrun_case(),
        quick=600, thorough=20000, shards_quick=8, shards_thorough=16,
        nt_floor=0.2,
        rule="the DUT (target or initiator of a running connect(llcp=...)) "
             "opens a data link connection as a client - socket.connect() by "
             "SAP or by name with receive window 0..4 and a generated list "
             "of recv()/send() calls with pauses of 0..200 ms, HandoverClient "
             "(recv_octets / recv_records, window 0..4) or SnepClient (put / "
             "get, window 1).  A reactive raw NFC-DEP peer answers CONNECT "
             "with CC (alone or in one AGF with what follows) and plays 1..5 "
             "steps: runs of 1..RW+3 in-sequence I PDUs (one per frame or "
             "all in one AGF frame) that carry a well-formed answer cut into "
             "1..6 pieces and filler afterwards, SYMM, RR/RNR; it never "
             "waits for the DUT's acknowledgements.  Ends with DISC or "
             "silence; generated schedule choices.  non-trivial = the "
             "connection was established and a run longer than the DUT's "
             "receive window was sent."),
    Leg("snep-srv", run=run_stream, gen=lambda tier: stream_strategy(
        "snep-srv"), quick=250, thorough=10000, shards_quick=6,
        shards_thorough=16, nt_floor=0.3,
        rule="rogue client sends up to 8 generated fragments (SNEP headers "
             "with all version/code/length combinations, NDEF fragments, "
             "continue/reject codes, random) to SnepServer over a real data "
             "link connection; non-trivial = at least two fragments."),
    Leg("snep-cli", run=run_stream, gen=lambda tier: stream_strategy(
        "snep-cli"), quick=250, thorough=10000, shards_quick=6,
        shards_thorough=16, nt_floor=0.3,
        rule="rogue server answers SnepClient.put_octets/get_octets with "
             "generated fragments."),
    Leg("ho-srv", run=run_stream, gen=lambda tier: stream_strategy("ho-srv"),
        quick=200, thorough=8000, shards_quick=6, shards_thorough=16,
        nt_floor=0.3,
        rule="rogue client sends generated fragments to HandoverServer."),
    Leg("ho-cli", run=run_stream, gen=lambda tier: stream_strategy("ho-cli"),
        quick=200, thorough=8000, shards_quick=6, shards_thorough=16,
        nt_floor=0.3,
        rule="rogue server answers HandoverClient.recv_octets/recv_records "
             "with generated fragments."),
    Leg("t3emu-short", bulk=bulk_t3emu_short, exhaustive=True, shards_quick=2,
        shards_thorough=16,
        rule="every command string of length <= 2 (quick) / <= 3 (thorough)."),
    Leg("t3lists", run=run_t3gram, enum=enum_t3lists, exhaustive=True,
        shards_quick=4, shards_thorough=16,
        rule="bounded exhaustive over the block list of Read / Write Without "
             "Encryption commands to an emulated Type 3 Tag with three "
             "services (6 / 6 read-only / 10 blocks): service list of 1, 2 or "
             "16 entries x 2-byte, 3-byte or alternating element format x "
             "list length 1..17 x position of the one element that can not "
             "be served (every position, or none) x kind (service list index "
             "beyond the list, block the callbacks do not have); write block "
             "data of 16n-17/-16/-1/+1/+16 bytes for n = 1..13; a 15 element "
             "read and a 12 element write cut at every byte, with a foreign "
             "IDm, a length byte off by one and count bytes that disagree "
             "with the lists.  Every command goes into process_command() "
             "directly and, as one reader session per list length (defect "
             "first to last position and last to first, the first command "
             "arriving with the activation), through connect(card=...) until "
             "the field goes off.  Oracle: nothing but a response frame "
             "(length byte, response code = command code + 1, IDm, status "
             "flags) or None comes out, connect() returns True, every command "
             "of the session was answered or ignored, an unservable command "
             "is not answered with status flag 1 = 00h.  non-trivial = a "
             "Read/Write command with at least two block list elements got a "
             "response frame."),
    Leg("t3gram", run=run_t3gram, gen=lambda tier: t3gram_case(), quick=1500,
        thorough=60000, shards_quick=3, shards_thorough=16, nt_floor=0.2,
        rule="sessions of 1..5 grammar-built commands to an emulated Type 3 "
             "Tag (services with 1..20 blocks): Read / Write Without "
             "Encryption with 0..16 service list entries (registered, "
             "sometimes one unknown or read-only), 0..20 block list elements "
             "in 2- and 3-byte format with access mode bits, all servable up "
             "to a drawn position, one unservable there (unknown service list "
             "index / block the callbacks do not have), independently "
             "servable or not behind it; block data exact / a block or a byte "
             "short / long / none; count bytes that disagree with the lists; "
             "right, foreign and zero IDm; cut after 0..100 bytes; length "
             "byte off by one; Polling, Request Response, Request System "
             "Code and unhandled command codes in between.  Sent directly "
             "into process_command() or by a scripted reader through "
             "connect(card=...).  Oracle as for t3lists.  non-trivial = a "
             "Read/Write command with at least two block list elements got a "
             "response frame."),
]

# the same searches under "python -O": a check of peer / device data that
# rests on an assert statement validates nothing there
_by = dict((lg.name, lg) for lg in LEGS)
LEGS += [
    twin_O(_by['dep-ini'], quick=1000, thorough=10000),
    twin_O(_by['dep-tgt'], quick=1000, thorough=10000),
    twin_O(_by['gb'], quick=700, thorough=7000),
    twin_O(_by['pdu'], quick=700, thorough=7000),
    twin_O(_by['t3emu'], quick=1000, thorough=10000),
]

# the same searches with every nfc logger enabled down to the lowest level
# (code that only runs, or only evaluates its arguments, when logging is on)
_byl = dict((lg.name, lg) for lg in LEGS)
LEGS += [twin_env(_byl[n], "log", {"VERIF_LOG": "debug"}, quick=q, thorough=t,
                  shards_quick=2)
         for n, q, t in [('llc', 150, 1500), ('dep-tgt', 500, 5000), ('snep-srv', 60, 600)] if n in _byl]
