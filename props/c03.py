"""C03 - NDEF writes touch nothing outside the NDEF message area.

Per case (layout, old message, operation): the whole physical memory image is
compared before/after the operation and every executed write command is
checked against the allowed-to-change set A of the independent layout model:

  T1T/T2T  unreserved bytes from the NDEF TLV to the end of the declared data
           area (lock/OTP/CC bytes are one-way in the simulator, so damage is
           visible)
  T3T      blocks 0..Nmaxb of the NDEF service (format(): every block of the
           service, because format re-derives Nmaxb from the readable blocks
           as its docstring says)
  T4T      bytes 0..file size of the NDEF file
  Topaz / Topaz-512 format(): the bytes the docstrings name (CC + TLV area,
           plus the data bytes when wipe is set)

Operations: write a new message (any length), format(wipe=None|0..255).

  T3S      (leg t3s, part of leg history) FeliCa Standard card divided into
           several systems (vlib/simfelica_std.py): blocks 0..Nmaxb of
           service 0 of the NDEF system 12FCh (format(): every block of that
           service); nothing in another service or another system

`history` leg: several operations on ONE tag object (tag.ndef, has_changed,
assignments, format(version, wipe), dump(), optionally with a communication
fault at a command position); every write / format is judged like above
against the layout the tag memory holds when the operation starts - see
run_history.  dump() is not judged itself; it is in the histories because it
changes the state of the tag object (FelicaStandard.dump() activates every
system of the card in turn, also when it is aborted by a fault half way).
"""
import contextlib
import io

from hypothesis import strategies as st

import nfc.tag

from vlib.engine import Leg, Violation, unexpected
from props import tagcommon as tc
from props import tagcommon_r4b as tc4

PROPERTY = "C03"
LEVEL = "exploration"
ASSUMPTIONS = [
    "simulators and layout model as in C01; physical memory is larger than "
    "the declared data area in part of the cases so overruns are observable",
    "format() on personalities that re-create the management data (Topaz, "
    "Topaz-512, Type 3) is judged against what its docstring documents",
    "FeliCa Lite and NTAG personalities are not simulated here",
    "multi-system FeliCa Standard cards: a command is executed in the system "
    "its IDm belongs to (upper nibble of IDm[0] = system number); services "
    "that need a key refuse plain access; cyclic / purse semantics are not "
    "modelled",
    "history leg: dump() itself is not judged (Type 1 dump() is documented "
    "to overwrite and restore dynamic memory blocks); a write through the "
    "cached NDEF object may raise TagCommandError without an injected fault "
    "while dump() has left the tag object on another system of a "
    "multi-system card (nothing is written then)",
    "history leg: the allowed set of an operation is derived by the "
    "independent model from the memory image at the start of that "
    "operation; a history ends when format() raised (management data may be "
    "half rewritten), when a Topaz format declared more memory than the "
    "simulated tag has, and for Type 4 after the first operation that met an "
    "injected fault (known finding C12-no-resync-after-error); faults are "
    "never injected on the second SECTOR SELECT packet (as in C16)",
]


def op_strategy():
    return st.one_of(
        st.fixed_dictionaries({"op": st.just("write"), "len": tc.len_spec(False),
                               "seed": st.integers(0, 255)}),
        st.fixed_dictionaries({"op": st.just("write"), "len": tc.len_spec(False),
                               "seed": st.integers(0, 255)}),
        st.fixed_dictionaries({"op": st.just("format"),
                               "wipe": st.one_of(st.none(),
                                                 st.integers(0, 255))}))


def t2t_edge():
    """NDEF TLV as the last few bytes of the data area / reserved range
    directly behind the TLV header"""
    @st.composite
    def s(draw):
        size = draw(st.sampled_from([2, 3, 4, 6, 12]))
        end = 16 + size * 8
        kind = draw(st.sampled_from(["tail", "rsvd-after-header", "rsvd-end"]))
        nulls = 0
        ctrl = []
        if kind == "tail":
            nulls = (size * 8) - draw(st.integers(4, 7))
        elif kind == "rsvd-after-header":
            # header will sit at 21..24 after one control TLV (16..20)
            a = draw(st.sampled_from([23, 24, 25, 26]))
            ctrl = [{"t": 2, "page": a >> 4, "offs": a & 15,
                     "size": draw(st.integers(1, 9)), "bpp": 4}]
        else:
            a = end - draw(st.integers(1, 6))
            if a & 15 <= 15 and a >> 4 <= 15:
                ctrl = [{"t": draw(st.sampled_from([1, 2])), "page": a >> 4,
                         "offs": a & 15, "size": draw(st.integers(1, 40)),
                         "bpp": 4}]
        return {"kind": "t2t", "size": size,
                "extra": draw(st.sampled_from([0, 4, 16])), "ctrl": ctrl,
                "nulls": max(0, nulls),
                "filler": draw(st.sampled_from([0, 0xFF, 0x5A]))}
    return s()


def case_strategy(desc):
    return st.fixed_dictionaries({
        "tag": desc, "old": tc.len_spec(False), "old_seed": st.integers(0, 255),
        "do": op_strategy()})


def quiet(fn, *a, **kw):
    with contextlib.redirect_stdout(io.StringIO()):
        return fn(*a, **kw)


def run(case, ctx):
    desc, do = case["tag"], case["do"]
    b = tc.build(desc, case["old"], case["old_seed"])
    if b is None:
        ctx.label("layout-without-room")
        return
    kind = tc.classify(desc)
    ctx.label(kind, do["op"])
    if desc["kind"] == "t4t" and desc["ver"] == 0x30 and \
            desc["fsize"] > 0xFFFF:
        ctx.label("skipped:file>64k")
        return
    ctx.set_class("%s/%s" % (desc["kind"], do["op"]))
    try:
        clf, tag = tc.activate(b)
        ndef = tag.ndef
        cap = ndef.capacity
    except Exception as e:
        raise unexpected(e, "setup-raises")
    before = bytes(b.tag.mem)
    b.tag.wlog[:] = []
    allowed = set(b.allowed)
    product = getattr(tag, "_product", "")
    end_gap = None
    if do["op"] == "write":
        L = min(tc.resolve_len(do["len"], cap), cap)
        data = tc.message(L, do["seed"])
        try:
            ndef.octets = data
        except Exception as e:
            raise unexpected(e, "write-raises")
        if desc["kind"] in ("t1t", "t2t"):
            used = 1 + (1 if L < 255 else 3) + L
            end_gap = len(b.info["avail"]) - used
    else:
        wipe = do["wipe"]
        if desc["kind"] in ("t3t", "t3e"):
            allowed = set(range(0, len(before)))
            args = {"version": 0x10, "wipe": wipe}
        elif desc["kind"] == "t3s":
            # every block of service 0 of the NDEF system, nothing else
            allowed = set(range(b.ndef_span[0], sum(b.ndef_span)))
            args = {"version": 0x10, "wipe": wipe}
        else:
            args = {"wipe": wipe}
        if product.startswith("Topaz 512"):
            allowed = set(range(8, 24))
            if wipe is not None:
                allowed |= set(range(24, 104)) | set(range(128, 512))
        elif product.startswith("Topaz"):
            allowed = set(range(8, 14))
            if wipe is not None:
                allowed |= set(range(14, 104))
        try:
            res = quiet(tag.format, **args)
        except nfc.tag.TagCommandError:
            res = "error"
        except Exception as e:
            raise unexpected(e, "format-raises")
        ctx.label("format->%r" % (res,))
    if getattr(b.tag, "exc", None) is not None:
        raise unexpected(b.tag.exc, "emulation-raises")
    after = bytes(b.tag.mem)
    changed = [a for a in range(len(before)) if before[a] != after[a]]
    bad = [a for a in changed if a not in allowed]
    if bad:
        where = _region(b, bad[0])
        ctx.set_class("%s/%s/%s" % (desc["kind"], do["op"], where))
        raise Violation("byte-outside-ndef-area-changed",
                        "address %d (%s) %02x -> %02x, %d such bytes; %r %r"
                        % (bad[0], where, before[bad[0]], after[bad[0]],
                           len(bad), do, desc))
    for serial, addr, ln in b.tag.wlog:
        if not any(a in allowed for a in range(addr, addr + ln)):
            where = _region(b, addr)
            ctx.set_class("%s/%s/%s" % (desc["kind"], do["op"], where))
            raise Violation("write-command-outside-ndef-area",
                            "write unit at %d (+%d) lies wholly outside the "
                            "NDEF area (%s); %r %r"
                            % (addr, ln, where, do, desc))
    nt = do["op"] == "format" and do["wipe"] is not None
    if desc["kind"] in ("t1t", "t2t"):
        off = b.info["tlv_off"]
        rsvd = b.info["reserved"]
        touched = [a for a in changed] or [off]
        lo, hi = min(touched), max(touched)
        if any(a in rsvd for a in range(lo - 1, hi + 3)):
            nt = True
        if end_gap is not None and end_gap <= b.unit:
            nt = True
    elif do["op"] == "write" and L >= cap - b.unit:
        nt = True
    if nt:
        ctx.nontrivial()
    ctx.note({"changed": len(changed), "writes": len(b.tag.wlog)})


def _region(b, a):
    if hasattr(b, "region_of"):
        return b.region_of(a)
    if b.kind in ("t1t", "t2t"):
        i = b.info
        if a < i["data_start"]:
            return "header/lock/cc"
        if a >= i["data_end"]:
            return "beyond-data-area"
        if a in i["reserved"]:
            return "reserved"
        if a < i["tlv_off"]:
            return "before-ndef-tlv"
        return "data-area"
    return "beyond-ndef-area"


# histories on one tag object --------------------------------------------------
def format_allowed(b, product, wipe, area):
    """bytes format() may change (as in run): what the docstrings name for
    the personalities that re-create the management data, else the NDEF
    area"""
    if b.kind in ("t3t", "t3e"):
        return set(range(0, len(b.tag.mem)))
    if b.kind == "t3s":
        return set(range(b.ndef_span[0], sum(b.ndef_span)))
    if product.startswith("Topaz 512"):
        allowed = set(range(8, 24))
        if wipe is not None:
            allowed |= set(range(24, 104)) | set(range(128, 512))
        return allowed
    if product.startswith("Topaz"):
        allowed = set(range(8, 14))
        if wipe is not None:
            allowed |= set(range(14, 104))
        return allowed
    return set(area[0]) if area is not None else None


class _Watch(object):
    def __init__(self, b, desc, ctx):
        self.b, self.desc, self.ctx = b, desc, ctx
        self.writers = 0            # operations that sent write commands
        self.faulted = False
        self.judged = 0
        self.dumped = False         # a dump() came before a write / format
        self.elsewhere = False      # multi-system card: dump() walked off

    def before(self, i, op, tag):
        b = self.b
        if b.kind == "t3s" and op["op"] in ("write", "format"):
            # which system of the card the last Polling activated
            on = b.tag.polled[-1] if b.tag.polled else None
            self.ctx.label("t3s:%s%s-with-%s-system-active" % (
                op["op"], "-after-dump" if self.dumped else "",
                "ndef" if on == 0x12FC else "another"))
        self.image = bytes(b.tag.mem)
        b.tag.wlog[:] = []
        self.area = tc.current_area(b, self.image)
        if op["op"] == "format":
            self.allowed = format_allowed(
                b, getattr(tag, "_product", ""), op["wipe"], self.area)
        elif op["op"] == "dump":
            # not an NDEF write or format: the operation itself is not
            # judged (Type 1 dump() is documented to overwrite and restore
            # blocks of dynamic memory); what matters is what a later write
            # or format does through the same tag object
            self.allowed = "not-judged"
        else:
            self.allowed = None if self.area is None else set(self.area[0])

    def after(self, i, op, out):
        b, ctx, desc = self.b, self.ctx, self.desc
        name = out["op"]
        ctx.label("%s:%s" % (name, out["status"]))
        if name == "dump":
            self.dumped = True
            # dump() of a FeliCa Standard card activates one system after
            # the other; the tag object is left on the last one it visited
            self.elsewhere = b.kind == "t3s" and bool(b.tag.polled) and \
                b.tag.polled[-1] != 0x12FC
        elif name == "changed" and out["status"] == "returned":
            self.elsewhere = False      # has_changed re-polls for 12FCh
        if out["status"] == "error" and out["hits"] == 0 and \
                not self.faulted:
            if self.elsewhere and name == "write":
                # the cached NDEF object refuses while the tag object is on
                # another system (nothing is sent to the NDEF service)
                ctx.label("write:error-after-dump-left-on-other-system")
            else:
                raise unexpected(out["error"], name + "-raises",
                                 detail="op %d, no fault injected so far" % i)
        if out["hits"]:
            self.faulted = True
        if name == "dump":
            if b.tag.wlog:
                ctx.label("dump-sent-write-commands")
            return None
        if self.allowed is None:
            ctx.label("history-ends:no-ndef-management-data")
            return "stop"
        after = bytes(b.tag.mem)
        before, allowed = self.image, self.allowed
        lay = self.area[2] if self.area and b.kind in ("t1t", "t2t") else None
        changed = [a for a in range(len(before)) if before[a] != after[a]]
        bad = [a for a in changed if a not in allowed]
        if bad:
            where = _region_now(b, lay, bad[0])
            ctx.set_class("%s/history/%s/%s" % (desc["kind"], name, where))
            raise Violation("byte-outside-ndef-area-changed",
                            "op %d (%s): address %d (%s) %02x -> %02x, %d "
                            "such bytes; %r %r"
                            % (i, name, bad[0], where, before[bad[0]],
                               after[bad[0]], len(bad), op, desc))
        for serial, addr, ln in b.tag.wlog:
            if not any(a in allowed for a in range(addr, addr + ln)):
                where = _region_now(b, lay, addr)
                ctx.set_class("%s/history/%s/%s" % (desc["kind"], name,
                                                    where))
                raise Violation("write-command-outside-ndef-area",
                                "op %d (%s): write unit at %d (+%d) lies "
                                "wholly outside the NDEF area (%s); %r %r"
                                % (i, name, addr, ln, where, op, desc))
        self.judged += 1
        if name in ("write", "format") and self.dumped:
            ctx.label("%s-after-dump" % name)
        if b.tag.wlog:
            self.writers += 1
            if self.writers >= 2:
                ctx.nontrivial()
        if name == "format":
            if out["status"] == "error":
                ctx.label("history-ends:format-raised")
                return "stop"
            now = tc.current_area(b)
            if out["result"] is True and b.kind == "t1t" and now and \
                    now[2]["declared_end"] > now[2]["phys"]:
                ctx.label("history-ends:format-declares-more-than-physical")
                return "stop"
            if out["result"] is True:
                ctx.label("format-moved-ndef-tlv" if lay and now and
                          now[2]["tlv_off"] != lay["tlv_off"]
                          else "format-kept-ndef-tlv")
        if tc.session_undefined(b, out):
            ctx.label("history-ends:t4t-fault")
            return "stop"


def _region_now(b, lay, a):
    if hasattr(b, "region_of"):
        return b.region_of(a)
    if lay is None:
        return "beyond-ndef-area"
    if a < lay["data_start"]:
        return "header/lock/cc"
    if a >= lay["data_end"]:
        return "beyond-data-area"
    if a in lay["reserved"]:
        return "reserved"
    if a < lay["tlv_off"]:
        return "before-ndef-tlv"
    return "data-area"


def run_history(case, ctx):
    """every operation of a history on one tag object is judged with the
    oracle of run(): the byte diff of the whole physical image over the
    operation lies within the allowed set and every write command addresses
    a unit that intersects it.  The allowed set is the NDEF message area of
    the layout the memory image holds when the operation starts (independent
    model: vlib/ref_tlv.layout, attribute block, file size), for format() on
    Topaz / Topaz-512 / Type 3 what the docstring documents.  Operations
    with an injected fault may raise nfc.tag.TagCommandError."""
    desc = case["tag"]
    b = tc.build(desc, case["old"], case["old_seed"])
    if b is None:
        ctx.label("layout-without-room")
        return
    ctx.label(tc.classify(desc))
    ctx.set_class("%s/history" % desc["kind"])
    w = _Watch(b, desc, ctx)
    counts = tc.rehearse(desc, case["old"], case["old_seed"], case["ops"])
    tc.play(b, case["ops"], w, counts)
    ctx.note({"judged": w.judged, "writers": w.writers})


def _leg(name, desc, quick, thorough, what=None):
    return Leg(name, run=run, gen=lambda tier: case_strategy(desc),
               quick=quick, thorough=thorough, shards_quick=3,
               shards_thorough=16, nt_floor=0.1,
               rule="%s x old message x (write of any length | "
                    "format with wipe None/0..255); oracle = byte diff of the "
                    "whole physical image within the allowed set and every "
                    "write command intersecting it; non-trivial = reserved "
                    "range adjacent to/inside the touched span, write ends "
                    "within one unit of the data-area end, or wipe set."
                    % (what or name + " layouts"))


LEGS = [
    _leg("t2t", st.one_of(tc.t2t_desc(), tc.t2t_desc(), t2t_edge()),
         1500, 30000),
    _leg("t1t", tc.t1t_desc(), 1200, 30000),
    _leg("t3t", tc.t3t_desc("t3t"), 600, 10000),
    _leg("t3e", tc.t3t_desc("t3e"), 400, 8000),
    _leg("t4t", tc.t4t_desc().map(
        lambda d: dict(d, fsize=min(d["fsize"], 4000))), 600, 10000),
    _leg("t3s", tc4.t3s_desc(), 400, 8000,
         what="FeliCa Standard cards divided into 2-4 systems (own IDm and "
              "block memory each; the NDEF system 12FCh at any position, "
              "optionally with further services; the other systems with "
              "random / cyclic / purse services, service 0 mostly readable "
              "and writeable without key; IC codes of Standard and Mobile "
              "products) with Type 3 layouts in service 0 of the NDEF system"),
    Leg("history", run=run_history,
        gen=lambda tier: st.fixed_dictionaries({
            "tag": tc.hist_desc(t2t=3, t1t=5, t3s=3), "old": tc.hist_len(False),
            "old_seed": st.integers(0, 3),
            "ops": tc.hist_ops(False, dump=2)}),
        quick=4800, thorough=60000, shards_quick=8, shards_thorough=16,
        nt_floor=0.1,
        rule="constructed layouts of every tag type (Topaz / Topaz-512 with "
             "their real memory size, NDEF TLV wherever the layout strategy "
             "puts it; one fifth multi-system FeliCa Standard cards as in "
             "leg t3s) x old message x 2..7 operations on ONE tag object from "
             "{tag.ndef, has_changed, assign octets of any length (or the "
             "last attempted octets again), format(version, wipe), "
             "tag.dump() (not judged itself: it is no NDEF write; on a "
             "multi-system card it activates every system in turn)}, each "
             "optionally with a communication fault (timeout / transmission / "
             "protocol; command or response lost; burst 1, 2, 3 or until the "
             "operation ends) starting at its k-th exchange, k reduced modulo "
             "the operation's exchange count in a fault-free rehearsal; every "
             "operation is judged (byte diff + write commands against the "
             "allowed set of the layout present at its start; on a "
             "multi-system card nothing outside service 0 of the NDEF system "
             "may change and no write command may address another system or "
             "service); non-trivial = "
             "at least two operations of the history sent write commands; "
             "distinct by case hash."),
    Leg("history-sectors", run=run_history,
        gen=lambda tier: tc.sector_hist(), quick=1600, thorough=24000,
        shards_quick=8, shards_thorough=16, nt_floor=0.1,
        rule="histories as in leg history on Type 2 Tags of more than one "
             "sector (layouts of t2t-sectors: data area ending around 1 / 2 "
             "KiB, control TLVs near the sector boundaries): 2..5 operations, "
             "mostly assignments long enough to reach beyond the first "
             "sector, with faults anywhere in an operation - communication "
             "faults or the tag itself refusing a command (NAK, halted "
             "afterwards; the refused command executes nothing); same judge; "
             "non-trivial as in history."),
]
