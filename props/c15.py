"""C15 - the frontend never lets two threads drive the device at once.

A recording driver proxy sits under a real ContactlessFrontend; 2-4
application threads run generated programs over the public entry points
(open, close, sense, listen, exchange, max_send/recv_data_size,
connect(rdwr=...) with a present or disappearing tag and its presence-check,
LED/buzzer and callback phases, connect(llcp=...), connect(card=...),
__exit__) under the virtual scheduler.  The proxy yields in the middle of
every driver method so that overlap is observable.

Oracle, evaluated at the entry of every driver method:
  * the frontend's lock is held by the calling thread
  * no other thread is inside any driver method
  * the device object has not been closed (its close() was not called
    before, whether that call returned or raised)

Legs `failing` / `preempt-failing`: the driver FAILS inside the programs -
close() raises IOError (swallowed by the frontend), other driver calls raise
IOError - and the programs go on using the frontend from the same and from
other threads.

Legs `interrupt` / `preempt-interrupt`: connect() is LEFT BY
KeyboardInterrupt - raised by the terminate callback, by an on-startup /
on-discover / on-connect / on-release callback or by the driver under the
program's main thread (Ctrl-C) - while other threads use the frontend, and
the programs go on afterwards.  In these legs the frontend's lock has the
semantics of the real threading.Lock (no owner: ANY thread can release a
locked lock; vsched opt-in `unowned_release`), so that a release by a thread
that does not hold the lock shows as what it causes - a second thread inside
the driver - and not as an error of the harness' lock.

Schedules: generated choice lists, and (leg `preempt`) every position of one
forced preemption for fixed two/three-thread programs.  As a coverage
measure the syntactic `self.device.<m>(...)` call sites of ContactlessFrontend
(found with ast) are compared with the call sites seen dynamically; the
verdict comes from the dynamic oracle only.
"""
import ast
import errno
import os
import sys

from hypothesis import strategies as st

import nfc
import nfc.clf
import nfc.clf.device

from vlib import vsched
from vlib.engine import REPO_SRC, Leg, Violation

PROPERTY = "C15"
LEVEL = "exploration"
ASSUMPTIONS = [
    "interleavings are explored at synchronisation-point granularity plus one "
    "yield inside every driver call; byte-code level races are not explored",
    "the per-call-site clause is measured (static sites vs sites exercised), "
    "not established syntactically",
    "interrupt legs: KeyboardInterrupt is raised by connect()'s callbacks "
    "(any thread, a callback is application code) and by driver calls of the "
    "program's main thread app0 only (Python delivers SIGINT to the main "
    "thread), not at other byte-code positions and not inside the driver's "
    "close(); the frontend lock there behaves like the real threading.Lock "
    "(release by a non-owner succeeds, release of an unlocked lock raises "
    "RuntimeError), all other legs keep the owner-checking harness lock",
]


def setup():
    vsched.patch_nfc()


# ----------------------------------------------------------------- the proxy
class World(object):
    def __init__(self):
        self.clf = None
        self.inside = []
        self.violations = []
        self.sites = set()
        self.tag_checks = 3       # presence checks until the tag disappears
        self.tag_present = True
        self.ncalls = 0
        self.overlap_window = False
        self.reader_visits = 1    # how often a reader activates the card
        self.reader_cmds = 0
        # failing driver: the k-th driver close() raises IOError when
        # close_fail[k % len] is true; the driver call with index n (counted
        # over all methods but close) raises IOError when n is in fail_at
        self.close_fail = []
        self.fail_at = ()
        self.nclose = 0
        self.failed_closes = 0
        self.failed_calls = 0
        self.ops_after_failure = 0
        # interrupts: the k-th driver call (close excepted) made by the
        # program's main thread app0 raises KeyboardInterrupt for k in kbi_at
        self.kbi_at = ()
        self.kbi_delay = 0          # x 0.1 ms spent in an interrupting callback
        self.main_calls = 0
        self.kbi_raised = 0         # KeyboardInterrupts raised in all
        self.kbi_busy = 0           # .. while another thread was in the driver
        self.kbi_connect_false = 0  # connect() returned False after one
        self.ops_after_kbi = 0
        self.ops_after_busy_kbi = 0


class ProxyDevice(nfc.clf.device.Device):
    def __init__(self, world):
        self.w = world
        self.closed = False
        self._path = "sim:proxy"
        self._vendor_name = "Sim"
        self._device_name = "Proxy"
        self._chipset_name = "SIM"

    def _call(self, name):
        w = self.w
        s = vsched.current()
        me = s.me()
        f = sys._getframe(2)
        while f is not None and not f.f_code.co_filename.endswith(
                "nfc/clf/__init__.py"):
            f = f.f_back
        func = f.f_code.co_name if f is not None else "?"
        if f is not None:
            w.sites.add((func, name))
        lock = w.clf.lock
        held = getattr(lock, "owner", None) is me
        w.ncalls += 1
        if not held:
            w.violations.append(("driver-call-without-lock", func, name,
                                 me.name))
        if w.inside:
            w.violations.append(("overlapping-driver-calls", func, name,
                                 "%s while %r" % (me.name, w.inside)))
        if self.closed:
            w.violations.append(("driver-call-on-closed-device", func, name,
                                 me.name))
        pending = [t for t in s.threads
                   if t is not me and t.state == vsched.BLOCKED
                   and t.wait_on is lock]
        if pending:
            w.overlap_window = True
        n = w.ncalls - 1
        w.inside.append((me.name, name))
        try:
            s.sleep(0.0005)       # the driver call takes time: others run
        finally:
            w.inside.remove((me.name, name))
        if held and getattr(lock, "owner", None) is not me:
            # "calls into the driver while holding the lock": it was taken
            # away (released by a thread that did not hold it) during the call
            w.violations.append(("lock-lost-during-driver-call", func, name,
                                 "%s, lock owner now %r" % (
                                     me.name, getattr(lock.owner, "name",
                                                      None))))
        if name not in ("close", "init") and me.name == "app0" and w.kbi_at:
            k = w.main_calls
            w.main_calls += 1
            if k in w.kbi_at:
                kbi(w)              # Ctrl-C while the main thread is here
        if name not in ("close", "init") and n in w.fail_at:
            # the host link broke during this call
            w.failed_calls += 1
            code = errno.ENODEV if n % 2 else errno.EIO
            raise IOError(code, os.strerror(code))

    # ---- driver interface
    def close(self):
        w = self.w
        k = w.nclose
        w.nclose += 1
        try:
            self._call("close")
        finally:
            # close() was called: whatever it reports, this device object
            # must not be driven again
            self.closed = True
        if w.close_fail and w.close_fail[k % len(w.close_fail)]:
            # e.g. the final RF-off / ACK write to an unplugged reader fails
            # after the transport was released
            w.failed_closes += 1
            raise IOError(errno.EIO, os.strerror(errno.EIO))

    def mute(self):
        self._call("mute")

    def sense_tta(self, target):
        self._call("sense_tta")
        if target.brty != "106A":
            raise nfc.clf.UnsupportedTargetError(target.brty)
        if not self.w.tag_present:
            return None
        return nfc.clf.RemoteTarget(
            "106A", sens_res=bytearray(b"\x44\x00"),
            sel_res=bytearray(b"\x00"),
            sdd_res=bytearray.fromhex("02112233445566"))

    def sense_ttb(self, target):
        self._call("sense_ttb")
        return None

    def sense_ttf(self, target):
        self._call("sense_ttf")
        if target.brty not in ("212F", "424F"):
            raise nfc.clf.UnsupportedTargetError(target.brty)
        return None

    def sense_dep(self, target):
        self._call("sense_dep")
        raise nfc.clf.UnsupportedTargetError("no active mode")

    def _listen(self, name, timeout):
        self._call(name)
        vsched.current().sleep(min(timeout, 0.2))
        return None

    def listen_tta(self, target, timeout):
        return self._listen("listen_tta", timeout)

    def listen_ttb(self, target, timeout):
        return self._listen("listen_ttb", timeout)

    def listen_ttf(self, target, timeout):
        r = self._listen("listen_ttf", timeout)
        if self.w.reader_visits > 0:
            self.w.reader_visits -= 1
            self.w.reader_cmds = 2
            t = nfc.clf.LocalTarget(target.brty)
            t.sensf_res = bytearray(target.sensf_res)
            t.tt3_cmd = bytearray.fromhex("0602FE0102030405")  # Req. Response
            return t
        return r

    def listen_dep(self, target, timeout):
        return self._listen("listen_dep", timeout)

    def send_cmd_recv_rsp(self, target, data, timeout):
        self._call("send_cmd_recv_rsp")
        if not self.w.tag_present:
            raise nfc.clf.TimeoutError("gone")
        if bytes(data[:1]) == b"\x30":
            if bytes(data) == b"\x30\x00":
                self.w.tag_checks -= 1
                if self.w.tag_checks < 0:
                    self.w.tag_present = False
                    raise nfc.clf.TimeoutError("gone")
            return bytearray.fromhex("02112299334455664448000000000000")
        raise nfc.clf.TimeoutError("unknown command")

    def send_rsp_recv_cmd(self, target, data, timeout):
        self._call("send_rsp_recv_cmd")
        if self.w.reader_cmds > 0:
            self.w.reader_cmds -= 1
            return bytearray.fromhex("0A0402FE010203040506")
        raise nfc.clf.BrokenLinkError("reader left")

    def get_max_send_data_size(self, target):
        self._call("get_max_send_data_size")
        return 290

    def get_max_recv_data_size(self, target):
        self._call("get_max_recv_data_size")
        return 290

    def turn_on_led_and_buzzer(self):
        self._call("turn_on_led_and_buzzer")

    def turn_off_led_and_buzzer(self):
        self._call("turn_off_led_and_buzzer")


# ---------------------------------------------------------------- programs
def kbi(w):
    """raise KeyboardInterrupt in the running thread, with book-keeping"""
    me = vsched.current().me().name
    w.kbi_raised += 1
    if any(who != me for who, _ in w.inside):
        w.kbi_busy += 1
    raise KeyboardInterrupt()


KBI_POINTS = {
    "rdwr": ("terminate", "on-startup", "on-discover", "on-connect",
             "on-release"),
    "card": ("terminate", "on-startup", "on-discover", "on-connect",
             "on-release"),
    "llcp": ("terminate", "on-startup"),
}
# "kbi/<mode>/<callback>/<n>": connect(<mode>=...) whose <callback> raises
# KeyboardInterrupt (terminate: on its n-th call, counted from 0)
KBI_OPS = ["kbi/%s/%s/%d" % (mode, point, n)
           for mode in ("rdwr", "card", "llcp")
           for point in KBI_POINTS[mode]
           for n in (range(6) if point == "terminate" and mode != "llcp"
                     else range(3) if point == "terminate" else (0,))]


def do_kbi_connect(w, op):
    _, mode, where, n = op.split("/")
    n = int(n)
    state = {"k": 0, "raised": False}

    def boom():
        state["raised"] = True
        if w.kbi_delay:
            # the callback takes a little time before the interrupt arrives
            vsched.current().sleep(0.0001 * w.kbi_delay)
        kbi(w)

    def terminate():
        k = state["k"]
        state["k"] += 1
        if where == "terminate" and k == n:
            boom()
        return k >= (8 if mode == "rdwr" else 4)

    def cb(point, fn):
        def call(arg):
            if where == point:
                boom()
            return fn(arg)
        return call

    def card_startup(target):
        target.brty = "212F"
        target.sensf_res = bytearray.fromhex(
            "0102FE010203040506FFFFFFFFFFFFFFFF12FC")
        return target
    options = {"on-startup": cb("on-startup", card_startup if mode == "card"
                                else lambda x: x),
               "on-connect": cb("on-connect", lambda x: True),
               "on-release": cb("on-release", lambda x: True)}
    if mode != "llcp":
        options["on-discover"] = cb("on-discover", lambda x: True)
    if mode == "rdwr":
        options.update({"iterations": 1, "interval": 0.05,
                        "beep-on-connect": bool(n & 1)})
    if mode == "llcp":
        options.update({"role": "target", "lto": 100})
    r = w.clf.connect(terminate=terminate, **{mode: options})
    if state["raised"] and r is False:
        # "returns False when terminated by KeyboardInterrupt"
        w.kbi_connect_false += 1


OPS = ["open", "close", "sense-a", "sense-af", "sense-f", "sense-b",
       "sense-dep", "listen-tta", "listen-ttb", "listen-dep",
       "listen-ttf", "exchange", "max-send", "max-recv", "connect-rdwr",
       "connect-rdwr-stay", "connect-rdwr-beep", "connect-llcp",
       "connect-card", "exit", "exit-exc", "atexit", "sense-none",
       "connect-none"]


def do_op(w, op):
    clf = w.clf
    if w.failed_closes or w.failed_calls:
        w.ops_after_failure += 1
    if w.kbi_raised:
        w.ops_after_kbi += 1
    if w.kbi_busy:
        w.ops_after_busy_kbi += 1
    if op.startswith("kbi/"):
        return do_kbi_connect(w, op)
    if op == "open":
        clf.open("usb")
    elif op == "close":
        clf.close()
    elif op == "exit":
        clf.__exit__(None, None, None)
    elif op == "atexit":
        # the interpreter exits while the frontend may still be open and
        # other (daemon) threads may be inside frontend operations: the exit
        # hooks registered since the case began run in this thread
        hooks, w.exit_hooks = list(w.exit_hooks), []
        for fn, a, kw in reversed(hooks):
            fn(*a, **kw)
    elif op == "exit-exc":
        # the with-block is left by an exception of the application
        try:
            raise RuntimeError("application error inside the with-block")
        except RuntimeError as e:
            clf.__exit__(type(e), e, e.__traceback__)
    elif op == "sense-none":
        # legal calls that have nothing to do: no target / no option given
        clf.sense()
        clf.sense(iterations=2, interval=0.01)
    elif op == "connect-none":
        clf.connect()
    elif op == "sense-a":
        clf.sense(nfc.clf.RemoteTarget("106A"))
    elif op == "sense-af":
        clf.sense(nfc.clf.RemoteTarget("106A"), nfc.clf.RemoteTarget("212F"),
                  nfc.clf.RemoteTarget("106B"), iterations=2, interval=0.05)
    elif op == "sense-f":
        clf.sense(nfc.clf.RemoteTarget("212F"))
    elif op == "sense-b":
        clf.sense(nfc.clf.RemoteTarget("106B"))
    elif op == "sense-dep":
        clf.sense(nfc.clf.RemoteTarget("106A", atr_req=bytearray(16)),
                  nfc.clf.RemoteTarget("106A"))
    elif op == "listen-tta":
        t = nfc.clf.LocalTarget("106A", sens_res=bytearray(2),
                                sdd_res=bytearray(4), sel_res=bytearray(1))
        clf.listen(t, 0.1)
    elif op == "listen-ttb":
        clf.listen(nfc.clf.LocalTarget("106B"), 0.1)
    elif op == "listen-dep":
        t = nfc.clf.LocalTarget("106A", atr_res=bytearray(17))
        clf.listen(t, 0.1)
    elif op == "listen-ttf":
        t = nfc.clf.LocalTarget("212F", sensf_res=bytearray(19))
        clf.listen(t, 0.1)
    elif op == "exchange":
        clf.exchange(bytearray(b"\x30\x04"), 0.1)
    elif op == "max-send":
        clf.max_send_data_size
    elif op == "max-recv":
        clf.max_recv_data_size
    elif op.startswith("connect-rdwr"):
        n = {"k": 0}

        def terminate():
            n["k"] += 1
            return n["k"] > 6
        stay = op != "connect-rdwr"
        clf.connect(rdwr={"on-connect": lambda tag: stay,
                          "beep-on-connect": op.endswith("beep"),
                          "iterations": 1, "interval": 0.05},
                    terminate=terminate)
    elif op == "connect-llcp":
        n = {"k": 0}

        def terminate():
            n["k"] += 1
            return n["k"] > 2
        clf.connect(llcp={"role": "target", "lto": 100}, terminate=terminate)
    elif op == "connect-card":
        n = {"k": 0}

        def terminate():
            n["k"] += 1
            return n["k"] > 2

        def startup(target):
            target.brty = "212F"
            target.sensf_res = bytearray.fromhex(
                "0102FE010203040506FFFFFFFFFFFFFFFF12FC")
            return target
        clf.connect(card={"on-startup": startup}, terminate=terminate)


def run(case, ctx):
    s = vsched.Sched(case.get("choices", []), seed=case.get("seed", 0),
                     step_budget=200000)
    if case.get("force"):
        s.forced = dict((int(p), int(k)) for p, k in case["force"])
    if case.get("line") is not None:
        # one preemption at source-line granularity (vsched line_preempt)
        s.line_trace = True
        s.line_preempt = [list(x) for x in case["line"]]
    interrupts = bool(case.get("interrupts"))
    if interrupts:
        # the real threading.Lock has no owner: any thread can release it
        s.unowned_release = True
    vsched.activate(s)
    w = World()
    w.kbi_at = frozenset(int(x) for x in case.get("kbi_at", []))
    w.kbi_delay = case.get("kbi_delay", 0)
    w.tag_checks = case.get("tag_checks", 3)
    w.reader_visits = case.get("reader_visits", 1)
    w.close_fail = [bool(x) for x in case.get("close_fail", [])]
    w.fail_at = frozenset(int(x) for x in case.get("fail_at", []))
    other = []
    saved_connect = nfc.clf.device.connect
    import atexit
    saved_register, saved_unregister = atexit.register, atexit.unregister
    w.exit_hooks = []

    def _register(fn, *a, **kw):
        w.exit_hooks.append((fn, a, kw))
        return fn

    def _unregister(fn):
        w.exit_hooks[:] = [h for h in w.exit_hooks if h[0] != fn]
    atexit.register, atexit.unregister = _register, _unregister
    try:
        def connect_driver(path):
            # searching for and initialising the driver IS a driver call of
            # open(): commands go to the reader
            d = ProxyDevice(w)
            d._call("init")
            return d
        nfc.clf.device.connect = connect_driver
        w.clf = nfc.clf.ContactlessFrontend()
        if case.get("opened", True):
            w.clf.open("usb")

        def thread(prog):
            def body():
                for op in prog:
                    try:
                        do_op(w, op)
                    except (vsched.Abort, vsched.StepBudget):
                        raise
                    except (IOError, nfc.clf.Error, ValueError,
                            SystemExit) as e:
                        other.append((op, type(e).__name__))
                    except KeyboardInterrupt as e:
                        # outside connect() (and from its on-startup phase)
                        # the interrupt reaches the application
                        other.append((op, type(e).__name__))
                    except BaseException as e:
                        other.append((op, "UNEXPECTED:%r" % (e,)))
            return body
        for i, prog in enumerate(case["programs"]):
            s.spawn(thread(prog), "app%d" % i)
        s.settle()
        s.sleep(30.0)
        s.settle()
        alive = [t.name for t in s.alive()]
        points = s.points
        nlines = dict((t.name, t.nlines) for t in s.threads)
        line_preempted = s.line_preempted
    finally:
        nfc.clf.device.connect = saved_connect
        atexit.register, atexit.unregister = saved_register, saved_unregister
        s.shutdown()
        vsched.activate(None)
    if case.get("count_lines"):
        return nlines
    for func, name in sorted(w.sites):
        ctx.label("site:%s->%s" % (func, name))
    if case.get("line") is not None:
        if line_preempted:
            ctx.nontrivial()
    elif w.overlap_window:
        if not interrupts:          # (the interrupt legs have their own rule)
            ctx.nontrivial()
        ctx.label("driver-call-while-another-thread-waits")
    if w.failed_closes:
        ctx.label("driver-close-raised")
    if w.failed_calls:
        ctx.label("driver-call-raised")
    if w.ops_after_failure:
        ctx.label("operation-after-driver-failure")
        if case.get("close_fail") or case.get("fail_at"):
            ctx.nontrivial()
    if interrupts:
        if w.kbi_raised:
            ctx.label("keyboard-interrupt-raised")
        if w.kbi_connect_false:
            ctx.label("connect-returned-False-after-KeyboardInterrupt")
        if w.kbi_busy:
            ctx.label("interrupt-while-another-thread-in-driver-call")
        if w.ops_after_kbi:
            ctx.label("operation-after-interrupt")
        if w.kbi_busy and w.ops_after_busy_kbi:
            ctx.nontrivial()
    if w.violations:
        kind, func, name, who = w.violations[0]
        ctx.set_class("%s/%s" % (func, name))
        raise Violation(kind, "%s() calls device.%s(): %s; %d violations, "
                              "first five %r" % (func, name, who,
                                                 len(w.violations),
                                                 w.violations[:5]))
    if alive:
        raise Violation("program-did-not-finish", repr(alive))
    ctx.note({"driver_calls": w.ncalls, "sites": len(w.sites),
              "scheduling_points": points,
              "exceptions_seen": sorted(set(x[1] for x in other))[:6]})
    return points, w.sites


def programs():
    prog = st.lists(st.sampled_from(OPS), min_size=1, max_size=5)
    return st.fixed_dictionaries({
        "programs": st.lists(prog, min_size=2, max_size=4),
        "opened": st.sampled_from([True, True, True, False]),
        "tag_checks": st.integers(0, 5),
        "reader_visits": st.integers(0, 2),
        "choices": st.lists(st.integers(0, 3), max_size=60),
        "seed": st.integers(0, 255)})


FAIL_OPS = OPS + ["close", "close", "exit", "exit", "exit-exc", "atexit", "open", "sense-a",
                  "exchange", "max-send", "max-recv"]


def programs_failing():
    """programs over a driver whose calls fail: close() raising IOError (the
    frontend swallows it) and other driver calls raising IOError"""
    prog = st.lists(st.sampled_from(FAIL_OPS), min_size=1, max_size=5)
    return st.fixed_dictionaries({
        "programs": st.lists(prog, min_size=1, max_size=4),
        "opened": st.sampled_from([True, True, True, False]),
        "tag_checks": st.integers(0, 5),
        "reader_visits": st.integers(0, 2),
        "close_fail": st.sampled_from([[True], [True], [True, False],
                                       [False, True], [True, True, False],
                                       []]),
        "fail_at": st.lists(st.one_of(st.integers(0, 8), st.integers(0, 60)),
                            max_size=3),
        "choices": st.lists(st.integers(0, 3), max_size=60),
        "seed": st.integers(0, 255)})


def programs_interrupt():
    """programs in which at least one connect() is left by KeyboardInterrupt
    (callback) and / or the main thread's driver calls are interrupted"""
    op = st.one_of(st.sampled_from(OPS), st.sampled_from(OPS),
                   st.sampled_from(KBI_OPS))
    prog = st.lists(op, min_size=1, max_size=5)

    @st.composite
    def s(draw):
        progs = draw(st.lists(prog, min_size=2, max_size=4))
        # one interrupted connect() for sure, mostly not as the last operation
        # of its thread: what runs after the interrupt is the point
        t = draw(st.integers(0, len(progs) - 1))
        at = draw(st.integers(0, max(0, len(progs[t]) - 1)))
        progs[t].insert(at, draw(st.sampled_from(KBI_OPS)))
        if at == len(progs[t]) - 1:
            progs[t].append(draw(st.sampled_from(
                ["max-send", "max-recv", "exchange", "sense-a", "close",
                 "listen-tta"])))
        return {"programs": progs, "interrupts": True,
                "kbi_at": draw(st.lists(st.integers(0, 12), max_size=2)),
                "kbi_delay": draw(st.sampled_from([0, 1, 1, 2, 3, 7, 40])),
                "opened": True,
                "tag_checks": draw(st.integers(0, 5)),
                "reader_visits": draw(st.integers(0, 2)),
                "choices": draw(st.lists(st.integers(0, 3), max_size=60)),
                "seed": draw(st.integers(0, 255))}
    return s()


# (programs, kbi_at)
FIXED_KBI = [
    ([["kbi/rdwr/terminate/0", "max-send"], ["exchange", "sense-a"]], []),
    ([["sense-a", "kbi/rdwr/on-connect/0", "exchange"],
      ["listen-tta", "max-recv"]], []),
    ([["kbi/card/terminate/1", "sense-f"], ["sense-af"], ["max-send"]], []),
    ([["kbi/rdwr/on-release/0", "close"], ["exchange", "exchange"]], []),
    ([["kbi/llcp/terminate/1", "max-recv"], ["connect-rdwr-stay"]], []),
    ([["kbi/rdwr/on-discover/0", "sense-a"], ["connect-card"]], []),
    ([["connect-rdwr-stay", "exchange"], ["sense-af", "max-send"]], [3]),
    ([["kbi/card/on-connect/0", "listen-ttb"], ["open", "sense-a"]], []),
]


# (programs, close_fail, fail_at)
FIXED_FAIL = [
    ([["close"], ["sense-a", "exchange", "max-send"]], [True], []),
    ([["sense-a", "exit", "max-recv", "listen-tta"]], [True], []),
    ([["exit"], ["connect-rdwr"], ["max-send", "close"]], [True, False], []),
    ([["close", "open", "sense-a"], ["exchange", "listen-ttf"]], [True], []),
    ([["sense-af", "close"], ["connect-card"]], [True], [1, 4]),
    ([["connect-rdwr-beep", "close"], ["sense-a", "max-recv"]], [False, True],
     [3]),
]


FIXED = [
    [["connect-rdwr-beep"], ["exchange", "max-send", "sense-a"]],
    [["connect-rdwr-stay"], ["close"]],
    [["sense-af", "exchange"], ["close", "open", "max-recv"]],
    [["connect-llcp"], ["listen-ttf", "exit"]],
    [["sense-a", "exchange", "exchange"], ["max-send", "exit-exc", "open"]],
    [["connect-rdwr-stay"], ["exit-exc"]],
    [["sense-a", "exchange", "exchange", "exchange"], ["max-send", "atexit"]],
    [["connect-rdwr-stay"], ["atexit"]],
    [["sense-a", "exchange", "exchange", "exchange"], ["max-send", "sense-none"]],
    [["connect-rdwr-stay"], ["sense-none", "connect-none"]],
    [["connect-card", "sense-f"], ["exchange"], ["max-send", "max-recv"]],
    [["open", "sense-a", "exchange"], ["open", "listen-dep"]],
]


class _Ctx(object):
    def __getattr__(self, name):
        return lambda *a, **k: None


def enum_preempt_failing(tier, seed):
    return enum_preempt(tier, seed, FIXED_FAIL)


def enum_preempt_interrupt(tier, seed):
    return enum_preempt(tier, seed, [(progs, [], [], kbi_at, delay)
                                     for progs, kbi_at in FIXED_KBI
                                     for delay in (0, 1, 3, 7)])


def enum_preempt(tier, seed, fixed=None):
    if fixed is None:
        fixed = [(progs, [], []) for progs in FIXED]
    for entry in fixed:
        progs, close_fail, fail_at = entry[:3]
        base = {"programs": progs, "opened": True, "tag_checks": 2,
                "choices": [], "seed": 0}
        if close_fail or fail_at:
            base.update(close_fail=close_fail, fail_at=fail_at)
        if len(entry) > 3:
            base.update(interrupts=True, kbi_at=entry[3], kbi_delay=entry[4])
        try:
            points, _ = run(dict(base), _Ctx())
        except Violation:
            yield base
            continue
        step = 1 if tier == "thorough" or points < 150 else 2
        for p in range(1, points + 1, step):
            for pick in (1, 2):
                yield dict(base, force=[[p, pick]])


def enum_preempt_line(tier, seed):
    """one preemption before every (quick: every second) source line a thread
    executes inside nfcpy, for every thread of the fixed programs"""
    step = 1 if tier == "thorough" else 2
    for progs in FIXED + [p for p, cf, fa in FIXED_FAIL[:3]]:
        base = {"programs": progs, "opened": True, "tag_checks": 2,
                "choices": [], "seed": 0, "line": []}
        try:
            n = run(dict(base, count_lines=True), _Ctx())
        except Violation:
            yield base
            continue
        for name, total in sorted(n.items()):
            if not name.startswith("app"):
                continue
            for k in range(1, min(total, 900) + 1, step):
                yield dict(base, line=[[name, k]])


def static_sites():
    path = REPO_SRC + "/nfc/clf/__init__.py"
    tree = ast.parse(open(path).read())
    sites = set()

    class V(ast.NodeVisitor):
        def __init__(self):
            self.stack = []

        def visit_FunctionDef(self, node):
            self.stack.append(node.name)
            self.generic_visit(node)
            self.stack.pop()

        def visit_Attribute(self, node):
            v = node.value
            if isinstance(v, ast.Attribute) and v.attr == "device" and \
                    isinstance(v.value, ast.Name) and v.value.id == "self":
                if node.attr not in ("path", "vendor_name", "product_name"):
                    sites.add((self.stack[-1] if self.stack else "?",
                               node.attr))
            self.generic_visit(node)
    V().visit(tree)
    return sites


def enum_sites(tier, seed):
    yield {"all": True}


def run_sites(case, ctx):
    """coverage measure: syntactic device call sites vs sites exercised"""
    static = static_sites()
    seen = set()
    for progs in FIXED + [[[op]] for op in OPS]:
        _, sites = run({"programs": progs, "opened": True, "tag_checks": 2,
                        "choices": [], "seed": 0}, _Ctx())
        seen |= sites
    missing = sorted("%s->%s" % x for x in static - seen)
    ctx.nontrivial()
    ctx.label("static-sites=%d" % len(static),
              "exercised=%d" % len(static & seen))
    ctx.note({"static_call_sites": sorted("%s->%s" % x for x in static),
              "unexercised": missing})


LEGS = [
    Leg("sites", run=run_sites, enum=enum_sites, exhaustive=True,
        rule="coverage measure only: every syntactic self.device.<m> call "
             "site in ContactlessFrontend vs the sites the fixed programs "
             "reach dynamically."),
    Leg("programs", run=run, gen=lambda tier: programs(), quick=3000,
        thorough=60000, shards_quick=6, shards_thorough=16, nt_floor=0.2,
        rule="2-4 threads x up to 5 operations out of 20 public entry point uses "
             "(incl. connect with rdwr/llcp/card) x schedule choice list; "
             "non-trivial = some thread was waiting for the frontend lock "
             "while another was inside a driver call."),
    Leg("failing", run=run, gen=lambda tier: programs_failing(), quick=2500,
        thorough=50000, shards_quick=6, shards_thorough=16, nt_floor=0.3,
        rule="1-4 threads x up to 5 operations (the 20 entry point uses, "
             "close / __exit__ / open and the short operations weighted up) "
             "over a driver that FAILS: the k-th driver close() raises "
             "IOError by a generated pattern (the frontend swallows it), and "
             "up to 3 other driver calls (by call index) raise IOError(EIO / "
             "ENODEV); x schedule choice list. The driver object remembers "
             "that its close() was called - whether it returned or raised - "
             "and every later call on that object is a violation, next to the "
             "lock and overlap clauses. Non-trivial = a frontend operation "
             "was started after a driver call had failed, or a thread waited "
             "for the lock while another was inside a driver call."),
    Leg("preempt-failing", run=run, enum=enum_preempt_failing,
        exhaustive=True, shards_quick=8, shards_thorough=16,
        rule="%d fixed 1-3 thread programs in which close() / __exit__() "
             "meet a driver close() that raises IOError (and, in two of "
             "them, other failing driver calls) before operations of the "
             "same or another thread x one forced preemption (two "
             "alternative threads) at every scheduling point."
             % len(FIXED_FAIL)),
    Leg("interrupt", run=run, gen=lambda tier: programs_interrupt(),
        quick=2500, thorough=50000, shards_quick=6, shards_thorough=16,
        nt_floor=0.3,
        rule="2-4 threads x up to 6 operations out of the 20 entry point uses "
             "and %d interrupted connects: connect(rdwr | card | llcp) whose "
             "terminate callback (on its n-th call), on-startup, on-discover, "
             "on-connect or on-release callback raises KeyboardInterrupt - at "
             "least one per case, followed by a further operation of the same "
             "thread, the callback taking 0 - 4 ms before it raises - and up to 2 driver calls of the program's main thread "
             "(by call index, close() excepted) that raise KeyboardInterrupt "
             "(Ctrl-C reaches the main thread only); x schedule choice list. "
             "The frontend lock has the real threading.Lock semantics (any "
             "thread can release a locked lock). Oracle as everywhere: lock "
             "owned by the caller at every driver entry and still at the end "
             "of the driver call, no two threads inside driver calls, no call "
             "on a closed device. Non-trivial = a KeyboardInterrupt was "
             "raised while ANOTHER thread was inside a driver call and a "
             "frontend operation was started after that." % len(KBI_OPS)),
    Leg("preempt-interrupt", run=run, enum=enum_preempt_interrupt,
        exhaustive=True, shards_quick=8, shards_thorough=16,
        rule="%d fixed 2-3 thread programs in which connect() is left by "
             "KeyboardInterrupt (terminate / on-discover / on-connect / "
             "on-release callback of rdwr, card and llcp connects, one "
             "interrupted driver call) before further operations of the same "
             "thread, next to threads that sense / listen / exchange / "
             "connect x {0, 0.1, 0.3, 0.7} ms spent in the interrupting "
             "callback x one forced preemption (two alternative threads) at "
             "every scheduling point; real threading.Lock semantics for the "
             "frontend lock." % len(FIXED_KBI)),
    Leg("preempt-line", run=run, enum=enum_preempt_line, exhaustive=True,
        shards_quick=16, shards_thorough=16,
        rule="the fixed 2-3 thread programs x one preemption at source-line "
             "granularity: before every (quick: every second) line a thread "
             "executes inside nfcpy (frontend, tag, llcp code alike) it loses "
             "the CPU and another runnable thread goes on - also between a "
             "check and the lock acquisition that should have covered it.  "
             "Same oracle (every driver call under the frontend lock, by its "
             "owner, never on a closed device).  Non-trivial = the preemption "
             "took place."),
    Leg("preempt", run=run, enum=enum_preempt, exhaustive=True,
        shards_quick=8, shards_thorough=16,
        rule="fixed 2-3 thread programs x one forced preemption (two "
             "alternative threads) at every scheduling point."),
]
