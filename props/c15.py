"""C15 - the frontend never lets two threads drive the device at once.

A recording driver proxy sits under a real ContactlessFrontend; 2-4
application threads run generated programs over the public entry points
(open, close, sense, listen, exchange, max_send/recv_data_size,
connect(rdwr=...) with a present or disappearing tag and its presence-check,
LED/buzzer and callback phases, connect(llcp=...), connect(card=...),
__exit__) under the virtual scheduler.  The proxy yields in the middle of
every driver method so that overlap is observable.

Oracle, evaluated at the entry of every driver method:
  * the frontend's lock is held by the calling thread
  * no other thread is inside any driver method
  * the device object has not been closed (its close() was not called
    before, whether that call returned or raised)

Legs `failing` / `preempt-failing`: the driver FAILS inside the programs -
close() raises IOError (swallowed by the frontend), other driver calls raise
IOError - and the programs go on using the frontend from the same and from
other threads.

Schedules: generated choice lists, and (leg `preempt`) every position of one
forced preemption for fixed two/three-thread programs.  As a coverage
measure the syntactic `self.device.<m>(...)` call sites of ContactlessFrontend
(found with ast) are compared with the call sites seen dynamically; the
verdict comes from the dynamic oracle only.
"""
import ast
import errno
import os
import sys

from hypothesis import strategies as st

import nfc
import nfc.clf
import nfc.clf.device

from vlib import vsched
from vlib.engine import REPO_SRC, Leg, Violation

PROPERTY = "C15"
LEVEL = "exploration"
ASSUMPTIONS = [
    "interleavings are explored at synchronisation-point granularity plus one "
    "yield inside every driver call; byte-code level races are not explored",
    "the per-call-site clause is measured (static sites vs sites exercised), "
    "not established syntactically",
]


def setup():
    vsched.patch_nfc()


# ----------------------------------------------------------------- the proxy
class World(object):
    def __init__(self):
        self.clf = None
        self.inside = []
        self.violations = []
        self.sites = set()
        self.tag_checks = 3       # presence checks until the tag disappears
        self.tag_present = True
        self.ncalls = 0
        self.overlap_window = False
        self.reader_visits = 1    # how often a reader activates the card
        self.reader_cmds = 0
        # failing driver: the k-th driver close() raises IOError when
        # close_fail[k % len] is true; the driver call with index n (counted
        # over all methods but close) raises IOError when n is in fail_at
        self.close_fail = []
        self.fail_at = ()
        self.nclose = 0
        self.failed_closes = 0
        self.failed_calls = 0
        self.ops_after_failure = 0


class ProxyDevice(nfc.clf.device.Device):
    def __init__(self, world):
        self.w = world
        self.closed = False
        self._path = "sim:proxy"
        self._vendor_name = "Sim"
        self._device_name = "Proxy"
        self._chipset_name = "SIM"

    def _call(self, name):
        w = self.w
        s = vsched.current()
        me = s.me()
        f = sys._getframe(2)
        while f is not None and not f.f_code.co_filename.endswith(
                "nfc/clf/__init__.py"):
            f = f.f_back
        func = f.f_code.co_name if f is not None else "?"
        if f is not None:
            w.sites.add((func, name))
        lock = w.clf.lock
        held = getattr(lock, "owner", None) is me
        w.ncalls += 1
        if not held:
            w.violations.append(("driver-call-without-lock", func, name,
                                 me.name))
        if w.inside:
            w.violations.append(("overlapping-driver-calls", func, name,
                                 "%s while %r" % (me.name, w.inside)))
        if self.closed:
            w.violations.append(("driver-call-on-closed-device", func, name,
                                 me.name))
        pending = [t for t in s.threads
                   if t is not me and t.state == vsched.BLOCKED
                   and t.wait_on is lock]
        if pending:
            w.overlap_window = True
        n = w.ncalls - 1
        w.inside.append((me.name, name))
        try:
            s.sleep(0.0005)       # the driver call takes time: others run
        finally:
            w.inside.remove((me.name, name))
        if name != "close" and n in w.fail_at:
            # the host link broke during this call
            w.failed_calls += 1
            code = errno.ENODEV if n % 2 else errno.EIO
            raise IOError(code, os.strerror(code))

    # ---- driver interface
    def close(self):
        w = self.w
        k = w.nclose
        w.nclose += 1
        try:
            self._call("close")
        finally:
            # close() was called: whatever it reports, this device object
            # must not be driven again
            self.closed = True
        if w.close_fail and w.close_fail[k % len(w.close_fail)]:
            # e.g. the final RF-off / ACK write to an unplugged reader fails
            # after the transport was released
            w.failed_closes += 1
            raise IOError(errno.EIO, os.strerror(errno.EIO))

    def mute(self):
        self._call("mute")

    def sense_tta(self, target):
        self._call("sense_tta")
        if target.brty != "106A":
            raise nfc.clf.UnsupportedTargetError(target.brty)
        if not self.w.tag_present:
            return None
        return nfc.clf.RemoteTarget(
            "106A", sens_res=bytearray(b"\x44\x00"),
            sel_res=bytearray(b"\x00"),
            sdd_res=bytearray.fromhex("02112233445566"))

    def sense_ttb(self, target):
        self._call("sense_ttb")
        return None

    def sense_ttf(self, target):
        self._call("sense_ttf")
        if target.brty not in ("212F", "424F"):
            raise nfc.clf.UnsupportedTargetError(target.brty)
        return None

    def sense_dep(self, target):
        self._call("sense_dep")
        raise nfc.clf.UnsupportedTargetError("no active mode")

    def _listen(self, name, timeout):
        self._call(name)
        vsched.current().sleep(min(timeout, 0.2))
        return None

    def listen_tta(self, target, timeout):
        return self._listen("listen_tta", timeout)

    def listen_ttb(self, target, timeout):
        return self._listen("listen_ttb", timeout)

    def listen_ttf(self, target, timeout):
        r = self._listen("listen_ttf", timeout)
        if self.w.reader_visits > 0:
            self.w.reader_visits -= 1
            self.w.reader_cmds = 2
            t = nfc.clf.LocalTarget(target.brty)
            t.sensf_res = bytearray(target.sensf_res)
            t.tt3_cmd = bytearray.fromhex("0602FE0102030405")  # Req. Response
            return t
        return r

    def listen_dep(self, target, timeout):
        return self._listen("listen_dep", timeout)

    def send_cmd_recv_rsp(self, target, data, timeout):
        self._call("send_cmd_recv_rsp")
        if not self.w.tag_present:
            raise nfc.clf.TimeoutError("gone")
        if bytes(data[:1]) == b"\x30":
            if bytes(data) == b"\x30\x00":
                self.w.tag_checks -= 1
                if self.w.tag_checks < 0:
                    self.w.tag_present = False
                    raise nfc.clf.TimeoutError("gone")
            return bytearray.fromhex("02112299334455664448000000000000")
        raise nfc.clf.TimeoutError("unknown command")

    def send_rsp_recv_cmd(self, target, data, timeout):
        self._call("send_rsp_recv_cmd")
        if self.w.reader_cmds > 0:
            self.w.reader_cmds -= 1
            return bytearray.fromhex("0A0402FE010203040506")
        raise nfc.clf.BrokenLinkError("reader left")

    def get_max_send_data_size(self, target):
        self._call("get_max_send_data_size")
        return 290

    def get_max_recv_data_size(self, target):
        self._call("get_max_recv_data_size")
        return 290

    def turn_on_led_and_buzzer(self):
        self._call("turn_on_led_and_buzzer")

    def turn_off_led_and_buzzer(self):
        self._call("turn_off_led_and_buzzer")


# ---------------------------------------------------------------- programs
OPS = ["open", "close", "sense-a", "sense-af", "sense-f", "sense-b",
       "sense-dep", "listen-tta", "listen-ttb", "listen-dep",
       "listen-ttf", "exchange", "max-send", "max-recv", "connect-rdwr",
       "connect-rdwr-stay", "connect-rdwr-beep", "connect-llcp",
       "connect-card", "exit"]


def do_op(w, op):
    clf = w.clf
    if w.failed_closes or w.failed_calls:
        w.ops_after_failure += 1
    if op == "open":
        clf.open("usb")
    elif op == "close":
        clf.close()
    elif op == "exit":
        clf.__exit__(None, None, None)
    elif op == "sense-a":
        clf.sense(nfc.clf.RemoteTarget("106A"))
    elif op == "sense-af":
        clf.sense(nfc.clf.RemoteTarget("106A"), nfc.clf.RemoteTarget("212F"),
                  nfc.clf.RemoteTarget("106B"), iterations=2, interval=0.05)
    elif op == "sense-f":
        clf.sense(nfc.clf.RemoteTarget("212F"))
    elif op == "sense-b":
        clf.sense(nfc.clf.RemoteTarget("106B"))
    elif op == "sense-dep":
        clf.sense(nfc.clf.RemoteTarget("106A", atr_req=bytearray(16)),
                  nfc.clf.RemoteTarget("106A"))
    elif op == "listen-tta":
        t = nfc.clf.LocalTarget("106A", sens_res=bytearray(2),
                                sdd_res=bytearray(4), sel_res=bytearray(1))
        clf.listen(t, 0.1)
    elif op == "listen-ttb":
        clf.listen(nfc.clf.LocalTarget("106B"), 0.1)
    elif op == "listen-dep":
        t = nfc.clf.LocalTarget("106A", atr_res=bytearray(17))
        clf.listen(t, 0.1)
    elif op == "listen-ttf":
        t = nfc.clf.LocalTarget("212F", sensf_res=bytearray(19))
        clf.listen(t, 0.1)
    elif op == "exchange":
        clf.exchange(bytearray(b"\x30\x04"), 0.1)
    elif op == "max-send":
        clf.max_send_data_size
    elif op == "max-recv":
        clf.max_recv_data_size
    elif op.startswith("connect-rdwr"):
        n = {"k": 0}

        def terminate():
            n["k"] += 1
            return n["k"] > 6
        stay = op != "connect-rdwr"
        clf.connect(rdwr={"on-connect": lambda tag: stay,
                          "beep-on-connect": op.endswith("beep"),
                          "iterations": 1, "interval": 0.05},
                    terminate=terminate)
    elif op == "connect-llcp":
        n = {"k": 0}

        def terminate():
            n["k"] += 1
            return n["k"] > 2
        clf.connect(llcp={"role": "target", "lto": 100}, terminate=terminate)
    elif op == "connect-card":
        n = {"k": 0}

        def terminate():
            n["k"] += 1
            return n["k"] > 2

        def startup(target):
            target.brty = "212F"
            target.sensf_res = bytearray.fromhex(
                "0102FE010203040506FFFFFFFFFFFFFFFF12FC")
            return target
        clf.connect(card={"on-startup": startup}, terminate=terminate)


def run(case, ctx):
    s = vsched.Sched(case.get("choices", []), seed=case.get("seed", 0),
                     step_budget=200000)
    if case.get("force"):
        s.forced = dict((int(p), int(k)) for p, k in case["force"])
    vsched.activate(s)
    w = World()
    w.tag_checks = case.get("tag_checks", 3)
    w.reader_visits = case.get("reader_visits", 1)
    w.close_fail = [bool(x) for x in case.get("close_fail", [])]
    w.fail_at = frozenset(int(x) for x in case.get("fail_at", []))
    other = []
    saved_connect = nfc.clf.device.connect
    try:
        nfc.clf.device.connect = lambda path: ProxyDevice(w)
        w.clf = nfc.clf.ContactlessFrontend()
        if case.get("opened", True):
            w.clf.open("usb")

        def thread(prog):
            def body():
                for op in prog:
                    try:
                        do_op(w, op)
                    except (vsched.Abort, vsched.StepBudget):
                        raise
                    except (IOError, nfc.clf.Error, ValueError,
                            SystemExit) as e:
                        other.append((op, type(e).__name__))
                    except BaseException as e:
                        other.append((op, "UNEXPECTED:%r" % (e,)))
            return body
        for i, prog in enumerate(case["programs"]):
            s.spawn(thread(prog), "app%d" % i)
        s.settle()
        s.sleep(30.0)
        s.settle()
        alive = [t.name for t in s.alive()]
        points = s.points
    finally:
        nfc.clf.device.connect = saved_connect
        s.shutdown()
        vsched.activate(None)
    for func, name in sorted(w.sites):
        ctx.label("site:%s->%s" % (func, name))
    if w.overlap_window:
        ctx.nontrivial()
        ctx.label("driver-call-while-another-thread-waits")
    if w.failed_closes:
        ctx.label("driver-close-raised")
    if w.failed_calls:
        ctx.label("driver-call-raised")
    if w.ops_after_failure:
        ctx.label("operation-after-driver-failure")
        if case.get("close_fail") or case.get("fail_at"):
            ctx.nontrivial()
    if w.violations:
        kind, func, name, who = w.violations[0]
        ctx.set_class("%s/%s" % (func, name))
        raise Violation(kind, "%s() calls device.%s(): %s; %d violations, "
                              "first five %r" % (func, name, who,
                                                 len(w.violations),
                                                 w.violations[:5]))
    if alive:
        raise Violation("program-did-not-finish", repr(alive))
    ctx.note({"driver_calls": w.ncalls, "sites": len(w.sites),
              "scheduling_points": points,
              "exceptions_seen": sorted(set(x[1] for x in other))[:6]})
    return points, w.sites


def programs():
    prog = st.lists(st.sampled_from(OPS), min_size=1, max_size=5)
    return st.fixed_dictionaries({
        "programs": st.lists(prog, min_size=2, max_size=4),
        "opened": st.sampled_from([True, True, True, False]),
        "tag_checks": st.integers(0, 5),
        "reader_visits": st.integers(0, 2),
        "choices": st.lists(st.integers(0, 3), max_size=60),
        "seed": st.integers(0, 255)})


FAIL_OPS = OPS + ["close", "close", "exit", "exit", "open", "sense-a",
                  "exchange", "max-send", "max-recv"]


def programs_failing():
    """programs over a driver whose calls fail: close() raising IOError (the
    frontend swallows it) and other driver calls raising IOError"""
    prog = st.lists(st.sampled_from(FAIL_OPS), min_size=1, max_size=5)
    return st.fixed_dictionaries({
        "programs": st.lists(prog, min_size=1, max_size=4),
        "opened": st.sampled_from([True, True, True, False]),
        "tag_checks": st.integers(0, 5),
        "reader_visits": st.integers(0, 2),
        "close_fail": st.sampled_from([[True], [True], [True, False],
                                       [False, True], [True, True, False],
                                       []]),
        "fail_at": st.lists(st.one_of(st.integers(0, 8), st.integers(0, 60)),
                            max_size=3),
        "choices": st.lists(st.integers(0, 3), max_size=60),
        "seed": st.integers(0, 255)})


# (programs, close_fail, fail_at)
FIXED_FAIL = [
    ([["close"], ["sense-a", "exchange", "max-send"]], [True], []),
    ([["sense-a", "exit", "max-recv", "listen-tta"]], [True], []),
    ([["exit"], ["connect-rdwr"], ["max-send", "close"]], [True, False], []),
    ([["close", "open", "sense-a"], ["exchange", "listen-ttf"]], [True], []),
    ([["sense-af", "close"], ["connect-card"]], [True], [1, 4]),
    ([["connect-rdwr-beep", "close"], ["sense-a", "max-recv"]], [False, True],
     [3]),
]


FIXED = [
    [["connect-rdwr-beep"], ["exchange", "max-send", "sense-a"]],
    [["connect-rdwr-stay"], ["close"]],
    [["sense-af", "exchange"], ["close", "open", "max-recv"]],
    [["connect-llcp"], ["listen-ttf", "exit"]],
    [["connect-card", "sense-f"], ["exchange"], ["max-send", "max-recv"]],
    [["open", "sense-a", "exchange"], ["open", "listen-dep"]],
]


class _Ctx(object):
    def __getattr__(self, name):
        return lambda *a, **k: None


def enum_preempt_failing(tier, seed):
    return enum_preempt(tier, seed, FIXED_FAIL)


def enum_preempt(tier, seed, fixed=None):
    if fixed is None:
        fixed = [(progs, [], []) for progs in FIXED]
    for progs, close_fail, fail_at in fixed:
        base = {"programs": progs, "opened": True, "tag_checks": 2,
                "choices": [], "seed": 0}
        if close_fail or fail_at:
            base.update(close_fail=close_fail, fail_at=fail_at)
        try:
            points, _ = run(dict(base), _Ctx())
        except Violation:
            yield base
            continue
        step = 1 if tier == "thorough" or points < 150 else 2
        for p in range(1, points + 1, step):
            for pick in (1, 2):
                yield dict(base, force=[[p, pick]])


def static_sites():
    path = REPO_SRC + "/nfc/clf/__init__.py"
    tree = ast.parse(open(path).read())
    sites = set()

    class V(ast.NodeVisitor):
        def __init__(self):
            self.stack = []

        def visit_FunctionDef(self, node):
            self.stack.append(node.name)
            self.generic_visit(node)
            self.stack.pop()

        def visit_Attribute(self, node):
            v = node.value
            if isinstance(v, ast.Attribute) and v.attr == "device" and \
                    isinstance(v.value, ast.Name) and v.value.id == "self":
                if node.attr not in ("path", "vendor_name", "product_name"):
                    sites.add((self.stack[-1] if self.stack else "?",
                               node.attr))
            self.generic_visit(node)
    V().visit(tree)
    return sites


def enum_sites(tier, seed):
    yield {"all": True}


def run_sites(case, ctx):
    """coverage measure: syntactic device call sites vs sites exercised"""
    static = static_sites()
    seen = set()
    for progs in FIXED + [[[op]] for op in OPS]:
        _, sites = run({"programs": progs, "opened": True, "tag_checks": 2,
                        "choices": [], "seed": 0}, _Ctx())
        seen |= sites
    missing = sorted("%s->%s" % x for x in static - seen)
    ctx.nontrivial()
    ctx.label("static-sites=%d" % len(static),
              "exercised=%d" % len(static & seen))
    ctx.note({"static_call_sites": sorted("%s->%s" % x for x in static),
              "unexercised": missing})


LEGS = [
    Leg("sites", run=run_sites, enum=enum_sites, exhaustive=True,
        rule="coverage measure only: every syntactic self.device.<m> call "
             "site in ContactlessFrontend vs the sites the fixed programs "
             "reach dynamically."),
    Leg("programs", run=run, gen=lambda tier: programs(), quick=3000,
        thorough=60000, shards_quick=6, shards_thorough=16, nt_floor=0.2,
        rule="2-4 threads x up to 5 operations out of 20 public entry point uses "
             "(incl. connect with rdwr/llcp/card) x schedule choice list; "
             "non-trivial = some thread was waiting for the frontend lock "
             "while another was inside a driver call."),
    Leg("failing", run=run, gen=lambda tier: programs_failing(), quick=2500,
        thorough=50000, shards_quick=6, shards_thorough=16, nt_floor=0.3,
        rule="1-4 threads x up to 5 operations (the 20 entry point uses, "
             "close / __exit__ / open and the short operations weighted up) "
             "over a driver that FAILS: the k-th driver close() raises "
             "IOError by a generated pattern (the frontend swallows it), and "
             "up to 3 other driver calls (by call index) raise IOError(EIO / "
             "ENODEV); x schedule choice list. The driver object remembers "
             "that its close() was called - whether it returned or raised - "
             "and every later call on that object is a violation, next to the "
             "lock and overlap clauses. Non-trivial = a frontend operation "
             "was started after a driver call had failed, or a thread waited "
             "for the lock while another was inside a driver call."),
    Leg("preempt-failing", run=run, enum=enum_preempt_failing,
        exhaustive=True, shards_quick=8, shards_thorough=16,
        rule="%d fixed 1-3 thread programs in which close() / __exit__() "
             "meet a driver close() that raises IOError (and, in two of "
             "them, other failing driver calls) before operations of the "
             "same or another thread x one forced preemption (two "
             "alternative threads) at every scheduling point."
             % len(FIXED_FAIL)),
    Leg("preempt", run=run, enum=enum_preempt, exhaustive=True,
        shards_quick=8, shards_thorough=16,
        rule="fixed 2-3 thread programs x one forced preemption (two "
             "alternative threads) at every scheduling point."),
]
