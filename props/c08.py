"""C08 - activating and reading arbitrary tags terminates safely.

Generator families per tag type
  *-mem     memory-backed simulators whose images are valid layouts mutated
            (TLV lengths beyond memory / data area, control TLVs pointing
            anywhere, missing terminator, unknown TLV types, attribute blocks
            with bad checksum / Nbr,Nbw = 0 / oversized Ln, CC files with
            inconsistent lengths, NLEN beyond the file, missing files) or
            entirely random
  *-script  scripted responders: arbitrary well-framed answers for the first
            n commands, then silence or endless repetition of the last
            answer; activation response variants (ATS with any subset of
            TA/TB/TC + historical bytes, SENSB_RES/ATTRIB variants, HR0/HR1,
            SENSF_RES with/without system code, GET_VERSION / AUTHENTICATE
            answers, NAK anywhere)
  t4t-failat  memory-backed Type 4 tag with a valid NDEF application that
            fails at the k-th APDU (silent, error status word, cut answer),
            exhaustively over k, failure mode and a grid of configurations

  leaves-field  the memory-backed tags of the *-mem families under the real
            ContactlessFrontend (clf.sense() that finds nothing clears the
            captured target, exchange() without target returns None) which
            leave the field at a generated point of the session - commands
            and the polls of the library's own re-activation attempts are
            counted alike - and a tag object that is probed several times
            (tag.ndef again, has_changed of an NDEF object obtained before,
            is_present); the oracle below applies to every evaluation

Oracle: nfc.tag.activate() returns None or a Tag; tag.ndef, and on an NDEF
object length / capacity / octets / has_changed, return without any
exception; the number of commands stays within a budget derived from the
largest structure the tag declares (BudgetExceeded = unbounded); if an NDEF
object results, length <= capacity <= size of the declared data area and the
octets are bytes of that data area.
"""
import struct

from hypothesis import strategies as st

import nfc.clf
import nfc.tag

from vlib import isodep_card, ref_tlv, simtags, tagdev
from vlib.engine import Leg, Violation, unexpected, twin_env
from props import tagcommon as tc

PROPERTY = "C08"
LEVEL = "exploration"
ASSUMPTIONS = [
    "well-framed = what a driver hands up after CRC/parity checking; Type 3 "
    "frames always carry their LEN byte (value arbitrary in part of the cases)",
    "command budgets per read pass (tag.ndef and has_changed are two passes): "
    "T1T 80; T2T 4800 (a 16-bit TLV length read in 16-byte steps); T3T "
    "declared Nmaxb + 100; T4T 300 + 3 x declared file size (capped by the "
    "physical file + 600) - beyond that the reader counts as looping",
    "simulators as in C01",
    "leaves-field leg: a tag that left the field answers neither polls nor "
    "commands and keeps its memory; tag.is_present is evaluated under the "
    "same no-exception / bounded-commands oracle (its value is not judged)",
]

byte = st.integers(0, 255)


# ------------------------------------------------------------ scripted tag
class ScriptTag(simtags.TagSim):
    def __init__(self, tech, attrs, answers, tail, brty=None):
        simtags.TagSim.__init__(self)
        self.tech = tech
        self.attrs = attrs
        self.answers = answers
        self.tail = tail
        if brty:
            self.brty = brty
        self.i = 0

    def target(self, poll):
        t = nfc.clf.RemoteTarget(poll.brty)
        for k, v in self.attrs.items():
            if v is not None:
                setattr(t, k, bytearray(v))
        return t

    def command(self, cmd, timeout=None):
        self.ncmd += 1
        i = self.i
        self.i += 1
        if i < len(self.answers):
            return self.answers[i]
        if self.tail == "repeat" and self.answers:
            return self.answers[-1]
        return None


# --------------------------------------------------------------- the oracle
def probe(ctx, tag_sim, budget, dev_kw=None, area=None, check_octets=None):
    """activate + evaluate ndef under the C08 oracle.  area = size of the
    declared data area (or None), check_octets(octets) -> error text|None"""
    budget = 2 * budget + 20       # tag.ndef and has_changed read twice
    clf = tagdev.frontend(tag_sim, budget=budget, **(dev_kw or {}))
    try:
        target = clf.sense(tagdev.sense_target(tag_sim))
        if target is None:
            ctx.label("not-sensed")
            return
        try:
            tag = nfc.tag.activate(clf, target)
        except Exception as e:
            raise unexpected(e, "activate-raises")
        if tag is None:
            ctx.label("activate->None")
            return
        ctx.label("activated:" + type(tag).__name__)
        try:
            ndef = tag.ndef
        except Exception as e:
            raise unexpected(e, "ndef-raises")
        if ndef is None:
            ctx.label("ndef->None")
            return
        ctx.label("ndef-object")
        try:
            length, cap, octets = ndef.length, ndef.capacity, ndef.octets
        except Exception as e:
            raise unexpected(e, "ndef-attribute-raises")
        if length != len(octets):
            raise Violation("length-inconsistent", "%d vs %d"
                            % (length, len(octets)))
        if length > cap:
            raise Violation("length-exceeds-capacity",
                            "length %d capacity %d" % (length, cap))
        if area is not None and cap > area:
            raise Violation("capacity-exceeds-data-area",
                            "capacity %d, declared data area %d" % (cap, area))
        if check_octets is not None:
            err = check_octets(octets)
            if err:
                raise Violation("octets-outside-data-area", err)
        try:
            changed = ndef.has_changed
            nd2 = tag.ndef
            if nd2 is not None:
                nd2.length, nd2.capacity, nd2.octets
        except Exception as e:
            raise unexpected(e, "has-changed-raises")
        ctx.label("has_changed=%s" % changed)
    except tagdev.BudgetExceeded:
        raise Violation("unbounded-commands",
                        "more than %d commands" % budget)


def subsequence(octets, area_bytes):
    """octets must be an in-order subsequence of the data area bytes"""
    it = iter(area_bytes)
    for i, x in enumerate(octets):
        for y in it:
            if x == y:
                break
        else:
            return "octet %d of %d not found in the data area" % (
                i, len(octets))
    return None


# ------------------------------------------------------- T1T / T2T memory
def pokes():
    where = st.sampled_from(["cc", "tlv", "data", "abs"])
    val = st.one_of(byte, st.sampled_from([0, 1, 2, 3, 0xFD, 0xFE, 0xFF,
                                           0x7F, 0x80, 0xE1, 0x10, 0x20]))
    return st.lists(st.tuples(where, st.integers(0, 2100), val), max_size=6)


def t12_case(desc):
    return st.fixed_dictionaries({
        "tag": desc, "old": tc.len_spec(False), "old_seed": byte,
        "pokes": pokes(),
        # the stored message fills the data area and the length field of its
        # TLV claims this many octets more
        "len_bump": st.sampled_from([0, 0, 0, 0] + list(range(1, 17))),
        "random_image": st.one_of(st.none(), st.none(), st.none(),
                                  st.binary(min_size=16, max_size=160)),
        "phys_cut": st.sampled_from([0, 0, 0, 8, 16, 64])})


def run_t12(case, ctx, runner=None):
    desc = case["tag"]
    bump = case.get("len_bump", 0)
    b = tc.build(desc, ["cap", 0] if bump else case["old"], case["old_seed"])
    if b is None:
        ctx.label("layout-without-room")
        return
    kind = desc["kind"]
    mem = b.tag.mem
    i = b.info
    if bump:
        n, av = len(b.old), i["avail"]
        if n + bump < 255 and len(av) >= 2:
            mem[av[1]] = n + bump
            ctx.label("length-field-overshoots")
        elif n >= 255 and len(av) >= 4:
            mem[av[2]], mem[av[3]] = (n + bump) >> 8, (n + bump) & 255
            ctx.label("length-field-overshoots")
    if case["random_image"] is not None:
        img = case["random_image"]
        start = 12 if kind == "t2t" else 8
        mem[start:start + len(img)] = img[:max(0, len(mem) - start)]
        del mem[len(b.tag.mem):]
        ctx.label("random-image")
    for where, off, val in case["pokes"]:
        base = {"cc": 12 if kind == "t2t" else 8, "tlv": i["tlv_off"],
                "data": i["data_start"], "abs": 0}[where]
        a = base + off if where == "abs" else base + off % 24
        if where == "abs":
            a = off
        if (kind == "t2t" and a < 10) or (kind == "t1t" and a < 8):
            continue
        if a < len(mem):
            mem[a] = val
    if case["phys_cut"] and len(mem) - case["phys_cut"] >= 64:
        del mem[len(mem) - case["phys_cut"]:]      # less memory than declared
        ctx.label("physical<declared")
    ctx.set_class(kind + "-mem")
    if kind == "t2t":
        magic = mem[12] == 0xE1 and mem[13] >> 4 == 1
        area = mem[14] * 8
        data = bytes(mem[16:16 + area])
        budget = 4800
    else:
        magic = mem[8] == 0xE1 and mem[9] >> 4 == 1
        area = max(0, (mem[10] + 1) * 8 - 12)
        data = bytes(mem[12:(mem[10] + 1) * 8])
        budget = 80
    if magic:
        ctx.nontrivial()
    if not case["pokes"] and case["random_image"] is None and \
            not case["phys_cut"]:
        # the layout is the one the builder laid out (only the length field
        # may overshoot): lock and reserved bytes named by its control TLVs
        # are not part of the data area, the capacity is the layout's
        area = b.cap
        data = bytes(mem[a] for a in i["avail"])
        ctx.label("layout-intact")
    declared_end = (16 + mem[14] * 8) if kind == "t2t" else (mem[10] + 1) * 8
    if len(mem) < declared_end:
        # the tag serves roll-over / filler bytes for addresses it does not
        # have; where they come from cannot be told from the memory image
        check = None
    else:
        check = lambda o: subsequence(o, data)      # noqa: E731
    (runner or probe)(ctx, b.tag, budget, area=area, check_octets=check)


# ------------------------------------------------------------ T3T memory
def t3_case():
    field = lambda s: st.one_of(st.none(), s)    # noqa: E731
    return st.fixed_dictionaries({
        "tag": tc.t3t_desc("t3t"), "old": tc.len_spec(False),
        "old_seed": byte,
        "ver": field(byte), "nbr": field(st.sampled_from([0, 1, 15, 16, 255])),
        "nbw": field(st.sampled_from([0, 1, 13, 255])),
        "nmaxb": field(st.sampled_from([0, 1, 0x100, 0x7FFF, 0xFFFF])),
        "writef": field(byte), "rwflag": field(byte),
        "ln": field(st.one_of(st.integers(0, 0xFFFFFF),
                              st.sampled_from([0xFFFFFF, 0x010000, 4096]))),
        "bad_checksum": st.sampled_from([False, False, False, True]),
        "rfu": field(byte),
        "phys_blocks": field(st.integers(1, 12)),
        "syscode": st.sampled_from(["12FC", "12FC", "FFFF", "8008"]),
        "with_sc": st.booleans()})


def run_t3(case, ctx, runner=None):
    desc = case["tag"]
    b = tc.build(desc, case["old"], case["old_seed"])
    a = b.tag.blocks[0]
    if case["ver"] is not None:
        a[0] = case["ver"]
    if case["nbr"] is not None:
        a[1] = case["nbr"]
    if case["nbw"] is not None:
        a[2] = case["nbw"]
    if case["nmaxb"] is not None:
        a[3:5] = struct.pack(">H", case["nmaxb"])
    if case["rfu"] is not None:
        a[5] = case["rfu"]
    if case["writef"] is not None:
        a[9] = case["writef"]
    if case["rwflag"] is not None:
        a[10] = case["rwflag"]
    if case["ln"] is not None:
        a[11:14] = struct.pack(">I", case["ln"])[1:]
    a[14:16] = struct.pack(">H", (sum(a[0:14]) + (1 if case["bad_checksum"]
                                                  else 0)) & 0xFFFF)
    if case["phys_blocks"] is not None:
        del b.tag.blocks[case["phys_blocks"]:]
    b.tag.syscode = bytes.fromhex(case["syscode"])
    ctx.set_class("t3t-mem")
    nmaxb = struct.unpack(">H", bytes(a[3:5]))[0]
    if not case["bad_checksum"] and a[0] >> 4 == 1 and \
            case["syscode"] in ("12FC",):
        ctx.nontrivial()
    data = b"".join(bytes(x) for x in b.tag.blocks[1:1 + nmaxb])
    (runner or probe)(
        ctx, b.tag, nmaxb + 100, area=nmaxb * 16,
        check_octets=lambda o: None if data.startswith(o) else
        "octets are not the leading bytes of blocks 1..Nmaxb")


# ------------------------------------------------------------ T4T memory
class WeirdApp(isodep_card.T4App):
    """T4App whose READ BINARY answers can be shortened/extended/emptied"""
    read_mode = None

    def execute(self, apdu):
        rsp = isodep_card.T4App.execute(self, apdu)
        if rsp is not None and len(apdu) > 1 and apdu[1] == 0xB0 and \
                rsp[-2:] == b"\x90\x00" and self.read_mode:
            body = rsp[:-2]
            kind, n = self.read_mode
            if kind == "short":
                body = body[:max(0, len(body) - n)]
            elif kind == "empty":
                body = b""
            elif kind == "one":
                body = body[:1]
            elif kind == "long":
                body = body + bytes([0xEE]) * n
            return body + b"\x90\x00"
        return rsp


def t4_case():
    field = lambda s: st.one_of(st.none(), s)    # noqa: E731
    u16 = st.one_of(st.integers(0, 0xFFFF),
                    st.sampled_from([0, 1, 2, 14, 15, 16, 255, 256, 0xFFFF]))
    return st.fixed_dictionaries({
        "tag": tc.t4t_desc().map(lambda d: dict(
            d, fsize=min(d["fsize"], 2000), wtx=0)),
        "old": tc.len_spec(False), "old_seed": byte,
        "cclen": field(u16), "ver": field(byte), "mle": field(u16),
        "mlc": field(u16), "tlv_t": field(byte), "tlv_l": field(byte),
        "fid": field(st.sampled_from(["E104", "E103", "0000", "3F00",
                                      "FFFF"])),
        "fsize": field(st.one_of(u16, st.integers(0, 0xFFFFFFFF))),
        "ra": field(byte), "wa": field(byte),
        "cc_extra": st.sampled_from([0, 0, 0, 1, 5, 30]),
        "cc_trunc": st.sampled_from([0, 0, 0, 1, 3, 8]),
        "nlen": field(st.one_of(u16, st.integers(0, 0xFFFFFFFF))),
        "read_mode": st.one_of(
            st.none(), st.none(),
            st.tuples(st.sampled_from(["short", "empty", "one", "long"]),
                      st.integers(1, 20)))})


def run_t4(case, ctx, runner=None):
    desc = case["tag"]
    nl = 4 if desc["ver"] >> 4 == 3 else 2
    cap = desc["fsize"] - nl
    old = tc.message(tc.resolve_len(case["old"], cap), case["old_seed"])[:cap]
    app = WeirdApp(desc["ver"], desc["mle"], desc["mlc"], desc["fsize"],
                   desc["fsize"] + desc.get("phys_extra", 0), old,
                   filler=desc.get("filler", 0))
    cc = bytearray(app.cc)
    if case["cclen"] is not None:
        cc[0:2] = struct.pack(">H", case["cclen"])
    if case["ver"] is not None:
        cc[2] = case["ver"]
    if case["mle"] is not None:
        cc[3:5] = struct.pack(">H", case["mle"])
    if case["mlc"] is not None:
        cc[5:7] = struct.pack(">H", case["mlc"])
    if case["tlv_t"] is not None:
        cc[7] = case["tlv_t"]
    if case["tlv_l"] is not None:
        cc[8] = case["tlv_l"]
    if case["fid"] is not None:
        cc[9:11] = bytes.fromhex(case["fid"])
    if case["fsize"] is not None:
        if cc[7] == 6 and len(cc) >= 15:
            cc[11:15] = struct.pack(">I", case["fsize"])
        else:
            cc[11:13] = struct.pack(">H", case["fsize"] & 0xFFFF)
    if case["ra"] is not None:
        cc[-2] = case["ra"]
    if case["wa"] is not None:
        cc[-1] = case["wa"]
    cc += bytes([0x5A]) * case["cc_extra"]
    if case["cc_trunc"]:
        del cc[len(cc) - case["cc_trunc"]:]
    app.files[b"\xE1\x03"] = cc
    if case["nlen"] is not None:
        app.ndef_file[0:nl] = struct.pack(">I", case["nlen"])[-nl:]
    app.read_mode = case["read_mode"]
    tag = isodep_card.T4Tag(app, desc["tech"], desc["fsci"], desc["fwi"],
                            desc.get("chunk"), 0)
    ctx.set_class("t4t-mem")
    if len(cc) >= 15 and case["read_mode"] is None:
        ctx.nontrivial()
    # declared file size as the library will understand the CC
    t, fs = 0, 0
    try:
        t, = struct.unpack_from(">B", cc, 7)
        fs = struct.unpack_from(">I" if t == 6 else ">H", cc, 11)[0]
    except struct.error:
        pass
    phys = len(app.ndef_file)
    budget = 300 + 3 * min(max(fs, 1), phys + 600)
    area = max(0, fs - (t - 2)) if t in (4, 6) else None
    data = bytes(app.files.get(bytes(cc[9:11]), b""))  # file the CC names

    def check(o):
        n = (t - 2) if t in (4, 6) else nl
        if app.read_mode and app.read_mode[0] == "long":
            return None       # the card itself invents bytes
        return None if data[n:n + len(o)] == o else \
            "octets are not bytes of the NDEF file behind NLEN"
    (runner or probe)(ctx, tag, budget,
                      dev_kw={"max_send": desc["max_send"],
                              "max_recv": desc["max_recv"]},
                      area=area, check_octets=check)


# ------------------------------------ T4T: card fails at the k-th APDU
class FailApp(isodep_card.T4App):
    """valid NDEF tag application that fails from / at its k-th APDU.

    fail = [k, mode, arg]; the APDUs of a session are counted from 1.
      silent     the card is gone from APDU k on (no block is answered)
      mute-once  APDU k is executed but never answered, later ones are
      sw-once    APDU k alone is answered with status word arg
      sw-from    APDU k and every later one are answered with status arg
      short      the answer to APDU k is cut: arg = "empty" (no byte at all),
                 "one" (a single byte), "nosw" (status word missing),
                 "sw-only" (9000 without the data), "data-1" (last data byte
                 missing, 9000 kept)"""
    fail = None

    def execute(self, apdu):
        rsp = isodep_card.T4App.execute(self, apdu)
        if self.fail is None or rsp is None:
            return rsp
        k, mode, arg = self.fail
        n = self.serial
        if n < k:
            return rsp
        if mode == "silent":
            self.dead = True
            return None
        if mode == "sw-from":
            return bytes.fromhex(arg)
        if n > k:
            return rsp
        if mode == "mute-once":
            return None
        if mode == "sw-once":
            return bytes.fromhex(arg)
        body, sw = rsp[:-2], rsp[-2:]
        return {"empty": b"", "one": rsp[:1], "nosw": body, "sw-only": sw,
                "data-1": body[:-1] + sw}[arg]


STATUS_WORDS = ("6982", "6A82", "6700", "6F00", "6281")
FAIL_MODES = [("silent", None), ("mute-once", None)] \
    + [("sw-once", sw) for sw in STATUS_WORDS] \
    + [("sw-from", sw) for sw in STATUS_WORDS] \
    + [("short", a) for a in ("empty", "one", "nosw", "sw-only", "data-1")]


def failat_cfgs(tier):
    # thorough: also no retry budget (FWI 12) and one S(WTX) per command
    extra = ((4, 0),) if tier == "quick" else ((4, 0), (12, 0), (4, 1))
    for tech in ("A", "B"):
        for ver in (0x10, 0x20, 0x30):
            # (MLe, message length): data read in one / two / no READ BINARY
            for mle, mlen in ((15, 20), (255, 40), (255, 0)):
                for fsci, chunk in ((8, None), (2, 13)):
                    for fwi, wtx in extra:
                        yield {"tech": tech, "ver": ver, "mle": mle,
                               "mlen": mlen, "fsci": fsci, "chunk": chunk,
                               "fwi": fwi, "wtx": wtx}


def failat_tag(cfg, fail):
    msg = tc.message(cfg["mlen"], 7)
    app = FailApp(cfg["ver"], cfg["mle"], 255, 64, 96, msg)
    app.fail = fail
    tag = isodep_card.T4Tag(app, cfg["tech"], cfg["fsci"], cfg["fwi"],
                            cfg["chunk"], cfg["wtx"])
    return app, tag, msg


def failat_enum(tier, seed):
    class _Ctx(object):
        label = nontrivial = set_class = note = lambda self, *a: None
    for cfg in failat_cfgs(tier):
        # length of the undisturbed session (discovery, read, has_changed
        # re-read) - the failure position runs over all of it and one beyond
        app, tag, msg = failat_tag(cfg, None)
        probe(_Ctx(), tag, 500)
        for k in range(1, app.serial + 2):
            for mode, arg in FAIL_MODES:
                yield {"cfg": cfg, "fail": [k, mode, arg]}


def run_failat(case, ctx):
    cfg, fail = case["cfg"], case["fail"]
    app, tag, msg = failat_tag(cfg, fail)
    k, mode, arg = fail
    ctx.set_class("t4t-failat/" + mode)
    nl = app.nlen_size
    stored = bytes(app.ndef_file[nl:nl + len(msg)])
    seen = []

    def check(o):
        seen.append(bytes(o))
        return None if bytes(o) == stored else \
            "octets are not the message stored in the NDEF file"
    probe(ctx, tag, 300 + 3 * 64, area=64 - nl, check_octets=check)
    if app.serial >= k:
        ctx.nontrivial()
        cur = "-"
        for serial, apdu in app.execlog[:k]:
            what = "other"
            if apdu[1:3] == b"\xA4\x04":
                what, cur = "select-app", "-"
            elif apdu[1:3] == b"\xA4\x00":
                cur = apdu[5:7].hex().upper()
                what = "select-" + cur
            elif apdu[1] == 0xB0:
                what = "read-" + cur
        ctx.label("failed-at=" + what)
        ctx.label("first-pass=%s" % ("ndef-object" if seen else "None"))
    else:
        ctx.label("failure-not-reached/%s" % ("ndef-object" if seen else
                                              "None"))


# ------------- memory-backed tags that leave the field + repeated probing
class Vanishing(object):
    """a tag simulator that is out of the field from its ``at``-th event on,
    for ``span`` events (0 = for good).  Events are counted over everything
    the reader does with the tag: polls (target(), i.e. every activation and
    re-activation attempt; event 0 is the first activation) and commands.
    While the tag is away polls find nothing and commands get no answer;
    the memory keeps its content.  ``events`` logs (kind, refused) with
    refused = no answer / NAK / Type 3 error status."""

    def __init__(self, inner, at=None, span=0):
        self.inner = inner
        self.at, self.span = at, span
        self.events = []

    def __getattr__(self, name):
        return getattr(self.inner, name)

    def away(self):
        i = len(self.events)
        if self.at is None or i < self.at:
            return False
        return self.span == 0 or i < self.at + self.span

    def target(self, poll):
        r = None if self.away() else self.inner.target(poll)
        self.events.append(("poll", r is None))
        return r

    def command(self, cmd, timeout=None):
        r = None if self.away() else self.inner.command(cmd, timeout)
        self.events.append(("cmd", _refused(self.inner.tech, r)))
        return r

    def reset(self):
        self.inner.reset()


def _refused(tech, r):
    if r is None:
        return True
    if tech == "F":
        return len(r) >= 12 and r[1] in (0x07, 0x09) and r[10] != 0
    return len(r) == 1 and r[0] & 0xFA == 0x00          # Type 2 NAK


def check_ndef(ndef, area, check_octets):
    try:
        length, cap, octets = ndef.length, ndef.capacity, ndef.octets
    except Exception as e:
        raise unexpected(e, "ndef-attribute-raises")
    if length != len(octets):
        raise Violation("length-inconsistent", "%d vs %d"
                        % (length, len(octets)))
    if length > cap:
        raise Violation("length-exceeds-capacity",
                        "length %d capacity %d" % (length, cap))
    if area is not None and cap > area:
        raise Violation("capacity-exceeds-data-area",
                        "capacity %d, declared data area %d" % (cap, area))
    if check_octets is not None:
        err = check_octets(octets)
        if err:
            raise Violation("octets-outside-data-area", err)


def probe_seq(ctx, sim, budget, probes, dev_kw=None, area=None,
              check_octets=None):
    """activate, evaluate tag.ndef and then every entry of ``probes`` on the
    same tag object under the C08 oracle:
      ndef     tag.ndef again (and length / capacity / octets of the result)
      changed  has_changed of the NDEF object seen last (also when tag.ndef
               turned None since), then tag.ndef
      present  tag.is_present
    No evaluation may raise, each stays within the command budget, every
    NDEF object obeys length <= capacity <= data area and octets inside the
    data area, is_present yields a bool.  Returns the index of the sim event
    at which every evaluation started."""
    total = (len(probes) + 2) * budget + 20
    clf = tagdev.frontend(sim, budget=total, **(dev_kw or {}))
    starts = []
    try:
        target = clf.sense(tagdev.sense_target(sim))
        if target is None:
            ctx.label("not-sensed")
            return starts
        try:
            tag = nfc.tag.activate(clf, target)
        except Exception as e:
            raise unexpected(e, "activate-raises")
        if tag is None:
            ctx.label("activate->None")
            return starts
        ctx.label("activated:" + type(tag).__name__)
        held = None
        for i, p in enumerate(["ndef"] + list(probes)):
            starts.append(len(sim.events))
            n0 = clf.device.exchanges
            if p == "ndef":
                try:
                    n = tag.ndef
                except Exception as e:
                    raise unexpected(e, "ndef-raises" if i == 0 else
                                     "ndef-again-raises",
                                     detail="evaluation %d" % i)
                ctx.label("%s:ndef->%s" % ("first" if i == 0 else "again",
                                           "None" if n is None else "object"))
                if n is not None:
                    check_ndef(n, area, check_octets)
                    held = n
            elif p == "changed":
                if held is None:
                    ctx.label("changed:no-ndef-object-so-far")
                    continue
                try:
                    changed = held.has_changed
                    n = tag.ndef
                except Exception as e:
                    raise unexpected(e, "has-changed-raises",
                                     detail="evaluation %d" % i)
                ctx.label("changed->%s" % changed)
                if n is not None:
                    check_ndef(n, area, check_octets)
                    held = n
            else:
                try:
                    r = tag.is_present
                except Exception as e:
                    raise unexpected(e, "is-present-raises",
                                     detail="evaluation %d" % i)
                if r is not True and r is not False:
                    raise Violation("is-present-not-bool", repr(r))
                ctx.label("present->%s" % r)
            if clf.device.exchanges - n0 > budget:
                raise Violation("unbounded-commands",
                                "evaluation %d (%s) took %d commands, budget "
                                "%d" % (i, p, clf.device.exchanges - n0,
                                        budget))
    except tagdev.BudgetExceeded:
        raise Violation("unbounded-commands", "more than %d commands" % total)
    return starts


class _NullCtx(object):
    label = nontrivial = set_class = note = lambda self, *a: None


MEM_RUN = {}            # type -> run function (filled below the strategies)


def vanish_case():
    def nak_prone(d):
        # Type 2: no physical memory behind the declared data area, so a
        # length field that overshoots makes the reader address a page the
        # tag does not have (NAK)
        return dict(d, extra=0)
    mem = {
        "t2t": t12_case(st.one_of(tc.t2t_desc(), tc.t2t_desc().map(nak_prone))),
        "t1t": t12_case(tc.t1t_desc()),
        "t3t": t3_case(), "t4t": t4_case()}
    at = st.one_of(
        st.tuples(st.just("abs"), st.one_of(st.integers(0, 12),
                                            st.integers(0, 80))),
        st.tuples(st.just("ref"), st.integers(0, 5),
                  st.sampled_from([0, 0, 0, 1, 2])),
        st.tuples(st.just("eval"), st.integers(1, 4), st.integers(0, 5)))
    return st.sampled_from(["t2t"] * 4 + ["t1t", "t3t", "t3t", "t4t", "t4t"]
                           ).flatmap(lambda k: st.fixed_dictionaries({
                               "type": st.just(k), "mem": mem[k], "at": at,
                               "plain": st.sampled_from([False, False, True]),
                               "span": st.sampled_from([0, 0, 0, 1, 2, 3, 6]),
                               "probes": st.lists(st.sampled_from(
                                   ["ndef", "ndef", "changed", "present"]),
                                   min_size=1, max_size=4)}))


def run_vanish(case, ctx):
    kind, probes = case["type"], case["probes"]
    run_mem = MEM_RUN[kind]
    ctx.set_class("%s-mem/leaves-field" % kind)
    if case.get("plain"):
        # the valid layout itself (a length field that overshoots is kept)
        keep = ("tag", "old", "old_seed", "len_bump", "syscode", "with_sc")
        plain = {"pokes": [], "phys_cut": 0, "cc_extra": 0, "cc_trunc": 0,
                 "bad_checksum": False}
        case = dict(case, mem=dict(
            (f, v if f in keep else plain.get(f)) for f, v in
            case["mem"].items()))
        ctx.label("image:valid-layout")
    # the same tag and the same evaluations with the tag staying in the
    # field: number of events and where the tag refused something
    ref = {}

    def rehearsal(c, sim, budget, **kw):
        ref["sim"] = v = Vanishing(sim)
        ref["starts"] = probe_seq(c, v, budget, probes, **kw)
    run_mem(case["mem"], _NullCtx(), runner=rehearsal)
    if "sim" not in ref:
        ctx.label("layout-without-room")
        return
    events = ref["sim"].events
    refusals = [i for i, (k, refused) in enumerate(events) if refused]
    at = case["at"]
    if at[0] == "ref" and refusals:
        k = refusals[at[1] % len(refusals)] + 1 + at[2]
        ctx.label("leaves:%d-after-refusal" % at[2])
    elif at[0] == "eval" and len(ref["starts"]) > 1:
        later = ref["starts"][1:]
        k = later[(at[1] - 1) % len(later)] + at[2]
        ctx.label("leaves:with-a-later-evaluation")
    else:
        k = 1 + at[1] % max(1, len(events))
        ctx.label("leaves:absolute")
    span = case["span"]
    out = {}

    def real(c, sim, budget, **kw):
        c.set_class("%s-mem/leaves-field" % kind)
        out["sim"] = v = Vanishing(sim, k, span)
        out["starts"] = probe_seq(c, v, budget, probes, **kw)
    run_mem(case["mem"], ctx, runner=real)
    n = len(out["sim"].events)
    ctx.label("away:" + ("for-good" if span == 0 else "%d-events" % span))
    if k < n:
        ctx.label("left-during:" + events[k][0] if k < len(events)
                  else "left-during:cmd")
        # evaluations that started after the tag had left
        later = [s for s in out["starts"] if s > k]
        if later:
            ctx.nontrivial()
    else:
        ctx.label("never-left")
    ctx.note({"events": n, "leaves_at": k, "refusals": len(refusals)})


# --------------------------------------------------------------- scripted
def blob(*lengths):
    return st.one_of(
        st.sampled_from(list(lengths)).flatmap(
            lambda n: st.binary(min_size=n, max_size=n)),
        st.binary(max_size=20))


def script_case(kind):
    if kind == "t1t":
        attrs = st.fixed_dictionaries({
            "sens_res": st.just(b"\x00\x0C"),
            "rid_res": st.one_of(
                st.tuples(st.sampled_from([0x11, 0x12, 0x10, 0x1F, 0x00, 0x21]),
                          byte).map(lambda t: bytes(t) + b"\x01\x02\x03\x04"),
                st.binary(min_size=6, max_size=6))})
        ans = st.one_of(blob(122, 2, 9, 129, 6), t1_rall())
    elif kind == "t2t":
        attrs = st.fixed_dictionaries({
            "sens_res": st.just(b"\x44\x00"), "sel_res": st.just(b"\x00"),
            "sdd_res": st.sampled_from([bytes.fromhex("04112233445566"),
                                        bytes.fromhex("02112233445566"),
                                        bytes.fromhex("04112233")])})
        ans = st.one_of(blob(16, 1, 4, 8), t2_page(), st.just(b"\x00"),
                        st.just(b"\x0A"), st.just(b"\xAF" + bytes(8)),
                        st.sampled_from(VERSIONS))
    elif kind == "t3t":
        idm = bytes.fromhex("02FE010203040506")
        attrs = st.fixed_dictionaries({
            "sensf_res": st.one_of(
                st.just(b"\x01" + idm + bytes.fromhex("0077FFFFFFFFFFFF")),
                st.just(b"\x01" + idm + bytes.fromhex("0077FFFFFFFFFFFF12FC")),
                st.just(b"\x01" + idm + bytes.fromhex("00F0FFFFFFFFFFFF88B4")),
                st.just(b"\x01" + idm + bytes.fromhex("00F1FFFFFFFFFFFF12FC")),
                st.just(b"\x01" + idm + bytes.fromhex("0120FFFFFFFFFFFF0003")),
                st.just(b"\x01" + idm + bytes.fromhex("01E0FFFFFFFFFFFFFEE1")),
                # every FeliCa product family by its IC code (PMm byte 2),
                # discovered without / with another / with the NDEF system
                st.tuples(st.sampled_from([0x00, 0x01, 0x02, 0x08, 0x09, 0x0B,
                                           0x0C, 0x0D, 0x20, 0x32, 0x35, 0x06,
                                           0x07, 0x10, 0x14, 0x1F, 0xE0, 0xE1,
                                           0xF0, 0xF1, 0x36, 0xFF]),
                          st.sampled_from([b"", b"", b"\x80\x08", b"\x00\x03",
                                           b"\x12\xFC"])).map(
                    lambda t: b"\x01" + idm + bytes([0x01, t[0]])
                    + bytes.fromhex("220427674EFF") + t[1]))})
        ans = t3_frame(idm)
    elif kind == "t4a":
        attrs = st.fixed_dictionaries({
            "sens_res": st.just(b"\x44\x03"), "sel_res": st.just(b"\x20"),
            "sdd_res": st.just(bytes.fromhex("08010203"))})
        ans = iso_block()
    else:
        attrs = st.fixed_dictionaries({
            "sensb_res": st.one_of(
                st.tuples(byte, byte, byte).map(
                    lambda t: b"\x50\x01\x02\x03\x04\x00\x00\x00\x00"
                    + bytes(t)),
                st.binary(min_size=12, max_size=13))})
        ans = iso_block()
    first = ats() if kind == "t4a" else (
        st.one_of(st.just(b"\x00"), st.binary(max_size=3))
        if kind == "t4b" else ans)
    answers = st.lists(ans, max_size=14)
    if kind == "t3t":
        # the usual course of an NDEF read: the card is polled for the NDEF
        # system (it may answer with another PMm than at discovery), then it
        # serves a well-formed attribute block, then anything
        pmm = st.sampled_from([0x01, 0x0D, 0x20, 0x36, 0xFF, 0x21, 0x10, 0xF0,
                               0xE0, 0x00]).map(
            lambda c: bytes([0x01, c]) + bytes.fromhex("220427674EFF"))
        poll = st.tuples(pmm, st.sampled_from([b"", b"", b"\x12\xFC"])).map(
            lambda t: bytes([2 + 8 + len(t[0] + t[1]), 0x01]) + idm + t[0]
            + t[1])
        attr_ok = st.tuples(
            st.sampled_from([1, 4, 12]), st.sampled_from([1, 8]),
            st.sampled_from([1, 13, 300]), st.sampled_from([0, 5, 16, 40])
        ).map(lambda t: bytes([13 + 16, 0x07]) + idm + b"\x00\x00\x01"
              + bytes(simtags.t3_attribute(0x10, t[0], t[1], t[2], 0, 1,
                                           min(t[3], 16 * t[2]))))
        # ... or a well-framed read response with status 00 00 that carries
        # fewer whole blocks than were asked for (none at all, count 0 / 1)
        attr_few = st.sampled_from([0, 0, 1]).map(
            lambda n: bytes([13, 0x07]) + idm + b"\x00\x00" + bytes([n]))
        course = st.tuples(poll, st.one_of(attr_ok, attr_ok, attr_ok,
                                           attr_few),
                           st.lists(ans, max_size=8))
        plain = st.fixed_dictionaries({
            "kind": st.just(kind), "attrs": attrs, "first": first,
            "answers": answers,
            "tail": st.sampled_from(["silent", "repeat"])})
        return st.one_of(plain, plain, st.tuples(plain, course).map(
            lambda t: dict(t[0], first=t[1][0],
                           answers=[t[1][1]] + t[1][2])))
    return st.fixed_dictionaries({
        "kind": st.just(kind), "attrs": attrs, "first": first,
        "answers": answers,
        "tail": st.sampled_from(["silent", "repeat"])})


VERSIONS = [bytes.fromhex(x) for x in (
    "0004030101000B03", "0004030101000E03", "0004040101000B03",
    "0004040201000F03", "0004040201001103", "0004040201001303",
    "0004040502011303", "0004040502021303", "0004040502011503",
    "0004040502021503", "0004040401000F03", "0004040401001103")]


def t1_rall():
    return st.tuples(st.sampled_from([0x11, 0x12]), byte,
                     st.binary(min_size=120, max_size=120),
                     st.sampled_from([b"\xE1\x10", b"\xE1\x1F", b"\xE1\x20"]),
                     byte, byte).map(
        lambda t: bytes([t[0], t[1]]) + t[2][:8] + t[3] + bytes([t[4], t[5]])
        + t[2][12:])


def t2_page():
    """16-byte READ answers that look like TLV areas"""
    return st.lists(st.sampled_from(
        [b"\x03", b"\xFF", b"\x00", b"\xFE", b"\x01\x03", b"\x02\x03",
         b"\xE1\x10", b"\x7F", b"\xA5\x5A", b"\x03\xFF\xFF\xFF",
         b"\x01\x03\xF0\x00\x44", b"\x02\x03\x00\x00\x40"]),
        min_size=4, max_size=16).map(lambda p: (b"".join(p) + bytes(16))[:16])


def t3_frame(idm):
    body = st.one_of(
        st.binary(max_size=30),
        st.tuples(st.sampled_from([0, 0, 0, 1, 0xFF]),
                  st.sampled_from([0, 0, 0xA1, 0xA8]),
                  st.integers(0, 15),
                  st.integers(0, 15)).map(
            lambda t: bytes([t[0], t[1], t[2]]) + bytes(range(16)) * t[3]),
        t3_attr_body())
    code = st.sampled_from([0x07, 0x07, 0x07, 0x01, 0x09, 0x05, 0x00])
    idm_s = st.sampled_from([idm, idm, idm, bytes(8)])

    def mk(t):
        c, i, b, lenfix = t
        f = bytes([c]) + i + b
        ln = (len(f) + 1) & 0xFF if lenfix else (len(f) + 2) & 0xFF
        return bytes([ln]) + f
    # polling responses: PMm, then no / the two / other request data bytes
    poll = st.tuples(st.just(0x01), idm_s, st.tuples(
        # (the card may answer a later poll with another PMm: the IC code
        # of another product, of none)
        st.one_of(st.sampled_from([bytes.fromhex("0120220427674EFF"),
                                   bytes(8)]),
                  st.sampled_from([0x01, 0x0D, 0x20, 0x36, 0xFF, 0x21, 0x10,
                                   0xF0, 0xE0]).map(
                      lambda c: bytes([0x01, c])
                      + bytes.fromhex("220427674EFF"))),
        st.sampled_from([b"", b"", b"\x12\xFC", b"\x00\x01", b"\x00",
                         b"\x12\xFC\x00"])).map(lambda t: t[0] + t[1]),
        st.just(True)).map(mk)
    return st.one_of(
        st.tuples(code, idm_s, body, st.sampled_from([True] * 5 + [False]))
        .map(mk), poll,
        st.binary(min_size=1, max_size=12))


def t3_attr_body():
    def mk(t):
        ver, nbr, nbw, nmaxb, wf, rw, ln, good = t
        a = simtags.t3_attribute(ver, nbr, nbw, nmaxb, wf, rw, ln)
        if not good:
            a[15] ^= 1
        return b"\x00\x00\x01" + bytes(a)
    return st.tuples(st.sampled_from([0x10, 0x11, 0x20, 0x0F]),
                     st.sampled_from([0, 1, 4, 15]), st.sampled_from([0, 1, 13]),
                     st.sampled_from([0, 1, 20, 0xFFFF]), st.sampled_from([0, 0xF]),
                     st.sampled_from([0, 1]),
                     st.sampled_from([0, 5, 16, 17, 500, 0xFFFFFF]),
                     st.booleans()).map(mk)


def ats():
    """RATS answers: every subset of TA/TB/TC, 0..15 historical bytes, TL
    consistent; plus a few inconsistent ones"""
    def mk(t):
        fsci, ta, tb, tc_, hist, tl_off = t
        t0 = fsci | (0x10 if ta is not None else 0) | \
            (0x20 if tb is not None else 0) | (0x40 if tc_ is not None else 0)
        body = bytes([t0]) + b"".join(bytes([x]) for x in (ta, tb, tc_)
                                      if x is not None) + hist
        return bytes([len(body) + 1 + tl_off]) + body
    opt = lambda: st.one_of(st.none(), byte)     # noqa: E731
    return st.one_of(
        st.tuples(st.integers(0, 15), opt(), opt(), opt(),
                  st.binary(max_size=15),
                  st.sampled_from([0, 0, 0, 0, 1, -1])).map(mk),
        st.just(b"\x01"), st.binary(max_size=4))


def iso_block():
    sw = st.sampled_from([b"\x90\x00", b"\x6A\x82", b"\x67\x00", b"\x6B\x00",
                          b"\x69\x82", b"\x62\x82"])
    data = st.one_of(
        st.binary(max_size=20),
        st.sampled_from([b"\x00\x0F", b"\x00\x11", b"\x00\x02", b"\xFF\xFF",
                         b"\x00\x00", b"\x00\x05", b"\x01\x00"]),
        st.sampled_from([bytes.fromhex("2000FF00FF0406E104040000000"[:26]),
                         bytes.fromhex("20003B00340406E10400320000"),
                         bytes.fromhex("30003B00340608E1040000FFFF0000"),
                         bytes.fromhex("10000F00010406E10400050000")]))
    pcb_i = st.sampled_from([0x02, 0x03, 0x12, 0x13, 0x0A, 0x0B])
    i_block = st.tuples(pcb_i, data, st.one_of(sw, st.just(b""))).map(
        lambda t: bytes([t[0]]) + t[1] + t[2])
    r_block = st.sampled_from([b"\xA2", b"\xA3", b"\xB2", b"\xB3"])
    s_block = st.sampled_from([b"\xF2\x01", b"\xF2\x3B", b"\xF2", b"\xC2",
                               b"\xF2\x00", b"\xF3\x01"])
    return st.one_of(i_block, i_block, i_block, r_block, s_block,
                     st.binary(max_size=4), st.just(b""))


BUDGET = {"t1t": 80, "t2t": 4800, "t3t": 66000, "t4a": 4000, "t4b": 4000}


def run_script(case, ctx):
    kind = case["kind"]
    tech = {"t1t": "A", "t2t": "A", "t3t": "F", "t4a": "A", "t4b": "B"}[kind]
    answers = [case["first"]] + list(case["answers"])
    if kind == "t3t":
        answers = [a if a else b"\x01" for a in answers]
    tag = ScriptTag(tech, case["attrs"], answers, case["tail"])
    cls = kind + "-script"
    if kind in ("t4a", "t4b") and case["tail"] == "repeat" and \
            answers[-1][:1] in (b"\xF2", b"\xF3") and len(answers[-1]) >= 2:
        cls += "/wtx-forever"
    ctx.set_class(cls)
    ctx.label("tail=" + case["tail"])
    if len(case["answers"]) >= 2:
        ctx.nontrivial()
    probe(ctx, tag, BUDGET[kind])


def _mem_leg(name, gen, run, q, t):
    return Leg(name, run=run, gen=lambda tier: gen, quick=q, thorough=t,
               shards_quick=3, shards_thorough=16, nt_floor=0.1,
               rule="memory-backed %s: valid layout mutated (byte pokes at "
                    "CC/TLV/data/absolute addresses, random images, less "
                    "physical memory than declared, attribute/CC field "
                    "overrides, weird READ BINARY answers); non-trivial = "
                    "passed the magic-number gate so the parser walked the "
                    "structure." % name)


def _script_leg(kind, q, t):
    return Leg(kind + "-script", run=run_script,
               gen=lambda tier: script_case(kind), quick=q, thorough=t,
               shards_quick=2, shards_thorough=16, nt_floor=0.1,
               rule="scripted %s responder: generated activation response "
                    "variant + up to 15 well-framed answers, then silence or "
                    "endless repetition; non-trivial = at least 3 answers."
                    % kind)


MEM_RUN.update({"t2t": run_t12, "t1t": run_t12, "t3t": run_t3,
                "t4t": run_t4})

LEGS = [
    _mem_leg("t2t-mem", t12_case(tc.t2t_desc()), run_t12, 1500, 40000),
    _mem_leg("t1t-mem", t12_case(tc.t1t_desc()), run_t12, 1500, 40000),
    _mem_leg("t3t-mem", t3_case(), run_t3, 1500, 40000),
    _mem_leg("t4t-mem", t4_case(), run_t4, 1200, 30000),
    _script_leg("t1t", 800, 30000),
    _script_leg("t2t", 800, 30000),
    _script_leg("t3t", 800, 30000),
    _script_leg("t4a", 800, 30000),
    _script_leg("t4b", 600, 20000),
    Leg("leaves-field", run=run_vanish, gen=lambda tier: vanish_case(),
        quick=2400, thorough=50000, shards_quick=4, shards_thorough=16,
        nt_floor=0.2,
        rule="memory-backed tag of any type with a mutated image (the "
             "generators of the *-mem legs; Type 2 half of the time without "
             "physical memory behind the declared data area; one third of "
             "the images the valid layout without mutations) under the real "
             "ContactlessFrontend, that leaves the field at a generated "
             "point of the whole session - counted over commands AND the "
             "polls of every (re-)activation attempt; either an absolute "
             "position or 0..2 events after the j-th refusal (NAK / error "
             "status / no answer) the tag gives in a rehearsal without "
             "leaving, or 0..5 events into one of the later evaluations - "
             "for good or for 1..6 events; the same tag object is "
             "then probed 2-5 times in all: tag.ndef (+ length, capacity, "
             "octets), has_changed of the NDEF object seen last followed by "
             "tag.ndef, tag.is_present.  C08 oracle on every evaluation: "
             "none raises, command budget per evaluation, NDEF objects "
             "inside the data area, is_present a bool.  non-trivial = at "
             "least one evaluation started after the tag had left."),
    Leg("t4t-failat", run=run_failat, enum=failat_enum, exhaustive=True,
        shards_quick=4, shards_thorough=8,
        rule="memory-backed Type 4A/4B tag with a valid NDEF application "
             "(mapping version 1, 2, 3; MLe 15 / 255; message read with 0, "
             "1, 2 READ BINARY; FSC 256 / 32 with 13-byte response chunks; "
             "thorough also FWI 12 = no retries, one S(WTX) per command) "
             "that fails at the k-th APDU of the session, for every k from "
             "the first SELECT to the last READ BINARY of the has_changed "
             "re-read and one beyond: gone silent from k on, APDU k never "
             "answered, APDU k alone / every APDU from k on answered with "
             "status 6982, 6A82, 6700, 6F00, 6281, answer k cut short (no "
             "byte, one byte, no status word, no data, one data byte less). "
             "C08 oracle, octets must equal the stored message; non-trivial "
             "= the k-th APDU was reached."),
]

# the same searches with every nfc logger enabled down to the lowest level
# (code that only runs, or only evaluates its arguments, when logging is on)
_byl = dict((lg.name, lg) for lg in LEGS)
LEGS += [twin_env(_byl[n], "log", {"VERIF_LOG": "debug"}, quick=q, thorough=t,
                  shards_quick=2)
         for n, q, t in [('t4t-mem', 300, 3000)] if n in _byl]
