#!/venv/bin/python
"""evaluate a seeded change produced under /tmp/seed: seedeval.py C10 [name] [--props C10,C05] [--tier quick]
confirms (1) the worktree diff is the patch, (2) demo exits 1 with / 0 without the change,
(3) the pinned suite stays at baseline with the change, (4) runs the named checks against a scratch copy
with the patch; on success stores /verif/seeded/<name>/{patch.diff,demo.py,notes.md,meta.json}"""
import argparse, json, os, shutil, subprocess, sys
ap = argparse.ArgumentParser(); ap.add_argument("prop"); ap.add_argument("name", nargs="?")
ap.add_argument("--props"); ap.add_argument("--tier", default="quick"); ap.add_argument("--skip-baseline", action="store_true")
ap.add_argument("--src", help="dir with patch.diff demo.py notes.md and worktree", default=None)
a = ap.parse_args()
P = a.prop.upper(); name = a.name or (P + "-1")
rnd = name.rsplit("-", 1)[-1]
sfx = "" if rnd == "1" else rnd
wt = "/tmp/seed/wt%s-%s" % (sfx, P); out = "/tmp/seed/out%s-%s" % (sfx, P)
patch = os.path.join(out, "patch.diff")
def sh(cmd, **kw): return subprocess.run(cmd, shell=True, capture_output=True, text=True, **kw)
stored = "/verif/seeded/" + name
if not os.path.isdir(wt) and os.path.exists(stored + "/meta.json"):
    # the worktree is gone (already confirmed earlier): only re-run the checks against the stored patch
    meta = json.load(open(stored + "/meta.json"))
    for p_ in (a.props or P).split(","):
        m = sh("VERIF_EVIDENCE_DIR=/tmp/ev-seed /verif/tools/mutate.py %s --tier %s --patch %s/patch.diff" % (p_, a.tier, stored))
        lines = [l for l in m.stdout.splitlines() if "KNOWN-FINDING" not in l]
        meta["detection"][p_ + ":" + a.tier] = {"result": lines[0] if lines else "?", "first": [l.strip()[:220] for l in lines[1:4]]}
        print(p_, lines[:2])
    json.dump(meta, open(stored + "/meta.json", "w"), indent=1)
    print("RECHECKED", stored)
    sys.exit(0)
res = {"property": P, "id": name}
d = sh("git -C %s diff" % wt).stdout
ok_diff = d.strip() == open(patch).read().strip()
res["worktree_diff_is_patch"] = ok_diff
env = "PYTHONPATH=%s/src" % wt
r1 = sh("%s timeout 600 /venv/bin/python %s/demo.py" % (env, out)); res["demo_with_change"] = r1.returncode
sh("git -C %s apply -R %s" % (wt, patch))
r0 = sh("%s timeout 600 /venv/bin/python %s/demo.py" % (env, out)); res["demo_without_change"] = r0.returncode
sh("git -C %s apply %s" % (wt, patch))
if not a.skip_baseline:
    b = sh("/venv/bin/python /verif/tools/baseline.py %s" % wt); res["baseline"] = b.stdout.strip().splitlines()[-1] if b.stdout.strip() else b.stderr[-200:]
    res["baseline_ok"] = b.returncode == 0
applies = sh("git -C /repo apply --check %s" % patch)
same_head = sh("git -C %s rev-parse HEAD" % wt).stdout.strip() == sh("git -C /repo rev-parse HEAD").stdout.strip()
res["applies_to_repo_head"] = applies.returncode == 0 or (same_head and ok_diff)
props = (a.props or P).split(",")
res["checks"] = {}
for p in props:
    m = sh("VERIF_EVIDENCE_DIR=/tmp/ev-seed /verif/tools/mutate.py %s --tier %s --patch %s" % (p, a.tier, patch))
    lines = [l for l in m.stdout.splitlines() if "KNOWN-FINDING" not in l]
    rc = lines[0] if lines else "?"
    res["checks"][p + ":" + a.tier] = {"result": rc, "first": [l.strip()[:220] for l in lines[1:4]]}
print(json.dumps(res, indent=1))
good = ok_diff and r1.returncode == 1 and r0.returncode == 0 and res.get("baseline_ok", True) and res["applies_to_repo_head"]
if good:
    dst = "/verif/seeded/" + name; os.makedirs(dst, exist_ok=True)
    for f in ("patch.diff", "demo.py", "notes.md"):
        if os.path.exists(os.path.join(out, f)): shutil.copy(os.path.join(out, f), dst)
    meta = {"property": P, "id": name, "confirmed": {k: res[k] for k in ("worktree_diff_is_patch", "demo_with_change", "demo_without_change", "baseline", "applies_to_repo_head") if k in res},
            "what_ran": ["PYTHONPATH=<worktree>/src /venv/bin/python demo.py (with change: exit 1, without: exit 0)",
                         "/verif/tools/baseline.py <worktree> (pinned suite vs BASELINE.json)",
                         "/verif/tools/mutate.py %s --tier %s --patch patch.diff (check against a scratch copy of /repo/src with the patch)" % (",".join(props), a.tier)],
            "detection": res["checks"]}
    if os.path.exists(dst + "/meta.json"):
        old = json.load(open(dst + "/meta.json")); old["detection"].update(meta["detection"]); meta["detection"] = old["detection"]
        for k in ("needs",):
            if k in old: meta[k] = old[k]
        if "baseline" not in meta["confirmed"] and "baseline" in old.get("confirmed", {}):
            meta["confirmed"]["baseline"] = old["confirmed"]["baseline"]
        if old.get("first_result"): meta["first_result"] = old["first_result"]
    json.dump(meta, open(dst + "/meta.json", "w"), indent=1)
    print("STORED", dst)
else:
    print("NOT CONFIRMED")
