#!/venv/bin/python
"""sensitivity test: copy /repo/src to a scratch dir, apply exact-text edits,
run a check against the copy (NFCPY_SRC), remove the copy.
usage: mutate.py C11 [--tier quick] [--leg x] [--seed n] -e "nfc/llcp/pdu.py@@OLD@@NEW" [-e ...]
       (OLD must occur; use @@N suffix "file@@old@@new@@2" to replace only the N-th occurrence)"""
import argparse, os, shutil, subprocess, sys, tempfile
ap = argparse.ArgumentParser()
ap.add_argument("prop"); ap.add_argument("--tier", default="quick"); ap.add_argument("--leg")
ap.add_argument("--seed", default="1"); ap.add_argument("-e", action="append", default=[])
ap.add_argument("--patch")
a = ap.parse_args()
tmp = tempfile.mkdtemp(prefix="mut-", dir="/tmp")
try:
    shutil.copytree("/repo/src", tmp + "/src")
    for e in a.e:
        parts = e.split("@@")
        fn, old, new = parts[0], parts[1], parts[2]
        old = old.encode().decode("unicode_escape"); new = new.encode().decode("unicode_escape")
        p = os.path.join(tmp, "src", fn)
        s = open(p).read()
        if old not in s:
            print("EDIT DOES NOT APPLY:", e); sys.exit(3)
        if len(parts) > 3:
            n = int(parts[3]); idx = -1
            for _ in range(n):
                idx = s.index(old, idx + 1)
            s = s[:idx] + new + s[idx + len(old):]
        else:
            s = s.replace(old, new)
        open(p, "w").write(s)
    if a.patch:
        r = subprocess.run(["patch", "-p1", "-d", tmp, "-i", os.path.abspath(a.patch)], capture_output=True, text=True)
        if r.returncode:
            print("PATCH DOES NOT APPLY", r.stdout, r.stderr); sys.exit(3)
    env = dict(os.environ, NFCPY_SRC=tmp + "/src", VERIF_SEED=a.seed,
               VERIF_EVIDENCE_DIR=tmp + "/evidence")
    cmd = ["/verif/check", a.prop, "--tier", a.tier] + (["--leg", a.leg] if a.leg else [])
    r = subprocess.run(cmd, env=env, capture_output=True, text=True)
    out = (r.stdout + r.stderr).strip().splitlines()
    print("exit=%d" % r.returncode)
    for l in out[:12]:
        print("  " + l[:300])
    sys.exit(0)
finally:
    shutil.rmtree(tmp, ignore_errors=True)
    # evidence was rewritten by a run against the mutant: caller should re-run the real check
