#!/venv/bin/python
"""which lines of the nfc package do the checks never execute?
usage: VERIF_COV=/tmp/cov ./check C05 --tier quick ; tools/covreport.py /tmp/cov C05 [file-substring ...]
prints, per source file, the executed fraction and the missing line ranges (measurement aid for
extending generators; not part of any registered command)"""
import glob, os, sys, coverage
d, prop = sys.argv[1], sys.argv[2]
subs = sys.argv[3:]
files = glob.glob(os.path.join(d, "cov.%s.*" % prop))
c = coverage.Coverage(data_file=os.path.join(d, "combined." + prop))
c.combine(files, keep=True)
c.save()
data = c.get_data()
def ranges(xs):
    out = []; s = p = None
    for x in xs:
        if s is None: s = p = x
        elif x == p + 1: p = x
        else: out.append((s, p)); s = p = x
    if s is not None: out.append((s, p))
    return ",".join("%d" % a if a == b else "%d-%d" % (a, b) for a, b in out)
for f in sorted(data.measured_files()):
    if subs and not any(s in f for s in subs): continue
    _, stm, exc, miss, _ = c.analysis2(f)
    n = len(stm)
    print("%-40s %4d/%4d %3d%%  missing: %s" % (f.split("/nfc/")[-1], n - len(miss), n, 100 * (n - len(miss)) // max(n, 1), ranges(miss)))
