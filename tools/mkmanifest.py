#!/venv/bin/python
"""generate /verif/MANIFEST.json from the CHECKS table below (keeps the
not_applicable list current for every property that has no registered check)"""
import json, os
ROOT = os.path.dirname(os.path.dirname(os.path.abspath(__file__)))
TRUST = "Trusts CPython, Hypothesis/atheris and the harness models named in the evidence assumptions. "

CHECKS = {
 "C11": dict(
  category="exploration",
  technique="property-based testing (Hypothesis round-trip + differential against an independent LLCP decoder), exhaustive short strings, atheris coverage-guided fuzzing",
  text="Round-trip, length and differential oracles over generated structured PDUs and byte strings; exhaustive for all strings <=3 bytes and all 2-byte headers x tail shapes; coverage-guided fuzzing with the oracle inside the target. Held-on-everything-explored, no absence proof.",
  note=TRUST + "Reference decoder vlib/ref_llcp.py is anchored on literal encodings from tests/test_llcp_pdu.py."),
}
CHECKS["C01"] = dict(
  category="exploration",
  technique="property-based testing (Hypothesis): generated tag layouts/configurations on memory-backed tag simulators under the real ContactlessFrontend; round-trip + independent capacity model + independent reference reader; bounded-exhaustive over all message lengths on small layouts",
  text="Every generated layout (T1T static/dynamic, T2T incl. multi-sector, T3T, library-emulated T3T, T4T 4A/4B mapping 1.0-3.0) is written and read back through a fresh activation; reported capacity is compared with an independently computed true capacity and the raw memory image is decoded by an independent reader. Held on everything explored; the lengths leg is exhaustive for its layouts.",
  note=TRUST + "Tag simulators vlib/simtags.py, vlib/isodep_card.py and the layout model vlib/ref_tlv.py are part of the trusted base. Known finding C01-t4t-v3-64k (mapping 3.0 files > 64 KiB) is excluded by signature and printed as KNOWN-FINDING.")

CHECKS["C02"] = dict(
  category="fault_enumeration",
  technique="property-based testing + crash-point enumeration: generated (layout, old, new) triples; memory snapshot after every state-changing command = every power-cut point; fresh library reader and independent reference reader classify each",
  text="For each generated write the set of cut points k=0..n is enumerated (exhaustively in the thorough tier; quick tier: all when n<=40, else both ends + samples) and a fresh activation plus an independent reader must see old, empty/unreadable or new - never a mixture. Snapshot-equals-real-cut is cross-checked twice per case.",
  note=TRUST + "Each tag command is atomic (the property's 'after any command'). Known findings C02-ext-length-t1t/t2t (3-byte length committed across write units) are excluded by a narrow signature (cut inside the final length update only).")

CHECKS["C03"] = dict(
  category="exploration",
  technique="property-based testing (Hypothesis): generated layouts with reserved ranges before/inside/after/beyond the message, byte-wise diff of the whole physical image and per-command address check against an independent allowed-set model",
  text="Every write/format on generated layouts is followed by a diff of the complete physical memory (one-way lock/OTP semantics make damage visible) against the independently computed NDEF area, and every executed write command must address a unit intersecting it. Held on everything explored.",
  note=TRUST + "Allowed sets for format() on Topaz/Type 3 come from the docstrings. FeliCa Lite/NTAG personalities not simulated in this check.")

CHECKS["C08"] = dict(
  category="exploration",
  technique="property-based testing (Hypothesis): mutated/random memory images on memory-backed tag simulators and scripted responders with generated activation-response variants; safety oracle (no exception, command budget, length<=capacity<=declared area, octets from the data area)",
  text="Arbitrary tag memory (valid layouts mutated at CC/TLV/attribute/NLEN level, random images, less memory than declared) and arbitrary well-framed answers (then silence or endless repetition) are activated and read through nfc.tag.activate/tag.ndef/has_changed; any exception, a command count beyond a budget derived from the declared structure, length > capacity or capacity > declared area is a violation.",
  note=TRUST + "Budgets and 'well-framed' are defined in the evidence assumptions. Known finding C08-wtx-forever (unbounded consecutive S(WTX)) is excluded by signature.")

CHECKS["C20"] = dict(
  category="exploration",
  technique="property-based testing (Hypothesis) + exhaustive single-bit enumeration: FeliCa Lite/Lite-S and NTAG21x simulators with an independently written MAC/session-key computation; passwords, one-bit-off keys, tampered responses",
  text="authenticate() must be True exactly for the tag's key (modulo DES parity) / PWD+PACK; every single-bit flip of the authentication and MAC'd-read responses and random tampering must never yield True for a wrong key or altered data from read_with_mac; protect(pw) then authenticate(pw/other). Exhaustive over all 128/48 one-bit key changes and all response bit positions for the explored configurations.",
  note=TRUST + "vlib/ref_felica.py reproduces every recorded MAC of tests/test_tag_tt3_sony.py; simulators vlib/simfelica.py, vlib/simntag.py replay the recorded transcripts. Exceptions that are not wrong results are labelled c16:* and left to C16.")

CHECKS["C12"] = dict(
  category="fault_enumeration",
  technique="property-based testing + bounded-exhaustive fault enumeration: real Type4A/4B tag objects on an ISO/IEC 14443-4 PICC model, echo APDUs whose responses carry the card's execution serial, scripts of lost/corrupted blocks",
  text="All scripts with <= 2 faults in {lost PCD block, lost PICC block, corrupted PICC block} over the first 12 (quick) / 26 (thorough) block exchanges of fixed configurations are enumerated, plus generated configurations/APDU lists/scripts. Each transceive() must return the response of exactly its own single execution or raise Type4TagCommandError with at most one execution; fault counts within the library's own retry policy must be absorbed; no block may exceed FSC.",
  note=TRUST + "PICC model vlib/isodep_card.py (rules D,E,2,9-13) is trusted. Known findings: C12-no-resync-after-error (class after-error) and C12-wtx-fault-not-recovered (class fault-hits-wtx) are excluded by signature.")

CHECKS["C16"] = dict(
  category="fault_enumeration",
  technique="fault-position enumeration + property-based testing: every exchange position of each tag operation x error kind x burst x {command lost, response lost} on simulated tags; metamorphic comparison with the fault-free run",
  text="For fixed fixtures of every tag class (generic T1T-T4T, Topaz/-512, NTAG213, FeliCa Lite/Lite-S) and each operation (ndef read/write, presence, format, protect, authenticate, dump, raw commands) every fault position (thorough; both ends + samples in quick) is combined with kind, burst 1-4/persistent and phase. Only TagCommandError may escape; bursts below the retry budget must leave result, memory and answered commands identical to the fault-free run; persistent errors must carry the matching reason code; effort stays bounded.",
  note=TRUST + "Known findings C16-t4t-presence-check-no-retry, C16-t4t-protocol-error-not-retried and C16-t4t-wtx-fault-not-retried are excluded by class. The passive-ack packet of SECTOR SELECT and non-idempotent FeliCa Lite protect/MAC writes are exempt from the metamorphic oracle (stated in evidence).")

CHECKS["C13"] = dict(
  category="fault_enumeration",
  technique="bounded-exhaustive fault enumeration + property-based testing: real driver objects (pn531/532/533, rcs956, acr122, arygon A/B, rcs380, udp) built through their own init() against chip simulators behind fake transports; every status code and every host-link fault at every host command of an exchange",
  text="For each driver x target kind one fault-free ContactlessFrontend.exchange() yields the host command sequence; then every chip status code 0..255 (RC-S380: every status bit, pairs, random words) and every host fault (timeout, EIO, ENODEV, error frame, truncations, extensions, bit flips, wrong response code, short payload) is injected at every host command. exchange() must return data or raise nfc.clf.CommunicationError (documented mapping) or IOError; driver-internal exception types never escape. Thorough tier enumerates the full product.",
  note=TRUST + "Chip simulators vlib/simchip.py and frame model vlib/ref_pn53x.py are trusted (anchored on literal frames of the repository tests). Built by a sub-agent, reviewed and re-run by the coordinator.")

CHECKS["C14"] = dict(
  category="exploration",
  technique="bounded-exhaustive enumeration + property-based testing with independent reference models: every chipset class x command code x payload length through an independent frame validator; every bit flip/truncation/extension of response frames; CRC_A/CRC_B against an ISO/IEC 14443-3 Annex B implementation exhaustively for short messages",
  text="Command frames written to the transport must parse under an independent PN53x/ACR122 CCID/RC-S380 frame model for every command and payload length (both sides of the 254/255 switch); a mutated response may only be accepted if the independent validator accepts it with the same data, otherwise IOError; CRC helpers equal the reference for all messages <= 2 (quick) / <= 3 (thorough) bytes and random longer ones, single-bit flips are rejected, the drivers' Type 2 Tag CRC path is checked.",
  note=TRUST + "Reference models vlib/ref_crc.py (cross-checked bitwise vs bytewise and against the Annex B vectors) and vlib/ref_pn53x.py. Built by a sub-agent, reviewed and re-run by the coordinator.")

CHECKS["C05"] = dict(
  category="exploration",
  technique="model-based stateful property testing (Hypothesis-generated operation histories interpreted against a sliding-window wire monitor), bounded-exhaustive short histories, scheduled threads under a virtual scheduler",
  text="Two real LogicalLinkControllers linked by a harness pump (collect -> encode -> independent decode -> decode -> dispatch): generated histories of send/recv/poll/busy/exchange/close with RW 0..15, MIU mixes and aggregation; every history of length <=4 (quick) / <=6 (thorough) over a reduced alphabet for RW in {1,2}; blocking application threads over two full stacks with generated schedules. Wire monitor: N(S) consecutive, window never exceeded, N(R) never beyond what was received, no FRMR, payload <= MIU, EMSGSIZE for oversize; recv sequences = prefix / all of accepted sends; no stuck thread while the link lives.",
  note=TRUST + "vlib/ref_window.py and vlib/llcpair.py are trusted; threads explored at synchronisation-point granularity. Known finding C05-accept-send-before-cc excluded by class. Built by a sub-agent, reviewed and re-run by the coordinator.")

CHECKS["C10"] = dict(
  category="exploration",
  technique="model-based stateful property testing of LogicalLinkController.collect() + exhaustive enumeration of MIU x SDRES backlog",
  text="Generated operation lists fill the send queues in every combination (UI on several sockets, I PDUs, pending acks, CONNECT/CC/DM/DISC/FRMR, SDREQ from resolve(), SDRES backlogs from incoming SNL) for remote MIU 128..2175 incl. non-multiples of 4; each collected frame is measured with the independent codec: information field <= remote link MIU, payloads <= receiver MIU, len(pdu)==len(encoding), receiver dispatches exactly the dequeued PDUs in order. Thorough: every MIU x aggregation on/off x backlog 0..600.",
  note=TRUST + "vlib/ref_llcp.py measures frames independently. Raw access point sockets excluded (by the property). Built by a sub-agent, reviewed and re-run by the coordinator.")

CHECKS["C17"] = dict(
  category="exploration",
  technique="model-based stateful property testing against a reference address-table model",
  text="Generated histories of socket/bind/listen/connect/accept/sendto/recvfrom/resolve/close on two linked controllers (up to 150 operations so that the named and dynamic address ranges are exhausted and reused) are checked step by step against an AddrTable model: bind outcome and errno class, address uniqueness, release on last close, resolve and connect-by-name reach exactly the socket bound under the name, datagrams are delivered only to the addressed socket with payload, boundaries and source intact.",
  note=TRUST + "AddrTable model written from the Socket.bind docstring and LLCP 1.3 4.3; leniencies (resolver cache, names in limbo) are stated in the module. Built by a sub-agent, reviewed and re-run by the coordinator.")

CHECKS["C06"] = dict(
  category="exploration",
  technique="property-based testing (Hypothesis) over the complete stack: two real ContactlessFrontend.connect(llcp=...) calls on a simulated RF medium under a deterministic virtual scheduler; round-trip/delivered-exactly-once oracle on SNEP put/get and handover",
  text="Generated link configurations (MIU 128..2175 each side, LTO, aggregation, LR, bit rate, serving side), socket MIU/RW and message sizes around fragment boundaries are run end to end: SnepServer/HandoverServer started in on-connect, client thread on the peer. The server application must see exactly one request, octet for octet (raw request and re-encoded records), the client must get the server's answer; oversize requests/responses must be refused by the protocol's error code and never delivered in part.",
  note=TRUST + "RF medium, driver and scheduler are simulated (vlib/simdev.py, vsched.py); no frame loss in this check (C04 covers it); secure data transfer unavailable in the sandbox.")

CHECKS["C09"] = dict(
  category="exploration",
  technique="schedule exploration under a deterministic virtual scheduler: property-based generation of blocking-application scenarios x termination causes x schedule choice lists; bounded systematic single-preemption sweep around the termination event; exhaustive schedules of one socket call racing terminate()",
  text="Two complete stacks with generated sets of blocking application threads (accept, connect, resolve, send on a full window, recv, sendto, recvfrom, poll, SNEP/handover servers); the link is ended by RF disruption at frame n, local terminate at time T or a device IOError at driver call j. Afterwards every thread must have returned or raised nfc.llcp.Error, servers exited, both connect() returned; calls issued after termination must return/raise within bounded virtual time. The race leg enumerates every schedule in {0,1}^9 (quick) / {0,1}^13 (thorough) of 8 blocking calls against terminate().",
  note=TRUST + "Interleavings at synchronisation-point granularity; 'bounded time' = fixed virtual-time bound. Known finding C09-calls-after-termination-block (no 'terminated' link state) excluded by class.")

CHECKS["C15"] = dict(
  category="exploration",
  technique="schedule exploration under a deterministic virtual scheduler: property-based generation of multi-threaded programs over the public frontend API against a recording driver proxy; single-preemption sweep; lock-ownership/overlap oracle at every driver call; ast-derived call-site coverage",
  text="2-4 threads run generated programs over open/close/sense/listen/exchange/size queries/connect(rdwr|llcp|card)/__exit__; the proxy device checks at the entry of every driver method that the frontend lock is owned by the calling thread, that no other thread is inside a driver call and that the device was not closed, then lets virtual time pass so contention is observable. All 17 syntactic self.device.<m> call sites of ContactlessFrontend are exercised (reported by the sites leg).",
  note=TRUST + "Synchronisation-point granularity; the per-call-site clause is measured dynamically, not proven syntactically.")

CHECKS["C18"] = dict(
  category="exploration",
  technique="property-based testing (Hypothesis) of callback/return-value contracts: generated option dictionaries x simulated environments x terminate schedules, one recorded time line of callbacks and driver calls checked against the docstring contract",
  text="connect(): generated rdwr/llcp/card options with callbacks returning true/false/None/other types run against a scripted device (tag that stays n exchanges, remote reader, host faults) and a second nfcpy stack as peer; invariants: on-startup before any discovery, discover -> connect -> release order, on-release exactly once per true on-connect with the same object, return value None/False/object/released value as documented, nothing new after terminate() is true, no exception. sense(): target lists mixing supported/unsupported/invalid targets, first-in-order result, field off after failure, no stale target in exchange(), direction follows the last target.",
  note=TRUST + "Environment simulated (vlib/simdev.py + scripted extensions). Known findings C18-systemexit-from-connect and C18-no-on-release-after-device-error excluded by class; behaviour after an on-release that returns false is undocumented and only labelled.")

CHECKS["C04"] = dict(
  category="fault_enumeration",
  technique="bounded-exhaustive fault-script enumeration + property-based testing: a real nfc.dep.Initiator/Target pair on a simulated RF medium under a virtual scheduler; delivered-exactly-once / transparency / frame-size oracles on an independently parsed wire log",
  text="For seeded and hand-written configurations (bit rate, LR both ways, RWT, DID, NAD, payload sizes around multiples of the MIU, conversations beyond the PNI wrap) every single lose/corrupt fault over the first 24 frame slots (quick) and every pair (thorough) is enumerated, plus generated sparse and dense scripts. Delivered payload sequences must be prefixes of the sent ones, every exchange returns or raises CommunicationError, at most one fault per protocol step must be absorbed transparently, and no frame exceeds the receiver's LR.",
  note=TRUST + "vlib/deppair.py (independent DEP frame parser, step splitter), vlib/simdev.py. Active communication mode, DID=0 and target-side NAD are outside the domain. Built by a sub-agent, reviewed and re-run by the coordinator.")

CHECKS["C07"] = dict(
  category="exploration",
  technique="grammar-aware fuzzing with Hypothesis (mutated valid frames, boundary constructions) + exhaustive short strings, at every protocol position where the peer speaks; crash/hang oracle per entry point",
  text="pdu.decode; a live Initiator fed scripted+mutated ATR/PSL/DEP/DSL/RLS responses; a live Target fed fuzzed atr_req/dep_req and requests; general bytes into llc.activate(); a raw NFC-DEP peer sending arbitrary LLC PDUs into a running connect(llcp=...) with sockets in every state; rogue SNEP/handover clients and servers over real data link connections; fuzzed commands into Type3TagEmulation and through connect(card=...). Only documented exception types may escape, no thread may die or stay blocked, connect() must return.",
  note=TRUST + "Peer simulated at the driver interface (vlib/simdev.py), threads/time virtual (vlib/vsched.py). A silent peer while the link lives is not judged. LLCP secure data transfer unreachable in the sandbox.")

CHECKS["C19"] = dict(
  category="exploration",
  technique="exhaustive option-grid enumeration + pairwise-covering arrays + property-based testing over two complete stacks on a simulated RF medium; negotiated-parameter and wire-limit oracles",
  text="role x brs x lri x lrt x rwt x MIU grid (144 points quick, all 23,040 thorough), seeded pairwise-covering arrays over all parameters incl. LTO, aggregation, LSC, DID, and generated configurations: after both connect(llcp=...) calls handed out their controllers send-miu == peer recv-miu, recv-lto == peer LTO, WKS/LSC are the peer's, DEP miu follows the peer's LR (minus DID/NAD), RWT formula, selected bit rate; then UI datagrams at MIU-1/MIU/MIU+1 and a SNEP put are run and every frame on the air is checked against LR and every PDU against the receiver's link MIU.",
  note=TRUST + "vlib/deppair.py independent frame parser, vlib/ref_llcp.py. Discovery always starts at 106A. Built by a sub-agent, reviewed and re-run by the coordinator.")

PENDING_REASON = "not claimed yet: its generated-input check (DESIGN.md section 3) is still under construction in this session; nothing is asserted about it"

# legs added after the seeded-change rounds (DESIGN.md 6.6), appended to the text
ADDED = {
 "C04": "the same conversations over the real nfc.clf.udp driver on both sides; response timeout extensions requested by the target application (up to 3 per response) in every leg",
 "C01": "histories of 2..7 operations on one tag object with a fault plan per operation (every returned assignment verified by a fresh activation); Type 4 round trips under one survivable ISO-DEP fault at every block position; multi-sector Type 2 layouts whose reserved ranges sit at / across the 1 KiB sector boundaries with message lengths anchored on the layout; histories on multi-sector Type 2 Tags in which the tag itself refuses a command (NAK); assignments as bytes and bytearray; control TLV ranges beginning right behind the NDEF TLV header; Type 3 Tags of 64 KiB and more (message lengths around 65536)",
 "C02": "cut sweep of a write that follows a failed write on the same NDEF object; FeliCa Lite/Lite-S with authenticated writers and fresh readers that authenticate first; old / new lengths anchored on every reserved range and the end of the data area (Type 1 static / dynamic, Type 2), complete-write state always judged; the first write of the after-failed leg disturbed by bursts of 3 / 4 / 6 exchanges or a refusal of the tag (the state after the failed write is judged)",
 "C03": "the byte-diff / write-address oracle applied to every operation of a history on one tag object (read, format, write, dump); multi-system FeliCa Standard cards; histories on multi-sector Type 2 Tags in which the tag itself refuses a command (NAK, halted afterwards)",
 "C05": "two application threads sending on one socket (harness-pumped controllers without a pause between dispatch and collect, forced picks at every scheduling point; full stacks with forced preemptions); application threads descheduled in virtual time; histories of up to 10 successive and overlapping connections on one listening socket with re-used client addresses and either end closing first, late or never (bounded-exhaustive for short histories); the server application stops listening while accepted connections live on; messages delivered and acknowledged but unread when the sender closes (exhaustive small leg); the sender closing while accepted messages still wait in its send queue; stray CONNECTs to an established client socket",
 "C06": "2..5 SNEP requests on one connection; consuming threads descheduled in bursts; multi-record messages with the client leaving after n fragments; several SNEP / handover servers and 2..4 client threads whose connection set-ups and transfers overlap on one link (aggregates carrying two connections measured on the air); 1-3 request / select rounds on one handover connection; NDEF payloads that repeat with a fragment size (whole fragments equal); acceptable-length limits as absolute octet counts incl. 0; sessions over temporary connections with descheduled server threads",
 "C07": "the device under test as connecting client whose receive window a raw peer overruns (with exchange latency); RTOX sequences; maximum-length SDREQ names; link MIU up to 2175; a hostile peer that builds its frames from observed transaction ids, SAPs and sequence numbers; grammar-built commands to the emulated Type 3 Tag (service lists to 16, block lists to 20 elements, the unservable element at every position, framing defects), directly and through connect(card=...); the peer-byte legs also under python -O (assert statements compiled out); connection requests by name to the names a controller knows from the start (the service discovery name itself); the PDU decode calls run with the interpreter stack an application has (Hypothesis lifts the recursion limit otherwise), so frames nested hundreds of levels deep are judged as an application meets them",
 "C08": "Type 4 card failing at the k-th APDU; length fields overshooting the true room; tags leaving the field during re-activation with the object probed several times; layout-aware capacity/origin oracle for intact layouts; SENSF_RES of every FeliCa product family and poll answers with another PMm; a well-framed Type 3 read response carrying fewer blocks than asked for in the usual course of an NDEF read",
 "C09": "six more racing calls on an established connection; programs descheduled in virtual time; connections dying (FRMR / bad I PDU / DISC / DM) while threads are blocked on them, before termination; a link thread running dispatch / collect rounds against application threads that accept, close, connect, bind and resolve, every schedule to a depth (the link thread must not die of an unhandled exception); the same scenes with ONE preemption before every source line a thread executes inside nfcpy (vsched line preemption: races where nfcpy has no synchronisation point); random scenarios also under another string hash seed; two threads in the same blocking call on one socket; two or three line preemptions per case; a raw access point on a well-known address whose service name is then bound by another socket; the listen threads of the SNEP / handover servers held back across the link end",
 "C10": "connections ending (close / peer DISC / FRMR) with I PDUs queued while other sockets share the frame; the peer's announcements as octets (every reserved-bit pattern of MIUX in general bytes / CONNECT / CC, repeated and unknown TLVs) judged against the reference's reading of the announced MIU; the machine leg also under another string hash seed; messages handed over as bytes, bytearray, byte views and views of wider items (refused or within every limit)",
 "C11": "PDU objects modified through attribute setters in generated orders; aggregates with one member cut short; the differential is exact (any disagreement with the reference is a violation); every variable-length field at the lengths 0, 1, max-1, max, max+1 (object side: must encode up to max and be refused beyond; byte side: TLVs with L up to 255), alone and inside aggregates; aggregates whose member objects are changed after they joined; decode calls run with the interpreter stack an application has",
 "C12": "every ATS shape x FSCI 0..8 and Type 4B variants with the card's frame size taken from what it announced; Type4Tag over the eight real drivers and chip receiver models with RF faults the driver has to classify; transparency judged per block step with chains of up to 14 blocks and a fault on the first exchange of every block step; echo APDU bodies of one octet throughout and of content repeating with the block size; S(WTX) requests with power level bits",
 "C13": "exchange() racing close/open of another thread over the real drivers; listen-side histories with response / empty / None; surplus payload bytes in well-framed host responses; sequences of two host-link faults on the same or consecutive host commands; status / host fault / udp legs also under python -O",
 "C14": "the same command object exchanged repeatedly (RF side judged); histories of different target kinds on one driver object with chip models honouring the CRC settings; the SEL_RES value space; the response validation, Type 2 path and CRC legs also under python -O (validation resting on assert statements disappears there); one command against a scripted device (silence, noise, error frames) with EVERY write judged, incl. the frames written to cancel a command; the ACR122 LED / buzzer pseudo APDUs for every duration",
 "C15": "driver close() and other driver calls raising IOError, the proxy driver remembers that it was closed; connect() left by KeyboardInterrupt while another thread is inside a driver call; one preemption before every source line a thread of the fixed programs executes inside nfcpy; the with-block of the frontend left by an application exception; driver search / initialisation of open() accounted as a driver call; interpreter-exit hooks registered during a case run while other threads are at work; sense() / connect() calls that have nothing to do, next to threads at work",
 "C16": "histories on one FeliCa Lite/Lite-S, Type 1 and Type 2 tag object with an error burst at every command position (later operations judged too, no answered write repeated); faults at the library's re-activation polls; error bursts of mixed kinds (reason code of the last attempt); all NXP personalities of tt2_nxp.py (Ultralight, Ultralight C with 3DES mutual authentication, NTAG203, Ultralight EV1, NTAG210-216, NTAG I2C) as fixtures; simulated time (a timeout takes the time the caller allowed); a card asking for waiting time extensions (faults on that exchange: known finding for the TagCommandError outcome); with every exchange failing from a position on, format / protect / authenticate never report success; the driver returning a frame without a single octet (Type 4)",
 "C17": "two threads running bind-type programs on one controller with the schedule tree walked; connect(name) judged at the API with a stale-name macro; connected sockets reaching end of life in every order with address / name probes after each close; sessions in which the server closes the end of a finished connection only after the next connection from the re-used address is in service; a 20h refusal is judged against the listener's backlog; the machine leg also under another string hash seed; 2..5 lookups outstanding at once with long names; a lookup still waiting at a quiet link is a violation",
 "C18": "one connect() over a field whose occupant changes by script (on-connect needs a real activation); empty-list on-startup results; Type 4A tags incl. SEL_RES 60h, a tag the application accepted must reach on-connect; Type 1 Tags and tags in the field during llcp-only connects; an application that operates on the tag inside on-connect / after connect() while the tag leaves or a fault hits at a generated command position; peer to peer sessions whose on-connect starts application threads that wait on data link connections when the link ends; every option that survived its on-startup must reach the device in a complete round of the main loop; a tag one of whose answers has an unexpected shape (longer, shorter, other response code); every Type B bitrate in the unsupported listen",
 "C19": "bursts of small datagrams (aggregates of 3 and more PDUs); 1..9 resolver threads per side at link-up; data link connections with receive windows 0..15 set up while near-MIU datagrams are pending; the option grid over the library's real udp driver on both sides; datagram send limits judged at the API (a datagram of the peer's MIU is taken, one octet more refused), also for sockets created before the link is up",
 "C20": "0..3-operation histories on one Lite/Lite-S object with write counter policies; NDEF reads with one bit of the MAC-protected region flipped; length-changing substitutions of read responses; NDEF accesses, in-transit modifications and authenticate() in every order on one Lite / Lite-S object: after a successful authenticate() only genuine tag content or None is handed out; two readers with their own tags and tag objects authenticating at the same time under a line-granular schedule owned by the harness; an exception for the right password of a documented type is a violation; authentication and MAC legs also with every nfc logger enabled",
}


def main():
    for k, v in ADDED.items():
        CHECKS[k]["text"] += " Added after the seeded-change rounds (DESIGN.md 6.6): " + v + "."
    props = [json.loads(l)["id"] for l in open(os.path.join(ROOT, "properties.jsonl"))]
    checks = []
    for p in props:
        c = CHECKS.get(p)
        if not c:
            continue
        checks.append({
            "property_id": p,
            "quick_cmd": "./check %s --tier quick" % p,
            "thorough_cmd": "./check %s --tier thorough" % p,
            "evidence_file": "/verif/evidence/%s.json" % p,
            "replay_cmd_template": "./check %s --replay {path}" % p,
            "engine": "vlib",
            "technique": c["technique"],
            "level_claimed": {"category": c["category"], "text": c["text"],
                              "design_ref": "DESIGN.md section 3, " + p},
            "level_note": c["note"]})
    na = [{"property_id": p, "reason": PENDING_REASON} for p in props if p not in CHECKS]
    m = {
     "version": 1,
     "setup_cmd": "/venv/bin/pip install -q --no-index --find-links /opt/veriftools/wheels hypothesis && /venv/bin/pip install -q --no-index --find-links /opt/veriftools/wheels --target /verif/.deps --upgrade atheris",
     "hooks": {
      "guard": "NFCPY_VERIF",
      "enable": "no source hooks: all instrumentation is monkey-patching of nfc module attributes from the harness process (vlib/vsched.py, vlib/sim*.py); checks import nfc from /repo/src directly",
      "baseline_off_cmd": "cd /repo && /venv/bin/python -m pytest -q -p no:cacheprovider --timeout=900 --continue-on-collection-errors",
      "source_commits": [],
      "add_only": True},
     "engines": [{"name": "vlib", "path": "/verif/vlib",
       "serves_properties": sorted(CHECKS),
       "kind_free_text": "Hypothesis-driven generated-input search, bounded-exhaustive enumeration and atheris campaigns against explicit oracles; simulators (tags, ISO-DEP card, RF medium, chips), virtual scheduler, reference models; shard runner, failure signatures, known-findings register, replay files, evidence writer"}],
     "checks": checks,
     "not_applicable": na,
     "notes": "Every case of every leg runs under a non-termination watchdog (a case still running after 60 s is a candidate; the verdict is a budget of further loop iterations inside nfcpy, not the clock). Known genuine defects are listed in /verif/known_findings.json (status known/fixed); checks print KNOWN-FINDING lines for the former. ./check <id> --replay <file> re-executes one saved case without Hypothesis."}
    with open(os.path.join(ROOT, "MANIFEST.json"), "w") as f:
        json.dump(m, f, indent=1); f.write("\n")

if __name__ == "__main__":
    main()
