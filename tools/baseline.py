#!/venv/bin/python
"""run the repository's pinned suite and compare with /root/.vp/BASELINE.json:
exit 0 iff every stable_pass test still passes.  usage: baseline.py [repo_dir]"""
import json, os, subprocess, sys, tempfile
import xml.etree.ElementTree as ET
repo = sys.argv[1] if len(sys.argv) > 1 else "/repo"
base = json.load(open("/root/.vp/BASELINE.json"))
fd, path = tempfile.mkstemp(suffix=".xml"); os.close(fd)
env = dict(os.environ); env.pop("NFCPY_VERIF", None)
if repo != "/repo":
    env["PYTHONPATH"] = os.path.join(repo, "src")
subprocess.run(["/venv/bin/python", "-m", "pytest", "-q", "-p", "no:cacheprovider",
                "--timeout=900", "--continue-on-collection-errors",
                "--junitxml=" + path], cwd=repo, env=env,
               stdout=subprocess.DEVNULL, stderr=subprocess.DEVNULL)
passed = set()
for tc in ET.parse(path).getroot().iter("testcase"):
    if not any(c.tag in ("failure", "error", "skipped") for c in tc):
        passed.add("%s::%s" % (tc.get("classname"), tc.get("name")))
os.unlink(path)
def norm(s):
    # BASELINE ids look like tests.test_x.TestY::test_z[param]
    return s
want = set(base["stable_pass"])
missing = sorted(want - passed)
# timing dependent tests can fail on a loaded machine: re-run the missing ones
still = []
for m in missing[:25]:
    mod, rest = m.split("::", 1) if "::" in m else (m, "")
    parts = mod.split(".")
    path = "/".join(parts[:2]) + ".py" + "".join("::" + c for c in parts[2:]) + "::" + rest
    ok = False
    for _ in range(2):
        r = subprocess.run(["/venv/bin/python", "-m", "pytest", "-q", "-p", "no:cacheprovider",
                            "--timeout=300", path], cwd=repo, env=env,
                           stdout=subprocess.PIPE, stderr=subprocess.STDOUT, text=True)
        if " passed" in r.stdout and "failed" not in r.stdout and "error" not in r.stdout.lower().split("passed")[0][-40:]:
            ok = True
            break
    if not ok:
        still.append(m)
    else:
        print("  (passed on re-run: %s)" % m)
missing = still + missing[25:]
print("stable_pass=%d passed_now=%d missing=%d" % (len(want), len(passed), len(missing)))
for m in missing[:40]:
    print("  MISSING", m)
sys.exit(1 if missing else 0)
