#!/opt/veriftools/pyvenv/bin/python
"""validate MANIFEST.json and every evidence file against the schemas"""
import json, sys, glob, jsonschema
ok = True
m = json.load(open('/verif/MANIFEST.json'))
jsonschema.validate(m, json.load(open('/root/.vp/MANIFEST.schema.json')))
es = json.load(open('/root/.vp/EVIDENCE.schema.json'))
props = [json.loads(l)['id'] for l in open('/verif/properties.jsonl')]
claimed = [c['property_id'] for c in m['checks']]
na = [n['property_id'] for n in m.get('not_applicable', [])]
for p in props:
    if p not in claimed and p not in na:
        print("property neither claimed nor not_applicable:", p); ok = False
for c in m['checks']:
    f = c['evidence_file']
    try:
        e = json.load(open(f))
        jsonschema.validate(e, es)
        assert e['property_id'] == c['property_id']
        assert e['level'] == c['level_claimed']['category'], "level mismatch"
        print("ok", f, e['tier'], e['coverage'].get('evaluations'), e['coverage'].get('distinct_nontrivial'), "%.0fs" % e['wall_s'])
    except Exception as x:
        print("BAD", f, str(x)[:300]); ok = False
sys.exit(0 if ok else 1)
