#!/bin/sh
# usage: seedcheck.sh <seeded-id> [tier] [props...]   apply /verif/seeded/<id>/patch.diff to /repo,
# run the checks of the property it breaks (or the given ones), undo the patch.
id=$1; tier=${2:-quick}; shift; shift 2>/dev/null
d=/verif/seeded/$id
[ -f "$d/patch.diff" ] || { echo "no $d/patch.diff"; exit 2; }
props="$*"
[ -n "$props" ] || props=$(/venv/bin/python -c "import json;print(json.load(open('$d/meta.json'))['property'])")
git -C /repo apply "$d/patch.diff" || { echo "patch does not apply"; exit 2; }
trap 'git -C /repo checkout -- . ' EXIT
for p in $props; do
  out=$(cd /verif && VERIF_EVIDENCE_DIR=/tmp/ev-seed ./check $p --tier $tier 2>&1); rc=$?
  echo "== $id on $p tier=$tier rc=$rc"
  echo "$out" | grep -v KNOWN-FINDING | cut -c1-260 | head -6
done
