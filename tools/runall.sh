#!/bin/sh
# run every registered check (tier $1, default quick) and summarise
cd /verif || exit 2
tier=${1:-quick}
for p in $(/venv/bin/python -c "import json; print(' '.join(c['property_id'] for c in json.load(open('MANIFEST.json'))['checks']))"); do
  s=$(date +%s)
  out=$(./check $p --tier $tier 2>&1); rc=$?
  e=$(date +%s)
  echo "$p rc=$rc $((e-s))s $(echo "$out" | grep -v KNOWN-FINDING | tail -1 | cut -c1-150)"
done
