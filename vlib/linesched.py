"""Line-granular deterministic interleaving of a few threads.

The virtual scheduler (vsched) switches threads only where nfcpy synchronises
(locks, conditions, sleeps).  Code without such points - a tag object computing
a MAC, a codec - runs atomically there, so state that two *independent* objects
share by accident (a module-level cache, a class attribute, a reused cipher
object) is never observed half-updated.  This module owns the schedule at the
granularity of source lines instead: every thread body runs under a
``sys.settrace`` hook that counts the line events executed inside the files in
``scope`` (and, cheaper, the function calls inside the files in
``call_scope``); when the count of a thread reaches one of its switch points
the baton goes to the next live thread.  Exactly one thread runs at any time, the
schedule is a pure function of the switch points, and code outside ``scope``
(the simulators) is atomic.

    counts, results = run([body0, body1], [[], []], scope)      # solo-like
    counts, results = run([body0, body1], [[120, 4000], [77]], scope)

``results[i]`` is ("ok", value) or ("exc", exception).
"""
from __future__ import annotations

import sys
import threading

from .engine import HarnessError

_tls = threading.local()


class atomic(object):
    """with linesched.atomic(): ...   no switch happens inside the block (used
    around the simulators, which may call into files that are in scope)"""

    def __enter__(self):
        _tls.depth = getattr(_tls, "depth", 0) + 1

    def __exit__(self, *exc):
        _tls.depth -= 1
        return False


class _Run(object):
    def __init__(self, bodies, points, scope, call_scope=()):
        self.bodies = bodies
        self.points = [set(p) for p in points]
        self.scope = tuple(scope)
        self.call_scope = tuple(call_scope)
        self.n = len(bodies)
        self.count = [0] * self.n
        self.alive = [True] * self.n
        self.results = [None] * self.n
        self.turn = 0
        self.switches = 0
        self.cond = threading.Condition()

    # ---- baton
    def _next_alive(self, i):
        for k in range(1, self.n + 1):
            j = (i + k) % self.n
            if j != i and self.alive[j]:
                return j
        return None

    def _wait_turn(self, i):
        while self.turn != i:
            if not self.cond.wait(timeout=60):
                raise HarnessError("linesched: thread %d starved" % i)

    def _switch(self, i):
        with self.cond:
            j = self._next_alive(i)
            if j is None:
                return
            self.switches += 1
            self.turn = j
            self.cond.notify_all()
            self._wait_turn(i)

    # ---- tracing
    def _tracer(self, i):
        scope = self.scope
        count = self.count
        points = self.points[i]

        def local(frame, event, arg):
            if event == "line" and not getattr(_tls, "depth", 0):
                count[i] += 1
                if count[i] in points:
                    self._switch(i)
            return local

        call_scope = self.call_scope

        def glob(frame, event, arg):
            if event == "call":
                name = frame.f_code.co_filename
                if name.startswith(scope):
                    return local
                if call_scope and name.startswith(call_scope) and \
                        not getattr(_tls, "depth", 0):
                    # function-call granularity (cheap) for bulky pure code
                    count[i] += 1
                    if count[i] in points:
                        self._switch(i)
            return None
        return glob

    def _thread(self, i):
        try:
            with self.cond:
                self._wait_turn(i)
            sys.settrace(self._tracer(i))
            try:
                self.results[i] = ("ok", self.bodies[i]())
            except BaseException as e:  # noqa: B902 - handed to the caller
                self.results[i] = ("exc", e)
            finally:
                sys.settrace(None)
        finally:
            with self.cond:
                self.alive[i] = False
                if self.turn == i:
                    j = self._next_alive(i)
                    if j is not None:
                        self.turn = j
                self.cond.notify_all()

    def go(self):
        ts = [threading.Thread(target=self._thread, args=(i,), daemon=True)
              for i in range(self.n)]
        for t in ts:
            t.start()
        for t in ts:
            t.join(timeout=120)
            if t.is_alive():
                raise HarnessError("linesched: a thread did not finish")
        return list(self.count), self.results, self.switches


def run(bodies, points, scope, call_scope=()):
    """run the bodies under the line schedule; returns (event counts, results,
    number of switches that really happened).  Files in `scope` count every
    source line, files in `call_scope` every function call."""
    return _Run(bodies, points, scope, call_scope).go()
