"""SimAir: the RF medium between two nfcpy stacks, and SimDevice, a driver
(nfc.clf.device.Device) on top of it.  Payload level like the real drivers
(CRC / parity are the chipset's business).  Passive communication mode only:
sense_dep raises UnsupportedTargetError like rcs380/udp.

Every frame crossing the medium is logged with direction, bit rate, bytes and
fate, and passed through a fault function

    fault(direction, frame_no, frame) -> "deliver" | "lose" | "corrupt"
                                          | ("substitute", bytes)

"corrupt" surfaces as TransmissionError at the receiver (what a driver reports
for a CRC error), "lose" as silence -> TimeoutError after the virtual timeout.
A frame sent at a bit rate the receiver is not tuned to is lost.  ``break_at``
(frame number) switches the field off: later frames are lost and the
listener's exchange raises BrokenLinkError (like rcs380 on RF_OFF).
``host_fault(device_name, call_name, call_no)`` may return an exception that
the driver call then raises (dead USB device).

Must be used under an active vsched.Sched.
"""
import errno

import nfc.clf
import nfc.clf.device

from . import vsched

BRTY = ("106A", "212F", "424F")


class Air(object):
    def __init__(self):
        self.cond = vsched.VCondition()
        self.cond.vname = "Air"
        self.listener = None    # dict(dev, target, state, brty)
        self.to_t = []          # frames initiator -> target: (brty, bytes, ok)
        self.to_i = []          # frames target -> initiator
        self.log = []           # dict(n, dir, brty, data, fate, t)
        self.fault = None
        self.host_fault = None
        self.break_at = None
        self.broken = False
        self.n = 0
        self.field = False      # an initiator is driving the target
        self.first_brty = "106A"
        self.calls = []         # (device, call) in order, across both devices

    def now(self):
        return vsched.current().now

    def fate(self, direction, brty, frame):
        self.n += 1
        if self.break_at is not None and self.n >= self.break_at:
            self.broken = True
        f = "deliver"
        if self.broken:
            f = "lose"
        elif self.fault is not None:
            f = self.fault(direction, self.n, bytes(frame))
        self.log.append({"n": self.n, "dir": direction, "brty": brty,
                         "data": bytes(frame),
                         "fate": f if isinstance(f, str) else "substitute",
                         "t": self.now()})
        return f

    def break_link(self):
        with self.cond:
            self.broken = True
            self.cond.notify_all()


class SimDevice(nfc.clf.device.Device):
    def __init__(self, air, name, max_send=290, max_recv=290):
        self.air, self.name = air, name
        self._path = "sim:" + name
        self._vendor_name = "Sim"
        self._device_name = "Dev"
        self._chipset_name = "SIM"
        self.max_send, self.max_recv = max_send, max_recv
        self.ncalls = 0
        self.closed = False
        self.tuned = "106A"

    # ------------------------------------------------------------- helpers
    def _call(self, name):
        self.ncalls += 1
        self.air.calls.append((self.name, name))
        hf = self.air.host_fault
        if hf is not None:
            exc = hf(self.name, name, self.ncalls)
            if exc is not None:
                raise exc
        if self.closed:
            raise IOError(errno.ENODEV, "device closed")

    def _wait(self, box, timeout, on_idle=None):
        """wait on the medium until box is non-empty; None on timeout"""
        air = self.air
        if timeout is None:
            while not box:
                if on_idle is not None:
                    on_idle()
                air.cond.wait(None)
            return True
        end = air.now() + timeout
        while not box:
            if on_idle is not None:
                on_idle()
            left = end - air.now()
            if left <= 0:
                return None
            air.cond.wait(left)
        return True

    # ------------------------------------------------------------- driver
    def close(self):
        self.air.calls.append((self.name, "close"))
        self.closed = True

    def mute(self):
        self._call("mute")
        air = self.air
        with air.cond:
            lst = air.listener
            if lst is not None and lst["dev"] is not self and air.field \
                    and lst.get("initiator") is self:
                # the initiator switches its field off
                air.field = False
                lst["rf_off"] = True
                air.cond.notify_all()

    def sense_tta(self, target):
        self._call("sense_tta")
        if target.brty != "106A":
            raise nfc.clf.UnsupportedTargetError(
                "sim does not sense %s" % target.brty)
        air = self.air
        with air.cond:
            lst = air.listener
            if lst and lst["state"] == "listen" and not air.broken:
                t = lst["target"]
                if target.sel_req and bytes(target.sel_req) != \
                        bytes(t.sdd_res):
                    return None
                self.tuned = "106A"
                return nfc.clf.RemoteTarget(
                    "106A", sens_res=bytearray(t.sens_res),
                    sdd_res=bytearray(t.sdd_res),
                    sel_res=bytearray(t.sel_res))
        return None

    def sense_ttb(self, target):
        self._call("sense_ttb")
        if target.brty != "106B":
            raise nfc.clf.UnsupportedTargetError(target.brty)
        return None

    def sense_ttf(self, target):
        self._call("sense_ttf")
        if target.brty not in ("212F", "424F"):
            raise nfc.clf.UnsupportedTargetError(target.brty)
        air = self.air
        with air.cond:
            lst = air.listener
            if lst and lst["state"] == "listen" and not air.broken:
                t = lst["target"]
                req = bytes(target.sensf_req or b"\x00\xff\xff\x00\x00")
                res = bytearray(t.sensf_res)
                sc = bytes(res[17:19])
                if req[1:3] not in (b"\xff\xff", sc) and not (
                        req[1:2] == b"\xff" and req[2:3] == sc[1:2]) and not (
                        req[2:3] == b"\xff" and req[1:2] == sc[0:1]):
                    return None
                if len(req) > 3 and req[3] == 0:
                    res = res[:17]
                self.tuned = target.brty
                lst["brty"] = target.brty
                return nfc.clf.RemoteTarget(target.brty, sensf_res=res)
        return None

    def sense_dep(self, target):
        self._call("sense_dep")
        raise nfc.clf.UnsupportedTargetError("sim has no active mode")

    def listen_tta(self, target, timeout):
        self._call("listen_tta")
        raise nfc.clf.UnsupportedTargetError("sim listen_tta")

    def listen_ttb(self, target, timeout):
        self._call("listen_ttb")
        raise nfc.clf.UnsupportedTargetError("sim listen_ttb")

    def listen_ttf(self, target, timeout):
        self._call("listen_ttf")
        raise nfc.clf.UnsupportedTargetError("sim listen_ttf")

    def listen_dep(self, target, timeout):
        self._call("listen_dep")
        air = self.air
        with air.cond:
            if air.listener is not None and air.listener["dev"] is not self:
                # the other side is listening too: nobody will come
                end = air.now() + timeout
                while air.now() < end:
                    air.cond.wait(end - air.now())
                return None
            lst = dict(dev=self, target=target, state="listen", brty="106A",
                       initiator=None, rf_off=False)
            air.listener = lst
            del air.to_t[:]
            end = air.now() + timeout
            atr_req = psl_req = None
            try:
                while True:
                    left = end - air.now()
                    if left <= 0 or not self._wait(air.to_t, left):
                        return None
                    fb, frame, ok = air.to_t.pop(0)
                    if fb != lst["brty"] or not ok:
                        continue
                    frame = bytearray(frame)
                    if fb == "106A":
                        if not frame or frame[0] != 0xF0:
                            continue
                        frame = frame[1:]
                    if not frame or frame[0] != len(frame) or len(frame) < 3:
                        continue
                    data = frame[1:]
                    if data[0:2] == b"\xD4\x00" and len(data) >= 16:
                        atr_req = data
                        atr_res = bytearray(target.atr_res)
                        self._reply(lst["brty"], atr_res)
                        lst["state"] = "atr"
                    elif data[0:2] == b"\xD4\x04" and atr_req and \
                            len(data) == 5:
                        psl_req = data
                        self._reply(lst["brty"], b"\xD5\x05" + data[2:3])
                        lst["brty"] = BRTY[min(data[3] >> 3 & 7, 2)]
                    elif data[0:2] == b"\xD4\x06" and atr_req:
                        lst["state"] = "active"
                        t = nfc.clf.LocalTarget(lst["brty"], dep_req=data)
                        t.atr_req, t.atr_res = atr_req, atr_res
                        if psl_req:
                            t.psl_req = psl_req
                            t.psl_res = b"\xD5\x05" + psl_req[2:3]
                        if air.first_brty == "106A":
                            t.sens_res = bytearray(target.sens_res)
                            t.sdd_res = bytearray(target.sdd_res)
                            t.sel_res = bytearray(target.sel_res)
                        else:
                            t.sensf_res = bytearray(target.sensf_res)
                        self.tuned = lst["brty"]
                        return t
            finally:
                if lst["state"] != "active":
                    air.listener = None

    def _reply(self, brty, data):
        air = self.air
        frame = bytearray([len(data) + 1]) + bytearray(data)
        if brty == "106A":
            frame = bytearray(b"\xF0") + frame
        f = air.fate("T>I", brty, frame)
        if f == "deliver":
            air.to_i.append((brty, bytes(frame), True))
        elif f == "corrupt":
            air.to_i.append((brty, bytes(frame), False))
        elif isinstance(f, tuple):
            air.to_i.append((brty, bytes(f[1]), True))
        air.cond.notify_all()

    def send_cmd_recv_rsp(self, target, data, timeout):
        self._call("send_cmd_recv_rsp")
        air = self.air
        with air.cond:
            lst = air.listener
            if lst is not None and lst.get("initiator") is None:
                lst["initiator"] = self
                air.field = True
                air.first_brty = target.brty
            del air.to_i[:]
            if data is not None:
                f = air.fate("I>T", target.brty, data)
                if f == "deliver":
                    air.to_t.append((target.brty, bytes(data), True))
                elif f == "corrupt":
                    air.to_t.append((target.brty, bytes(data), False))
                elif isinstance(f, tuple):
                    air.to_t.append((target.brty, bytes(f[1]), True))
                air.cond.notify_all()
            end = None if timeout is None else air.now() + timeout
            while True:
                left = None if end is None else end - air.now()
                if left is not None and left <= 0:
                    raise nfc.clf.TimeoutError("sim: no response")
                if not self._wait(air.to_i, left):
                    raise nfc.clf.TimeoutError("sim: no response")
                fb, frame, ok = air.to_i.pop(0)
                if fb != target.brty:
                    continue        # not tuned to that bit rate: lost
                if not ok:
                    raise nfc.clf.TransmissionError("sim: crc error")
                return bytearray(frame)

    def send_rsp_recv_cmd(self, target, data, timeout):
        self._call("send_rsp_recv_cmd")
        air = self.air
        with air.cond:
            lst = air.listener
            if data is not None:
                f = air.fate("T>I", target.brty, data)
                if f == "deliver":
                    air.to_i.append((target.brty, bytes(data), True))
                elif f == "corrupt":
                    air.to_i.append((target.brty, bytes(data), False))
                elif isinstance(f, tuple):
                    air.to_i.append((target.brty, bytes(f[1]), True))
                air.cond.notify_all()
            if timeout is not None and timeout <= 0:
                return None
            end = None if timeout is None else air.now() + timeout

            def rf_check():
                if lst is not None and lst.get("rf_off"):
                    raise nfc.clf.BrokenLinkError("sim: rf field off")
                if air.broken and not air.to_t:
                    raise nfc.clf.BrokenLinkError("sim: link broken")
            while True:
                left = None if end is None else end - air.now()
                if left is not None and left <= 0:
                    raise nfc.clf.TimeoutError("sim: no command")
                if not self._wait(air.to_t, left, on_idle=rf_check):
                    raise nfc.clf.TimeoutError("sim: no command")
                fb, frame, ok = air.to_t.pop(0)
                if fb != target.brty:
                    continue
                if not ok:
                    raise nfc.clf.TransmissionError("sim: crc error")
                return bytearray(frame)

    def get_max_send_data_size(self, target):
        self._call("get_max_send_data_size")
        return self.max_send

    def get_max_recv_data_size(self, target):
        self._call("get_max_recv_data_size")
        return self.max_recv

    def turn_on_led_and_buzzer(self):
        self._call("turn_on_led_and_buzzer")

    def turn_off_led_and_buzzer(self):
        self._call("turn_off_led_and_buzzer")


def frontend(air, name, **kw):
    """a real ContactlessFrontend on a SimDevice"""
    clf = nfc.clf.ContactlessFrontend()
    clf.device = SimDevice(air, name, **kw)
    return clf
