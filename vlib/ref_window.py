"""Sliding-window *monitor* for LLCP data link connections (LLCP 1.3, 5.6).

Not predictive: it is fed the connection-mode PDUs (vlib.ref_llcp dict form)
that each link controller sends and receives, and judges them against the
numbered-PDU rules of the specification.  Nothing here imports nfc.

    m = Monitor()
    m.on_send(side, p)      # side's link controller put p on the link
    m.on_recv(side, p)      # side's link controller was handed p
    m.on_wire(src, dst, p)  # both at once (harness-pumped links)

An *endpoint* is (side, local SAP, remote SAP).  A connection exists between
the CC PDU that answers a CONNECT PDU and the first DISC / DM / FRMR PDU that
either endpoint sends.  Rules checked (oracle name -> meaning):

  ns-sequence     N(S) of successive I PDUs of an endpoint increases by one
                  modulo 16, starting at 0
  window          an endpoint never has more I PDUs sent than
                  (acknowledged by N(R) values it has *received*) + RW of
                  its peer as announced in the peer's CONNECT / CC PDU
  ack-beyond      N(R) sent by an endpoint never acknowledges more I PDUs than
                  the endpoint has received
  payload-miu     I PDU payload <= MIU announced by the receiving endpoint
  frmr            no FRMR PDU is ever sent (both ends are the library)

N(R) deltas are taken modulo 16 against the running count; since at most
RW <= 15 PDUs can be outstanding, a backward or overshooting N(R) always
shows up as a count beyond what was received.
"""


class WindowViolation(Exception):
    def __init__(self, oracle, detail):
        Exception.__init__(self, oracle, detail)
        self.oracle = oracle
        self.detail = detail


def _other(side, sides):
    return sides[1] if side == sides[0] else sides[0]


class End(object):
    def __init__(self, key, miu, rw):
        self.key = key
        self.miu = miu          # MIU this endpoint announced (it receives <=)
        self.rw = rw            # RW this endpoint announced
        self.sent_i = 0         # I PDUs sent
        self.rcvd_i = 0         # I PDUs received
        self.acked_in = 0       # own I PDUs acknowledged by received N(R)
        self.acked_out = 0      # peer I PDUs acknowledged by sent N(R)
        self.max_out = 0        # largest number of unacknowledged I PDUs
        self.full = 0           # times the window was completely used
        self.rnr = 0            # RNR PDUs sent
        self.rr = 0             # RR PDUs sent
        self.piggy = 0          # I PDUs that carried a new acknowledgement

    def outstanding(self):
        return self.sent_i - self.acked_in


class Monitor(object):
    def __init__(self, sides=("a", "b")):
        self.sides = tuple(sides)
        self.ends = {}          # (side, local, remote) -> End
        self.pending = {}       # (side, ssap) -> (miu, rw) of a sent CONNECT
        self.closed = []        # End objects of finished connections
        self.unknown = 0        # numbered PDUs outside any known connection
        self.before_cc = 0      # I PDUs sent to an endpoint still waiting for CC
        self.frmr = 0

    # ------------------------------------------------------------ plumbing
    def on_wire(self, src, dst, p):
        self.on_send(src, p)
        self.on_recv(dst, p)

    def _pair(self, side, p, sending):
        """(own endpoint, peer endpoint) for PDU p seen at side"""
        if sending:
            key = (side, p["ssap"], p["dsap"])
            peer = (_other(side, self.sides), p["dsap"], p["ssap"])
        else:
            key = (side, p["dsap"], p["ssap"])
            peer = (_other(side, self.sides), p["ssap"], p["dsap"])
        return self.ends.get(key), self.ends.get(peer)

    def _drop(self, *ends):
        for e in ends:
            if e is not None and self.ends.get(e.key) is e:
                del self.ends[e.key]
                self.closed.append(e)

    # -------------------------------------------------------------- events
    def on_send(self, side, p):
        t = p["type"]
        if t == "AGF":
            for q in p["pdus"]:
                self.on_send(side, q)
            return
        if t == "CONNECT":
            self.pending[(side, p["ssap"])] = (p["miu"], p["rw"])
            return
        if t == "CC":
            peer_side = _other(side, self.sides)
            params = self.pending.pop((peer_side, p["dsap"]), None)
            if params is None:
                return          # CC nobody asked for: not a connection
            mine = End((side, p["ssap"], p["dsap"]), p["miu"], p["rw"])
            theirs = End((peer_side, p["dsap"], p["ssap"]), *params)
            # endpoints of an earlier connection on the same addresses end
            self._drop(self.ends.get(mine.key), self.ends.get(theirs.key))
            self.ends[mine.key] = mine
            self.ends[theirs.key] = theirs
            return
        if t == "FRMR":
            self.frmr += 1
            raise WindowViolation("frmr", "side %s sent %r" % (side, p))
        if t in ("DISC", "DM"):
            if t == "DM":
                self.pending.pop((_other(side, self.sides), p["dsap"]), None)
            me, peer = self._pair(side, p, True)
            self._drop(me, peer)
            return
        if t not in ("I", "RR", "RNR"):
            return
        me, peer = self._pair(side, p, True)
        if me is None or peer is None:
            self.unknown += 1
            if t == "I" and (_other(side, self.sides),
                             p["dsap"]) in self.pending:
                self.before_cc += 1
            return
        if t == "I":
            if p["ns"] != me.sent_i % 16:
                raise WindowViolation(
                    "ns-sequence", "%r sent I PDU number %d with N(S)=%d"
                    % (me.key, me.sent_i, p["ns"]))
            if me.outstanding() + 1 > peer.rw:
                raise WindowViolation(
                    "window", "%r sends I PDU number %d while only %d are "
                    "acknowledged to it and the peer announced RW=%d"
                    % (me.key, me.sent_i, me.acked_in, peer.rw))
            if len(p["data"]) > peer.miu:
                raise WindowViolation(
                    "payload-miu", "%r sends %d byte to a peer that announced"
                    " MIU %d" % (me.key, len(p["data"]), peer.miu))
            me.sent_i += 1
            out = me.outstanding()
            me.max_out = max(me.max_out, out)
            if out == peer.rw:
                me.full += 1
        elif t == "RNR":
            me.rnr += 1
        else:
            me.rr += 1
        delta = (p["nr"] - me.acked_out) % 16
        if delta:
            me.acked_out += delta
            if t == "I":
                me.piggy += 1
            if me.acked_out > me.rcvd_i:
                raise WindowViolation(
                    "ack-beyond", "%r sent %s with N(R)=%d: acknowledges %d "
                    "I PDUs but only %d were received"
                    % (me.key, t, p["nr"], me.acked_out, me.rcvd_i))

    def on_recv(self, side, p):
        t = p["type"]
        if t == "AGF":
            for q in p["pdus"]:
                self.on_recv(side, q)
            return
        if t not in ("I", "RR", "RNR"):
            return
        me, peer = self._pair(side, p, False)
        if me is None or peer is None:
            return
        if t == "I":
            me.rcvd_i += 1
        delta = (p["nr"] - me.acked_in) % 16
        me.acked_in += delta

    # --------------------------------------------------------------- stats
    def all_ends(self):
        return list(self.ends.values()) + self.closed
