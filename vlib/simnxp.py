"""NXP Type 2 Tag personalities that nfc.tag.tt2_nxp tells apart.

Memory backed simulators for vlib.tagdev.TagDevice (``tech``, ``target``,
``command``, ``reset``, ``dead``).  ``make(product, ...)`` returns the
simulator, ``EXPECT[product]`` names the nfc.tag.tt2_nxp class that
nfc.tag.activate() must return for it.

    product      class               recognised by (tt2_nxp.activate)
    UL           MifareUltralight    1Ah and 60h both stay unanswered
    ULC          MifareUltralightC   1Ah 00h answered with AFh + ek(RndB)
    NTAG203      NTAG203             NAK to 1Ah, NAK byte 00h to 60h
    MF0UL11/21, MF0ULH11/21          GET_VERSION (Ultralight EV1)
    NTAG210/212/213/215/216          GET_VERSION (vlib.simntag personality)
    NT3H1101/NT3H1201                GET_VERSION (NTAG I2C 1k / 2k)

Common behaviour (NXP data sheets MF0ICU1, MF0ICU2, NTAG203, MF0ULx1,
NT3H1101/1201 as far as the reader side code depends on it):

* READ 30h returns four pages and rolls over to page 0 behind the last
  readable page; WRITE A2h one page; everything a personality does not know
  and every command the access conditions forbid is refused and the tag leaves
  the ACTIVE state: it stays mute until the next activation (``reset()``).
  ``nak`` selects how a refusal reaches the reader: "byte" = one byte 00h (the
  4-bit NAK as most drivers deliver it), "mute" = no response.  The plain
  Ultralight never answers an unknown command (that silence is what makes
  tt2_nxp.activate take it for an Ultralight and not for an NTAG203).
* pages 0-1 UID (read only), page 2 BCC1/INT/LOCK0-1 (lock bytes are OR-ed),
  page 3 OTP / capability container (OR-ed), user pages, then the personality
  specific pages.  Static lock bits (page 2) and the dynamic lock bits of
  Ultralight C / NTAG203 (page 40) are ENFORCED: a WRITE to a locked page is
  refused.

Mifare Ultralight C (SimUltralightC): 48 pages; 40 LOCK2-3 (OR-ed), 41 16-bit
one-way counter, 42 AUTH0, 43 AUTH1, 44-47 3DES key (never readable).  Pages
from AUTH0 on need a successful authentication for WRITE and, with AUTH1 bit 0
cleared, for READ (a READ from below AUTH0 rolls over at AUTH0).  AUTH0, AUTH1
and the key become effective with the next activation.  Two pass mutual
authentication, tag side, two-key 3DES in CBC mode over the whole dialogue:

    1Ah 00h              -> AFh ek(RndB)                       IV = 0
    AFh ek(RndA||RndB')  -> 00h ek(RndA')    RndX' = RndX rotated left 8 bit
                            IV of each block = the previous cipher block of
                            the dialogue, whoever sent it
    anything wrong (not waiting for AFh, length, RndB' mismatch) -> refusal.

The key K1||K2 is stored byte reversed per half in pages 44-45 / 46-47
("BREAKMEIFYOUCAN!" ex works).  RndB is taken from a counter based generator
(deterministic per simulator instance, fresh for every 1Ah).  DES blocks come
from pyDes in ECB mode; the chaining is done here.

NTAG I2C (SimNTAGI2C): SECTOR SELECT C2h FFh + 4 byte packet (passive
acknowledge), sectors 0-3.  1k: sector 0 pages 00h-E1h user memory, E2h
dynamic lock bytes, E8h-E9h configuration registers; 2k: sector 0 00h-FFh,
sector 1 00h-DFh user memory, E0h dynamic lock bytes, E8h-E9h configuration;
both: sector 3 F8h-F9h session registers (read only).  A READ that starts at
an existing page returns 00h for the pages that do not exist, a READ that
starts at a page that does not exist is refused.  SRAM / pass-through mode,
I2C side and energy harvesting are not modelled.

Not modelled anywhere: COMPATIBILITY WRITE A0h, anticollision below
``target()``, EV1 counters beyond READ_CNT (zero), tearing, ECC signature
value (32 zero bytes), AUTHLIM.

Attributes: mem (bytearray), pages (first page behind the sector 0 memory),
uid, dead, halted, authenticated, cut_after, budget, writes, log.
"""
import functools
import hashlib

import nfc.clf
from pyDes import triple_des, ECB

from . import simntag
from .tagdev import BudgetExceeded

ACK = b"\x0a"
FACTORY_KEY_PAGES = b"BREAKMEIFYOUCAN!"       # pages 44-47 ex works


# ----------------------------------------------------------- 3DES, tag side
@functools.lru_cache(maxsize=1 << 14)
def _ede(key, block, decrypt):
    c = triple_des(key, ECB)
    return bytes(c.decrypt(block) if decrypt else c.encrypt(block))


def _xor(a, b):
    return bytes(x ^ y for x, y in zip(a, b))


def cbc_send(key, iv, data):
    """encipher what the tag sends: c[i] = E(p[i] xor c[i-1]), c[-1] = iv"""
    out = b""
    for i in range(0, len(data), 8):
        iv = _ede(key, _xor(data[i:i + 8], iv), False)
        out += iv
    return out


def cbc_recv(key, iv, data):
    """decipher what the tag received: p[i] = D(c[i]) xor c[i-1]"""
    out = b""
    for i in range(0, len(data), 8):
        out += _xor(_ede(key, data[i:i + 8], True), iv)
        iv = data[i:i + 8]
    return out


def key_to_pages(key):
    """16 byte key K1||K2 -> content of pages 44-47"""
    key = bytes(key)
    assert len(key) == 16
    return key[0:8][::-1] + key[8:16][::-1]


def pages_to_key(pages):
    pages = bytes(pages)
    return pages[0:8][::-1] + pages[8:16][::-1]


# -------------------------------------------------------------- common part
class NxpTag(object):
    tech = "A"
    PAGES = 16
    unknown = None          # None: as ``nak``; "mute": never answered

    def __init__(self, uid=bytes.fromhex("04112233445566"), nak="byte",
                 cut_after=None, budget=100000):
        self.uid = bytes(uid)
        assert len(self.uid) == 7 and self.uid[0] == 0x04
        self.nak = nak
        self.pages = self.PAGES
        m = self.mem = bytearray(self.PAGES * 4)
        uid = self.uid
        m[0:4] = uid[0:3] + bytes([0x88 ^ uid[0] ^ uid[1] ^ uid[2]])
        m[4:8] = uid[3:7]
        m[8:12] = bytes([uid[3] ^ uid[4] ^ uid[5] ^ uid[6], 0x48, 0, 0])
        self.cut_after = cut_after
        self.budget = budget
        self.dead = False
        self.n = 0
        self.writes = 0
        self.log = []

    def put_ndef(self, cc, ndef):
        """ndef: bytes = formatted with that message; "blank" = capability
        container only (no TLV in the data area); None = nothing"""
        if ndef is None:
            return
        self.mem[12:16] = bytes(cc)
        if isinstance(ndef, str):
            assert ndef == "blank"
            return
        tlv = bytes([0x03, len(ndef)]) + bytes(ndef) + b"\xfe"
        assert len(ndef) < 255 and len(tlv) <= cc[2] * 8
        self.mem[16:16 + len(tlv)] = tlv

    # ----------------------------------------------------------- activation
    def reset(self):
        self.halted = False
        self.authenticated = False

    def target(self, poll=None):
        if self.dead:
            return None
        sel_req = getattr(poll, "sel_req", None)
        if sel_req and bytes(sel_req) != self.uid:
            return None
        self.halted = False
        return nfc.clf.RemoteTarget("106A", sens_res=bytearray(b"\x44\x00"),
                                    sel_res=bytearray(b"\x00"),
                                    sdd_res=bytearray(self.uid))

    # ------------------------------------------------------------- commands
    def _nak(self, unknown=False):
        self.halted = True
        self.authenticated = False
        how = self.unknown if unknown and self.unknown else self.nak
        return b"\x00" if how == "byte" else None

    def command(self, data, timeout=None):
        self.n += 1
        if self.n > self.budget:
            raise BudgetExceeded(self.n)
        if self.dead or self.halted or not data:
            return None
        cmd = bytes(data)
        rsp = self._execute(cmd)
        self.log.append((self.n, "%02X" % cmd[0],
                         cmd[1] if len(cmd) > 1 else None, rsp is not None))
        return rsp

    def _execute(self, cmd):
        if cmd[0] == 0x30 and len(cmd) == 2:
            return self._read(cmd[1])
        if cmd[0] == 0xA2 and len(cmd) == 6:
            return self._write(cmd[1], cmd[2:6])
        return self._nak(unknown=True)

    # READ ------------------------------------------------------------------
    def _readable_limit(self):
        return self.PAGES

    def _page(self, p):
        return bytes(self.mem[p * 4:p * 4 + 4])

    def _read(self, p):
        limit = self._readable_limit()
        if p >= limit:
            return self._nak()
        out = b""
        for _ in range(4):
            out += self._page(p)
            p += 1
            if p >= limit:
                p = 0
        return out

    # WRITE -----------------------------------------------------------------
    def _locked(self, p):
        """static lock bits: LOCK0 bit 3-7 -> page 3-7, LOCK1 -> page 8-15"""
        if 3 <= p <= 7:
            return bool(self.mem[10] >> p & 1)
        if 8 <= p <= 15:
            return bool(self.mem[11] >> (p - 8) & 1)
        return False

    def _writable(self, p):
        return 2 <= p < self.PAGES and not self._locked(p)

    def _merge(self, p, old, new):
        """what a WRITE of ``new`` leaves in page p"""
        if p == 2:
            return bytearray([old[0], old[1], old[2] | new[2],
                              old[3] | new[3]])
        if p == 3:
            return bytearray(a | b for a, b in zip(old, new))
        return bytearray(new)

    def _write(self, p, data):
        if not self._writable(p):
            return self._nak()
        if self.cut_after is not None and self.writes >= self.cut_after:
            self.dead = True
            return None
        old = self.mem[p * 4:p * 4 + 4]
        self.mem[p * 4:p * 4 + 4] = self._merge(p, old, bytearray(data))
        self.writes += 1
        return ACK


class SimUltralight(NxpTag):
    """MF0ICU1: 16 pages, 48 byte user memory"""
    PAGES = 16
    unknown = "mute"

    def __init__(self, ndef=b"", **kw):
        NxpTag.__init__(self, **kw)
        self.put_ndef(b"\xE1\x10\x06\x00", ndef)
        self.reset()


class _Lock40(NxpTag):
    """dynamic lock bytes in page 40, 16-bit one-way counter in page 41"""

    def _locked(self, p):
        lock2, lock3 = self.mem[160], self.mem[161]
        if 16 <= p <= 27:
            return bool(lock2 >> (1 + (p - 16) // 4) & 1)
        if 28 <= p <= 39:
            return bool(lock2 >> (5 + (p - 28) // 4) & 1)
        if p == 41:
            return bool(lock3 & 0x10)
        if p == 42:
            return bool(lock3 & 0x20)
        if p == 43:
            return bool(lock3 & 0x40)
        if 44 <= p <= 47:
            return bool(lock3 & 0x80)
        return NxpTag._locked(self, p)

    def _merge(self, p, old, new):
        if p == 40:
            return bytearray([old[0] | new[0], old[1] | new[1], 0, 0])
        if p == 41:
            cnt = old[0] | old[1] << 8
            if cnt == 0:
                cnt = new[0] | new[1] << 8      # the initial counter value
            elif new[0] & 1 and cnt < 0xFFFF:
                cnt += 1
            return bytearray([cnt & 255, cnt >> 8, 0, 0])
        return NxpTag._merge(self, p, old, new)


class SimNTAG203(_Lock40):
    """NTAG203: 42 pages, 144 byte user memory, no GET_VERSION, no
    authentication; every refusal is a NAK"""
    PAGES = 42

    def __init__(self, ndef=b"", nak="byte", **kw):
        assert nak == "byte", "a mute NTAG203 is taken for an Ultralight"
        NxpTag.__init__(self, nak=nak, **kw)
        self.put_ndef(b"\xE1\x10\x12\x00", ndef)
        self.reset()


class SimUltralightC(_Lock40):
    """MF0ICU2, see the module text.  key: K1||K2 as nfcpy takes it from the
    first 16 password bytes (None = ex works); auth0 48 = no protection;
    read_protect = AUTH1 bit 0 cleared; cc3 = byte 3 of the capability
    container (88h / 08h is what protect(password) leaves there)"""
    PAGES = 48

    def __init__(self, ndef=b"", key=None, auth0=0x30, read_protect=True,
                 cc3=0x00, **kw):
        NxpTag.__init__(self, **kw)
        self.put_ndef(bytes([0xE1, 0x10, 0x12, cc3]), ndef)
        m = self.mem
        m[168] = auth0 & 255
        m[172] = 0x00 if read_protect else 0x01
        m[176:192] = FACTORY_KEY_PAGES if key is None else key_to_pages(key)
        self.challenges = 0
        self.reset()

    def reset(self):
        NxpTag.reset(self)
        self.auth0 = self.mem[168]
        self.read_protect = not self.mem[172] & 1
        self.key = pages_to_key(self.mem[176:192])
        self.pending = None             # (RndB, last cipher block) after 1Ah

    def _readable_limit(self):
        limit = 44                      # the key is never readable
        if self.read_protect and not self.authenticated:
            limit = min(limit, self.auth0)
        return limit

    def _writable(self, p):
        if p >= self.auth0 and not self.authenticated:
            return False
        return _Lock40._writable(self, p)

    def _execute(self, cmd):
        pending, self.pending = self.pending, None
        if cmd == b"\x1A\x00":
            self.challenges += 1
            rndb = hashlib.sha256(
                b"RndB" + self.uid + self.challenges.to_bytes(4, "big")
            ).digest()[0:8]
            ek = cbc_send(self.key, bytes(8), rndb)
            self.pending = (rndb, ek)
            return b"\xAF" + ek
        if cmd[0] == 0xAF:
            if pending is None or len(cmd) != 17:
                return self._nak()
            rndb, iv = pending
            plain = cbc_recv(self.key, iv, cmd[1:17])
            rnda = plain[0:8]
            if plain[8:16] != rndb[1:8] + rndb[0:1]:
                return self._nak()
            self.authenticated = True
            return b"\x00" + cbc_send(self.key, cmd[9:17],
                                      rnda[1:8] + rnda[0:1])
        return _Lock40._execute(self, cmd)


# ------------------------------------------------- GET_VERSION personalities
class SimEV1(simntag.SimNTAG21x):
    """Mifare Ultralight EV1 MF0UL(H)11 (20 pages) / MF0UL(H)21 (41 pages):
    the page layout, PWD_AUTH, AUTH0 / PROT / CFGLCK of the NTAG210 / NTAG212
    with another GET_VERSION answer; three 24-bit counters (zero)"""
    PRODUCTS = {
        "MF0UL11": ("0004030101000B03", 20, 16, 0x06),
        "MF0ULH11": ("0004030201000B03", 20, 16, 0x06),
        "MF0UL21": ("0004030101000E03", 41, 37, 0x10),
        "MF0ULH21": ("0004030201000E03", 41, 37, 0x10),
    }

    def _execute(self, cmd):
        if cmd[0] == 0x39 and len(cmd) == 2:
            return bytes(3) if cmd[1] < 3 else self._nak()
        if cmd[0] == 0x3E and len(cmd) == 2:
            return b"\xBD" if cmd[1] < 3 else self._nak()
        return simntag.SimNTAG21x._execute(self, cmd)


class SimNTAGI2C(NxpTag):
    """NT3H1101 (1k) / NT3H1201 (2k), RF side, see the module text"""
    PRODUCTS = {
        "NT3H1101": ("0004040502011303", 0x6D),
        "NT3H1201": ("0004040502011503", 0xEA),
    }
    PAGES = 1024                          # 4 sectors of 256 pages

    def __init__(self, product="NT3H1101", ndef=b"", **kw):
        NxpTag.__init__(self, **kw)
        self.product = product
        version, cc2 = self.PRODUCTS[product]
        self.version = bytes.fromhex(version)
        self.two_k = product == "NT3H1201"
        self.pages = 256 if self.two_k else 0xE3
        self.put_ndef(bytes([0xE1, 0x10, cc2, 0x00]), ndef)
        # configuration registers ex works: NC_REG, LAST_NDEF_BLOCK,
        # SRAM_MIRROR_BLOCK, WDT_LS | WDT_MS, I2C_CLOCK_STR, REG_LOCK, RFU
        cfg = bytes.fromhex("0100F848" "08010000")
        c = self._cfg_page() * 4
        self.mem[c:c + 8] = cfg
        s = (3 * 256 + 0xF8) * 4          # session registers: NS_REG = 01h
        self.mem[s:s + 8] = cfg[0:6] + b"\x01\x00"
        self.reset()

    def _cfg_page(self):
        return (256 if self.two_k else 0) + 0xE8

    def _lock_page(self):
        return 256 + 0xE0 if self.two_k else 0xE2

    def reset(self):
        NxpTag.reset(self)
        self.sector = 0
        self.pending_sector = False

    def _exists(self, sector, p):
        if sector == 0:
            return self.two_k or p <= 0xE2 or p in (0xE8, 0xE9)
        if sector == 1:
            return self.two_k and (p <= 0xE0 or p in (0xE8, 0xE9))
        return sector == 3 and p in (0xF8, 0xF9)

    def _execute(self, cmd):
        if self.pending_sector:
            self.pending_sector = False
            if len(cmd) == 4:
                if cmd[0] > 3:
                    return self._nak()
                self.sector = cmd[0]
                return None                 # passive acknowledge: silence
        if cmd == b"\xC2\xFF":
            self.pending_sector = True
            return ACK
        if cmd == b"\x60":
            return self.version
        return NxpTag._execute(self, cmd)

    def _read(self, p):
        if not self._exists(self.sector, p):
            return self._nak()
        out = b""
        for q in range(p, p + 4):
            a = (self.sector * 256 + q) * 4
            out += bytes(self.mem[a:a + 4]) if q < 256 and \
                self._exists(self.sector, q) else bytes(4)
        return out

    def _locked(self, p):
        return p < 16 and NxpTag._locked(self, p)

    def _write(self, p, data):
        q = self.sector * 256 + p
        if not self._exists(self.sector, p) or q < 2 or self.sector == 3:
            return self._nak()
        cfg = self._cfg_page()
        if q in (cfg, cfg + 1) and self.mem[cfg * 4 + 6] & 1:
            return self._nak()              # REG_LOCK: RF may not write
        if self.sector == 0 and self._locked(p):
            return self._nak()
        if self.cut_after is not None and self.writes >= self.cut_after:
            self.dead = True
            return None
        old = self.mem[q * 4:q * 4 + 4]
        new = bytearray(data)
        if q == self._lock_page():
            new = bytearray(a | b for a, b in zip(old, new))
        else:
            new = self._merge(q if q < 4 else 4, old, new)
        self.mem[q * 4:q * 4 + 4] = new
        self.writes += 1
        return ACK


# ------------------------------------------------------------------ factory
EXPECT = {
    "UL": "MifareUltralight", "ULC": "MifareUltralightC",
    "NTAG203": "NTAG203",
    "MF0UL11": "MF0UL11", "MF0ULH11": "MF0ULH11",
    "MF0UL21": "MF0UL21", "MF0ULH21": "MF0ULH21",
    "NTAG210": "NTAG210", "NTAG212": "NTAG212", "NTAG213": "NTAG213",
    "NTAG215": "NTAG215", "NTAG216": "NTAG216",
    "NT3H1101": "NT3H1101", "NT3H1201": "NT3H1201",
}
PWD_AUTH = tuple(sorted(simntag.PRODUCTS) + sorted(SimEV1.PRODUCTS))
CAPACITY = {           # data area in byte as the capability container says
    "UL": 48, "ULC": 144, "NTAG203": 144, "MF0UL11": 48, "MF0ULH11": 48,
    "MF0UL21": 128, "MF0ULH21": 128, "NTAG210": 48, "NTAG212": 128,
    "NTAG213": 144, "NTAG215": 496, "NTAG216": 872, "NT3H1101": 872,
    "NT3H1201": 1872,
}


def make(product, ndef=b"", **kw):
    """-> simulator.  ndef: message bytes | "blank" (capability container,
    empty data area) | None (no capability container).  Further keywords:
    ULC key, auth0, read_protect, cc3; PWD_AUTH products pwd, pack, auth0,
    prot; all nak, uid, cut_after, budget."""
    if product == "UL":
        return SimUltralight(ndef=ndef, **kw)
    if product == "ULC":
        return SimUltralightC(ndef=ndef, **kw)
    if product == "NTAG203":
        return SimNTAG203(ndef=ndef, **kw)
    if product in SimNTAGI2C.PRODUCTS:
        return SimNTAGI2C(product, ndef=ndef, **kw)
    blank = isinstance(ndef, str)
    if blank:
        assert ndef == "blank"
    cc3 = kw.pop("cc3", None)
    cls = SimEV1 if product in SimEV1.PRODUCTS else simntag.SimNTAG21x
    sim = cls(product, ndef=b"" if blank else ndef, **kw)
    if blank:
        sim.mem[16:sim.user_end * 4] = bytes(sim.user_end * 4 - 16)
    if cc3 is not None:
        sim.mem[15] = cc3
    return sim
