"""NXP NTAG21x (210/212/213/215/216) simulator with PWD_AUTH / PACK.

A memory backed Type 2 Tag for vlib.tagdev.TagDevice (``tech``, ``target``,
``command``, ``reset``, ``dead``) that nfc.tag.activate identifies through
GET_VERSION as the matching nfc.tag.tt2_nxp.NTAG21x class.

Commands: READ 30h (16 byte, roll over to page 0 after the last page),
FAST_READ 3Ah, WRITE A2h, GET_VERSION 60h, READ_SIG 3Ch, READ_CNT 39h,
PWD_AUTH 1Bh.  Everything else (3DES AUTHENTICATE 1Ah, SECTOR SELECT, ...) and
every command the access conditions forbid is answered with a NAK and the tag
leaves the ACTIVE state: it stays mute until the next activation (``reset()``
from the driver's mute()/sense).  ``nak`` selects how a NAK reaches the
reader: "byte" (default) one byte 00h as most drivers deliver the 4-bit NAK,
or "mute" for no response at all.

Memory: pages 0-1 UID(+BCC), 2 BCC1/INT/static lock, 3 CC (one time
programmable: writes are OR-ed), 4.. user memory, [dynamic lock page, OR-ed],
then CFG0 (MIRROR, RFU, MIRROR_PAGE, AUTH0), CFG1 (ACCESS: bit 7 PROT, bit 6
CFGLCK), PWD, PACK|RFU.  PWD and PACK always read as 00h.

Access conditions: pages >= AUTH0 need a successful PWD_AUTH for writing and,
with PROT set, for reading (a READ that starts below AUTH0 rolls over at
AUTH0).  CFGLCK write-protects CFG0/CFG1.  As on the silicon, changes of the
configuration pages (AUTH0, PROT, PWD, PACK) become effective with the next
activation (``reset()``); until then the previous values stay in force.

Not modelled: AUTHLIM negative authentication counter, NFC counter, ASCII
mirror, static/dynamic lock bit enforcement (the bits are stored one-way but
do not block writes), originality signature value (32 zero bytes).

attributes: mem (bytearray), uid, cfgpage, pwd/pack (effective values),
authenticated, halted, dead, cut_after, budget, writes, log [(n, kind, page,
answered)].
"""
import nfc.clf

from .tagdev import BudgetExceeded

#          version (GET_VERSION)   pages cfgpage CC2
PRODUCTS = {
    "NTAG210": ("0004040101000B03", 20, 16, 0x06),
    "NTAG212": ("0004040101000E03", 41, 37, 0x10),
    "NTAG213": ("0004040201000F03", 45, 41, 0x12),
    "NTAG215": ("0004040201001103", 135, 131, 0x3E),
    "NTAG216": ("0004040201001303", 231, 227, 0x6D),
}
FACTORY_PWD = b"\xff\xff\xff\xff"
FACTORY_PACK = b"\x00\x00"
ACK = b"\x0a"


class SimNTAG21x(object):
    tech = "A"
    PRODUCTS = PRODUCTS     # a subclass may bring its own table (vlib.simnxp)

    def __init__(self, product="NTAG213", pwd=None, pack=None, auth0=0xFF,
                 prot=False, uid=bytes.fromhex("04112233445566"), ndef=b"",
                 nak="byte", cut_after=None, budget=100000):
        """pwd (4 byte) / pack (2 byte): None = factory FFFFFFFF / 0000;
        auth0: first protected page (FFh = protection off); prot: reads need
        authentication too; ndef: initial NDEF message bytes (formatted tag),
        None = unformatted (CC all zero)"""
        version, pages, cfgpage, cc2 = self.PRODUCTS[product]
        self.product = product
        self.version = bytes.fromhex(version)
        self.pages = pages
        self.cfgpage = cfgpage
        self.uid = bytes(uid)
        assert len(self.uid) == 7 and self.uid[0] == 0x04
        self.nak = nak
        m = self.mem = bytearray(pages * 4)
        bcc0 = 0x88 ^ uid[0] ^ uid[1] ^ uid[2]
        bcc1 = uid[3] ^ uid[4] ^ uid[5] ^ uid[6]
        m[0:4] = self.uid[0:3] + bytes([bcc0])
        m[4:8] = self.uid[3:7]
        m[8:12] = bytes([bcc1, 0x48, 0x00, 0x00])
        if ndef is not None:
            m[12:16] = bytes([0xE1, 0x10, cc2, 0x00])
            tlv = bytes([0x03, len(ndef)]) + bytes(ndef) + b"\xfe"
            assert len(ndef) < 255 and 16 + len(tlv) <= self.user_end * 4
            m[16:16 + len(tlv)] = tlv
        c = cfgpage * 4
        m[c:c + 4] = bytes([0x04, 0x00, 0x00, auth0 & 255])
        m[c + 4:c + 8] = bytes([0x80 if prot else 0x00, 0, 0, 0])
        m[c + 8:c + 12] = bytes(pwd) if pwd is not None else FACTORY_PWD
        m[c + 12:c + 14] = bytes(pack) if pack is not None else FACTORY_PACK
        assert len(m) == pages * 4
        self.cut_after = cut_after
        self.budget = budget
        self.dead = False
        self.n = 0
        self.writes = 0
        self.log = []
        self.reset()

    @property
    def user_end(self):
        """first page after the user memory"""
        return self.cfgpage if self.cfgpage == 16 else self.cfgpage - 1

    # ----------------------------------------------------------- activation
    def reset(self):
        c = self.cfgpage * 4
        self.auth0 = self.mem[c + 3]
        self.prot = bool(self.mem[c + 4] & 0x80)
        self.cfglck = bool(self.mem[c + 4] & 0x40)
        self.pwd = bytes(self.mem[c + 8:c + 12])
        self.pack = bytes(self.mem[c + 12:c + 14])
        self.authenticated = False
        self.halted = False

    def target(self, poll=None):
        if self.dead:
            return None
        sel_req = getattr(poll, "sel_req", None)
        if sel_req and bytes(sel_req) != self.uid:
            return None
        self.halted = False
        return nfc.clf.RemoteTarget("106A", sens_res=bytearray(b"\x44\x00"),
                                    sel_res=bytearray(b"\x00"),
                                    sdd_res=bytearray(self.uid))

    # ------------------------------------------------------------- commands
    def _nak(self, code=0x00):
        self.halted = True
        self.authenticated = False
        return bytes([code]) if self.nak == "byte" else None

    def _readable_limit(self):
        """pages [0, limit) are readable in the current state"""
        if self.prot and not self.authenticated:
            return min(self.auth0, self.pages)
        return self.pages

    def _page(self, p):
        d = bytearray(self.mem[p * 4:p * 4 + 4])
        if p == self.cfgpage + 2:
            d[0:4] = bytes(4)                 # PWD reads as zero
        elif p == self.cfgpage + 3:
            d[0:2] = bytes(2)                 # PACK reads as zero
        return bytes(d)

    def command(self, data, timeout=None):
        self.n += 1
        if self.n > self.budget:
            raise BudgetExceeded(self.n)
        if self.dead or self.halted or not data:
            return None
        cmd = bytes(data)
        rsp = self._execute(cmd)
        self.log.append((self.n, "%02X" % cmd[0],
                         cmd[1] if len(cmd) > 1 else None, rsp is not None))
        return rsp

    def _execute(self, cmd):
        op = cmd[0]
        if op == 0x30 and len(cmd) == 2:
            limit = self._readable_limit()
            if cmd[1] >= limit:
                return self._nak()
            out = b""
            p = cmd[1]
            for _ in range(4):
                out += self._page(p)
                p += 1
                if p >= limit:
                    p = 0
            return out
        if op == 0x3A and len(cmd) == 3:
            limit = self._readable_limit()
            if cmd[1] > cmd[2] or cmd[2] >= limit:
                return self._nak()
            return b"".join(self._page(p) for p in range(cmd[1], cmd[2] + 1))
        if op == 0xA2 and len(cmd) == 6:
            p = cmd[1]
            if p < 2 or p >= self.pages:
                return self._nak()
            if p >= self.auth0 and not self.authenticated:
                return self._nak()
            if self.cfglck and p in (self.cfgpage, self.cfgpage + 1):
                return self._nak()
            if self.cut_after is not None and self.writes >= self.cut_after:
                self.dead = True
                return None
            new = bytearray(cmd[2:6])
            old = self.mem[p * 4:p * 4 + 4]
            if p == 2:
                new = bytearray([old[0], old[1], old[2] | new[2],
                                 old[3] | new[3]])
            elif p == 3 or (self.cfgpage > 16 and p == self.cfgpage - 1):
                new = bytearray(a | b for a, b in zip(old, new))
            self.mem[p * 4:p * 4 + 4] = new
            self.writes += 1
            return ACK
        if op == 0x60 and len(cmd) == 1:
            return self.version
        if op == 0x3C and len(cmd) == 2:
            return bytes(32)
        if op == 0x39 and len(cmd) == 2 and self.product != "NTAG210" \
                and self.product != "NTAG212":
            return bytes(3)
        if op == 0x1B and len(cmd) == 5:
            if cmd[1:5] == self.pwd:
                self.authenticated = True
                return self.pack
            return self._nak(0x00)
        return self._nak()


def make(product="NTAG213", **kw):
    return SimNTAG21x(product, **kw)
