"""./check Cxx --tier quick|thorough      run a property check
   ./check Cxx --replay <file>            re-execute one saved case

exit 0: held on everything explored (known findings printed as KNOWN-FINDING)
exit 1: "VIOLATION property=<id> replay=<path>" printed
exit 2: harness problem / inconclusive
"""
from __future__ import annotations

import argparse
import importlib
import json
import os
import subprocess
import sys
import time
import traceback

sys.dont_write_bytecode = True

from . import engine  # noqa: E402
from .engine import (HarnessError, merge_accounts, run_case,  # noqa: E402
                     run_leg_shard, sig_match, Account)

ROOT = engine.ROOT


def load_prop(prop):
    if engine.REPO_SRC not in sys.path:
        sys.path.insert(0, engine.REPO_SRC)
    import logging
    if os.environ.get("VERIF_LOG") == "debug":
        # twin legs: every logger enabled down to DEBUG-1 and every record
        # formatted (code that only runs, or only formats its arguments,
        # when logging is on)
        class _Fmt(logging.Handler):
            def emit(self, record):
                try:
                    record.getMessage()
                except Exception:
                    pass        # as logging does: reported, not raised

        root = logging.getLogger()
        root.handlers[:] = [_Fmt()]
        root.setLevel(1)
    else:
        logging.disable(logging.CRITICAL)
    mod = importlib.import_module("props." + prop.lower())
    if os.environ.get("VERIF_LOG") == "debug":
        # (the nfc package pins its own logger levels at import time)
        for name, lg in list(logging.root.manager.loggerDict.items()):
            if name.split(".")[0] == "nfc" and isinstance(lg, logging.Logger):
                lg.setLevel(1)
        logging.getLogger("nfc").setLevel(1)
    if hasattr(mod, "setup"):
        mod.setup()
    return mod


def load_known(prop):
    path = os.path.join(ROOT, "known_findings.json")
    if not os.path.exists(path):
        return []
    with open(path) as f:
        data = json.load(f)
    return [e for e in data.get("findings", []) if e["property"] == prop]


def load_regress(prop):
    d = os.path.join(ROOT, "regress", prop)
    out = []
    if os.path.isdir(d):
        for name in sorted(os.listdir(d)):
            if name.endswith(".json"):
                with open(os.path.join(d, name)) as f:
                    e = json.load(f)
                e["_file"] = name
                out.append(e)
    return out


def write_replay(prop, seed, tier, failure):
    d = os.path.join(ROOT, "replays", prop)
    os.makedirs(d, exist_ok=True)
    key = engine.case_key(failure["case"])
    path = os.path.join(d, "%s-%s.json" % (failure["leg"], key))
    with open(path, "w") as f:
        json.dump({"property": prop, "seed": seed, "tier": tier,
                   "leg": failure["leg"], "case": failure["case"],
                   "signature": failure["signature"],
                   "detail": failure["detail"]}, f, indent=1)
    return path


def regress_phase(prop, mod, legs_by_name, accts):
    """run reproducers of known findings (deciding which are still active),
    reproducers of fixed findings and the committed regression inputs.
    returns (active_known {id: signature}, failures [dump], lines [str])"""
    active, failures, lines = {}, [], []
    known = load_known(prop)
    for e in known:
        if e.get("status") != "known":
            continue
        for rep in e.get("reproducers", []):
            leg = legs_by_name.get(rep["leg"])
            if leg is None:
                raise HarnessError("known finding %s names unknown leg %s"
                                   % (e["id"], rep["leg"]))
            acct = accts.setdefault(leg.name, Account(leg.name))
            f = run_case(leg, rep["case"], acct, {})
            if f is None:
                continue            # repaired: not active, nothing printed
            if sig_match(e["signature"], f.sig):
                if e["id"] not in active:
                    active[e["id"]] = e["signature"]
                    lines.append("KNOWN-FINDING: property=%s %s: %s"
                                 % (prop, e["id"], e["what"]))
            else:
                failures.append(f.dump())
    for e in known:
        if e.get("status") != "fixed":
            continue
        for rep in e.get("reproducers", []):
            leg = legs_by_name[rep["leg"]]
            acct = accts.setdefault(leg.name, Account(leg.name))
            f = run_case(leg, rep["case"], acct, active)
            if f is not None:
                failures.append(f.dump())
    for e in load_regress(prop):
        leg = legs_by_name.get(e["leg"])
        if leg is None:
            raise HarnessError("regress file %s names unknown leg" % e["_file"])
        acct = accts.setdefault(leg.name, Account(leg.name))
        f = run_case(leg, e["case"], acct, active)
        if f is not None:
            failures.append(f.dump())
    return active, failures, lines


def child_main(args, seed):
    mod = load_prop(args.prop)
    legname, i, n = args.child.rsplit(":", 2)
    leg = dict((lg.name, lg) for lg in mod.LEGS)[legname]
    with open(args.known) as f:
        active = json.load(f)
    acct, failure = run_leg_shard(args.prop, leg, args.tier, seed, int(i),
                                  int(n), active)
    with open(args.out, "w") as f:
        json.dump({"account": acct, "failure": failure}, f)
    return 0


def run_jobs(args, seed, jobs, outdir, known_path, legs_by_name):
    maxpar = int(os.environ.get("VERIF_JOBS", "0")) or min(16, os.cpu_count() or 1)
    limit = float(os.environ.get("VERIF_JOB_TIMEOUT",
                                 "900" if args.tier == "quick" else "5400"))
    pending = list(jobs)
    running = []
    results = []
    errors = []
    env = dict(os.environ)
    env["PYTHONHASHSEED"] = "0"
    env["PYTHONDONTWRITEBYTECODE"] = "1"
    env["VERIF_SEED"] = str(seed)
    while pending or running:
        while pending and len(running) < maxpar:
            leg, i, n = pending.pop(0)
            out = os.path.join(outdir, "%s.%d.json" % (leg, i))
            if os.path.exists(out):
                os.unlink(out)
            opt = ["-O"] if legs_by_name[leg].optimize else []
            cmd = [sys.executable] + opt + ["-m", "vlib.cli", args.prop, "--tier",
                   args.tier, "--child", "%s:%d:%d" % (leg, i, n), "--out",
                   out, "--known", known_path]
            log = open(out + ".log", "w")
            env_leg = dict(env, **legs_by_name[leg].env) \
                if legs_by_name[leg].env else env
            p = subprocess.Popen(cmd, cwd=ROOT, env=env_leg, stdout=log,
                                 stderr=subprocess.STDOUT)
            running.append((p, leg, i, out, log, time.monotonic()))
        time.sleep(0.05)
        still = []
        for item in running:
            p, leg, i, out, log, t0 = item
            rc = p.poll()
            if rc is None:
                if time.monotonic() - t0 > limit:
                    p.kill()
                    p.wait()
                    log.close()
                    errors.append("leg %s shard %d exceeded %ds wall limit"
                                  % (leg, i, limit))
                else:
                    still.append(item)
                continue
            log.close()
            if rc != 0 or not os.path.exists(out):
                with open(out + ".log") as f:
                    tail = f.read()[-4000:]
                errors.append("leg %s shard %d exit %s\n%s" % (leg, i, rc, tail))
                continue
            with open(out) as f:
                results.append(json.load(f))
        running = still
    return results, errors


def write_evidence(prop, mod, tier, seed, merged, wall, nviol, active,
                   extra_notes=None):
    legs = {}
    total_eval = total_nt = 0
    samples = []
    labels = {}
    excluded = {}
    rules = []
    legdefs = dict((lg.name, lg) for lg in mod.LEGS)
    all_exh = True
    for name in sorted(merged):
        m = merged[name]
        nt = len(m["nt_keys"]) + m["nt_bulk"]
        total_eval += m["evaluations"]
        total_nt += nt
        legs[name] = {"evaluations": m["evaluations"],
                      "distinct_nontrivial": nt,
                      "exhaustive": bool(m["exhaustive"]),
                      "labels": dict(sorted(m["labels"].items(),
                                            key=lambda kv: -kv[1])[:40])}
        all_exh = all_exh and bool(m["exhaustive"])
        samples.extend(m["samples"][:3])
        for k, v in m["excluded"].items():
            excluded[k] = excluded.get(k, 0) + v
        lg = legdefs.get(name)
        if lg is not None and lg.rule:
            rules.append("[%s] %s" % (name, lg.rule))
    cov = {"evaluations": total_eval, "distinct_nontrivial": total_nt,
           "rule": " ".join(rules) or getattr(mod, "RULE", ""),
           "samples": samples[:24], "legs": legs,
           "excluded_known": excluded,
           "known_findings_active": sorted(active)}
    if all_exh and merged:
        cov["exhaustive"] = True
    if extra_notes:
        cov["notes"] = extra_notes
    ev = {"property_id": prop, "tier": tier, "seed": seed,
          "level": mod.LEVEL, "coverage": cov,
          "assumptions": list(getattr(mod, "ASSUMPTIONS", [])),
          "wall_s": round(wall, 2), "violations": nviol}
    evdir = os.environ.get("VERIF_EVIDENCE_DIR") or os.path.join(ROOT, "evidence")
    os.makedirs(evdir, exist_ok=True)
    with open(os.path.join(evdir, prop + ".json"), "w") as f:
        json.dump(ev, f, indent=1, sort_keys=True)
        f.write("\n")


def parent_main(args, seed):
    t0 = time.monotonic()
    mod = load_prop(args.prop)
    legs = [lg for lg in mod.LEGS if args.tier in lg.tiers]
    if args.leg:
        legs = [lg for lg in legs if lg.name in args.leg.split(",")]
    legs_by_name = dict((lg.name, lg) for lg in mod.LEGS)
    accts = {}
    active, failures, lines = regress_phase(args.prop, mod, legs_by_name, accts)
    for ln in lines:
        print(ln)
    sys.stdout.flush()
    # one scratch directory per run: two runs of the same check (e.g. at
    # different seeds) must not share shard result files
    outdir = os.path.join(ROOT, ".out", args.prop,
                          "%s-%d" % (args.tier, os.getpid()))
    os.makedirs(outdir, exist_ok=True)
    known_path = os.path.join(outdir, "active_known.json")
    with open(known_path, "w") as f:
        json.dump(active, f)
    jobs = []
    for lg in legs:
        n = max(1, lg.shards[args.tier])
        for i in range(n):
            jobs.append((lg.name, i, n))
    # longest legs first so the pool drains evenly
    results, errors = run_jobs(args, seed, jobs, outdir, known_path,
                               legs_by_name)
    if not errors and not os.environ.get("VERIF_KEEP_OUT"):
        import shutil
        shutil.rmtree(outdir, ignore_errors=True)
    dumps = [a.dump() for a in accts.values()] + [r["account"] for r in results]
    merged = merge_accounts(dumps)
    failures += [r["failure"] for r in results if r["failure"]]
    # one replay per distinct signature
    seen, reported = set(), []
    for f in failures:
        k = json.dumps(f["signature"], sort_keys=True)
        if k in seen:
            continue
        seen.add(k)
        path = write_replay(args.prop, seed, args.tier, f)
        reported.append((f, path))
    write_evidence(args.prop, mod, args.tier, seed, merged,
                   time.monotonic() - t0, len(reported), active)
    for f, path in reported:
        print("VIOLATION property=%s replay=%s" % (args.prop, path))
        print("  leg=%s oracle=%s exc=%s frame=%s cls=%s" % (
            f["leg"], f["signature"]["oracle"], f["signature"]["exc"],
            f["signature"]["frame"], f["signature"]["cls"]))
        print("  detail: %s" % (f["detail"] or "")[:600])
    if reported:
        return 1
    if errors:
        for e in errors:
            sys.stderr.write("HARNESS: %s\n" % e)
        return 2
    # generator regression guard
    for lg in legs:
        m = merged.get(lg.name)
        if m is None or m["evaluations"] == 0:
            sys.stderr.write("HARNESS: leg %s ran no case\n" % lg.name)
            return 2
        nt = len(m["nt_keys"]) + m["nt_bulk"]
        if lg.nt_floor and nt < lg.nt_floor * m["evaluations"]:
            sys.stderr.write("HARNESS: leg %s non-trivial fraction %d/%d below"
                             " floor %.2f\n" % (lg.name, nt, m["evaluations"],
                                                lg.nt_floor))
            return 2
    tot = sum(m["evaluations"] for m in merged.values())
    nt = sum(len(m["nt_keys"]) + m["nt_bulk"] for m in merged.values())
    print("OK property=%s tier=%s seed=%d evaluations=%d nontrivial=%d "
          "wall=%.1fs" % (args.prop, args.tier, seed, tot, nt,
                          time.monotonic() - t0))
    return 0


def replay_main(args, seed):
    mod = load_prop(args.prop)
    legs_by_name = dict((lg.name, lg) for lg in mod.LEGS)
    with open(args.replay) as f:
        rep = json.load(f)
    leg = legs_by_name[rep["leg"]]
    need_env = dict((k, v) for k, v in leg.env.items()
                    if os.environ.get(k) != v)
    if (leg.optimize and not sys.flags.optimize) or need_env:
        os.execve(sys.executable, [sys.executable]
                  + (["-O"] if leg.optimize else [])
                  + ["-m", "vlib.cli"] + sys.argv[1:],
                  dict(os.environ, **need_env))
    accts = {}
    active, _, lines = regress_phase(args.prop, mod, legs_by_name, accts)
    for ln in lines:
        print(ln)
    f = run_case(leg, rep["case"], Account(leg.name), active)
    if f is None:
        print("replay held: property=%s leg=%s" % (args.prop, rep["leg"]))
        return 0
    print("VIOLATION property=%s replay=%s" % (args.prop, args.replay))
    print("  oracle=%s exc=%s frame=%s" % (f.sig["oracle"], f.sig["exc"],
                                           f.sig["frame"]))
    print("  detail: %s" % (f.detail or "")[:2000])
    return 1


def main(argv=None):
    ap = argparse.ArgumentParser()
    ap.add_argument("prop")
    ap.add_argument("--tier", default=None, choices=["quick", "thorough"])
    ap.add_argument("--replay")
    ap.add_argument("--leg")
    ap.add_argument("--child")
    ap.add_argument("--out")
    ap.add_argument("--known")
    args = ap.parse_args(argv)
    args.prop = args.prop.upper()
    if args.tier is None:
        t = os.environ.get("VERIF_TIER", "quick")
        args.tier = t if t in ("quick", "thorough") else "quick"
    try:
        seed = int(os.environ.get("VERIF_SEED", "1"))
    except ValueError:
        seed = 1
    cov = _start_cov(args)
    try:
        if args.child:
            return child_main(args, seed)
        if args.replay:
            return replay_main(args, seed)
        return parent_main(args, seed)
    except HarnessError as e:
        sys.stderr.write("HARNESS: %s\n" % e)
        return 2
    except Exception:
        sys.stderr.write("HARNESS: %s\n" % traceback.format_exc())
        return 2
    finally:
        if cov is not None:
            cov.stop()
            cov.save()


def _start_cov(args):
    """VERIF_COV=<dir>: record which lines of the nfc package this process
    executes (tools/covreport.py shows what the generators never reach);
    measurement only, never part of a registered command"""
    d = os.environ.get("VERIF_COV")
    if not d:
        return None
    os.environ.setdefault("COVERAGE_CORE", "sysmon")
    import coverage
    os.makedirs(d, exist_ok=True)
    cov = coverage.Coverage(data_file=os.path.join(d, "cov." + args.prop),
                            data_suffix=True, branch=False,
                            include=[os.path.join(engine.REPO_SRC, "nfc", "*")])
    cov.start()
    return cov


if __name__ == "__main__":
    sys.exit(main())
