"""Two LogicalLinkControllers whose link is pumped by the harness.

No MAC, no run loops: the controllers are configured as ``activate()`` leaves
them and one *exchange* src->dst is

    collect() -> encode -> ref_llcp decode (independent) -> decode -> dispatch()

all on the controller (Hypothesis) thread.  Blocking socket calls (connect,
accept, resolve, close of an established connection, blocking send/recv) run
in helper virtual threads (``pair.call``) that the controller settles; all
time is virtual.  Always use

    pair = LlcPair(...)
    try: ...
    finally: pair.close()
"""
import nfc.llcp
import nfc.llcp.llc as llc_mod
import nfc.llcp.pdu as pdu

from . import ref_llcp as ref
from . import vsched
from .engine import HarnessError, Violation, unexpected

SIDES = ("a", "b")
RAW_ACCESS_POINT = llc_mod.RAW_ACCESS_POINT
LOGICAL_DATA_LINK = nfc.llcp.LOGICAL_DATA_LINK
DATA_LINK_CONNECTION = nfc.llcp.DATA_LINK_CONNECTION


def other(side):
    return "b" if side == "a" else "a"


def observe(p):
    """field values of a library PDU object in ref_llcp dict form (only the
    PDU types a link controller can produce without security)"""
    name = p.name
    d = {"dsap": p.dsap, "ssap": p.ssap}
    if isinstance(p, pdu.UnknownProtocolDataUnit):
        d["type"] = "U%d" % p.ptype
        d["payload"] = bytes(p.payload)
        return d
    d["type"] = name
    if name == "AGF":
        d["pdus"] = [observe(q) for q in p]
    elif name == "UI":
        d["data"] = bytes(p.data)
    elif name == "CONNECT":
        d.update(miu=p.miu, rw=p.rw, sn=bytes(p.sn) if p.sn else None)
    elif name == "CC":
        d.update(miu=p.miu, rw=p.rw)
    elif name == "DM":
        d["reason"] = p.reason
    elif name == "FRMR":
        d.update(flags=p.rej_flags, ptype=p.rej_ptype, ns=p.ns, nr=p.nr,
                 vs=p.vs, vr=p.vr, vsa=p.vsa, vra=p.vra)
    elif name == "SNL":
        d["sdreq"] = [[t, bytes(s)] for t, s in p.sdreq]
        d["sdres"] = [[t, s] for t, s in p.sdres]
    elif name == "I":
        d.update(ns=p.ns, nr=p.nr, data=bytes(p.data))
    elif name in ("RR", "RNR"):
        d["nr"] = p.nr
    elif name == "PAX":
        d.update(version=p._version, miux=p._miux, wks=p._wks, lto=p._lto,
                 opt=p._opt)
    elif name == "DPS":
        d.update(ecpk=bytes(p.ecpk) if p.ecpk else None,
                 rn=bytes(p.rn) if p.rn else None)
    return d


def flat(r):
    """the PDUs of a frame in ref dict form, aggregation removed"""
    return list(r["pdus"]) if r["type"] == "AGF" else [r]


# ------------------------------------------------------------------ recorder
# Class level wrappers around the per-SAP queue interface.  They only record
# (when the owning controller carries a ``_verif_rec`` list) and pass through.
_wrapped = [False]


def _install_recorder():
    if _wrapped[0]:
        return

    def wrap(cls, meth, kind):
        orig = getattr(cls, meth)

        def wrapper(self, *args, **kw):
            rec = getattr(self.llc, "_verif_rec", None)
            if kind == "enq" and rec is not None:
                rec.append(("enq", getattr(self, "addr", 1), args[0]))
            res = orig(self, *args, **kw)
            if kind == "deq" and rec is not None and res is not None:
                rec.append(("deq", getattr(self, "addr", 1), res))
            return res
        wrapper.__name__ = meth
        setattr(cls, meth, wrapper)
    for cls in (llc_mod.ServiceAccessPoint, llc_mod.ServiceDiscovery):
        wrap(cls, "dequeue", "deq")
        wrap(cls, "enqueue", "enq")
    wrap(llc_mod.ServiceAccessPoint, "sendack", "deq")
    _wrapped[0] = True


class Box(object):
    """result of a call made in a helper virtual thread"""

    def __init__(self, name):
        self.name = name
        self.done = False
        self.value = None
        self.exc = None

    def __repr__(self):
        return "<Box %s done=%s value=%r exc=%r>" % (self.name, self.done,
                                                     self.value, self.exc)


class Frame(object):
    """one exchange: what src collected and what went over the link"""
    __slots__ = ("src", "raw", "ref", "lib", "collected", "enqueued")

    def __init__(self, src, raw, r, lib, collected, enqueued):
        self.src, self.raw, self.ref, self.lib = src, raw, r, lib
        self.collected = collected      # [(sap addr, lib pdu)] in dequeue order
        self.enqueued = enqueued        # [(sap addr, lib pdu)] at the receiver

    @property
    def pdus(self):
        return flat(self.ref)


class LlcPair(object):
    def __init__(self, miu_a=248, miu_b=248, agf_a=True, agf_b=True,
                 choices=(), seed=0, record=False, step_budget=400000):
        vsched.patch_nfc()
        self.sched = vsched.Sched(choices, seed=seed, step_budget=step_budget)
        vsched.activate(self.sched)
        self.llc = {
            "a": llc_mod.LogicalLinkController(miu=miu_a, agf=agf_a,
                                               sec=False),
            "b": llc_mod.LogicalLinkController(miu=miu_b, agf=agf_b,
                                               sec=False)}
        for side in SIDES:
            me, peer = self.llc[side], self.llc[other(side)]
            # what activate() derives from the peer's PAX parameters
            me.cfg["rcvd-ver"] = (1, 3)
            me.cfg["send-miu"] = peer.cfg["recv-miu"]
            me.cfg["recv-lto"] = peer.cfg["send-lto"]
            me.cfg["send-wks"] = 3
            me.cfg["llcp-dpc"] = 0
            me.link.ESTABLISHED = True
        self.record = record
        if record:
            _install_recorder()
            for side in SIDES:
                self.llc[side]._verif_rec = []
        # False: xfer() does not let the application threads run to their
        # next blocking point afterwards (as a link loop that goes from
        # dispatch() straight into the next collect())
        self.autosettle = True
        self.taps = []              # fn(frame) called before dispatch
        self.frames = 0
        self.boxes = []

    # ------------------------------------------------------------- sockets
    def socket(self, side, sock_type):
        return nfc.llcp.Socket(self.llc[side], sock_type)

    def call(self, fn, name="helper"):
        """run fn() in a helper virtual thread; returns its Box.  Exceptions
        (except scheduler aborts) are stored, not raised."""
        box = Box(name)

        def run():
            try:
                box.value = fn()
            except Exception as e:
                box.exc = e
            box.done = True
        self.boxes.append(box)
        self.sched.spawn(run, name)
        self.sched.settle()
        return box

    def settle(self):
        return self.sched.settle()

    # ------------------------------------------------------------ exchange
    def xfer(self, src):
        """one exchange src -> other(src); returns the Frame or None when
        the controller had nothing to send (a SYMM on a real link)"""
        s, d = self.llc[src], self.llc[other(src)]
        if self.record:
            del s._verif_rec[:]
            del d._verif_rec[:]
        try:
            p = s.collect()
        except (Violation, HarnessError, vsched.Abort, vsched.StepBudget):
            raise
        except Exception as e:
            raise unexpected(e, detail="collect() at %s" % src)
        collected = None
        if self.record:
            collected = [(a, q) for k, a, q in s._verif_rec if k == "deq"]
            del s._verif_rec[:]
        if p is None:
            if collected:
                raise Violation("collected-but-not-sent", "collect() at %s "
                                "returned None after dequeuing %s"
                                % (src, [str(q) for a, q in collected]))
            if self.autosettle:
                self.sched.settle()
            return None
        try:
            raw = pdu.encode(p)
        except Exception as e:
            raise unexpected(e, detail="encode of collected %s at %s"
                             % (p.name, src))
        try:
            r = ref.decode(raw)
        except ref.RefReject as rr:
            raise Violation("frame-not-wellformed", "%s sent %s: %s"
                            % (src, raw.hex()[:200], rr))
        try:
            q = pdu.decode(raw)
        except Exception as e:
            raise unexpected(e, detail="decode of own frame %s"
                             % raw.hex()[:200])
        if observe(q) != r:
            raise Violation("decode-disagrees-with-reference",
                            "%s: library %r reference %r"
                            % (raw.hex()[:200], observe(q), r))
        frame = Frame(src, raw, r, p, collected, None)
        for tap in self.taps:
            tap(frame)
        try:
            d.dispatch(q)
        except (Violation, HarnessError, vsched.Abort, vsched.StepBudget):
            raise
        except Exception as e:
            raise unexpected(e, detail="dispatch(%s) at %s"
                             % (raw.hex()[:120], other(src)))
        if self.record:
            frame.enqueued = [(a, x) for k, a, x in d._verif_rec
                              if k == "enq"]
            del d._verif_rec[:]
        self.frames += 1
        if self.autosettle:
            self.sched.settle()
        return frame

    def inject(self, dst, p):
        """hand a PDU object to dst's controller as if the peer had sent it
        (peer behaviour the library's own sockets never produce)"""
        try:
            self.llc[dst].dispatch(pdu.decode(pdu.encode(p)))
        except (Violation, HarnessError, vsched.Abort, vsched.StepBudget):
            raise
        except Exception as e:
            raise unexpected(e, detail="dispatch of injected %s" % p.name)
        self.sched.settle()

    def pump(self, rounds=1, first="a"):
        """rounds x (first -> other, other -> first); number of frames"""
        n = 0
        for _ in range(rounds):
            for side in (first, other(first)):
                if self.xfer(side) is not None:
                    n += 1
        return n

    def failures(self):
        """uncaught exceptions of virtual threads other than helper calls"""
        return self.sched.failures()

    def close(self):
        stuck = self.sched.shutdown()
        vsched.activate(None)
        return stuck
