"""atheris (libFuzzer for Python) campaigns.

atheris.Fuzz() never returns, so a campaign is a subprocess running
``python -m vlib.fuzz <module> <function> ...``.  The target function carries
the semantic oracle and raises on a violation; libFuzzer then stores the
crashing input, which the caller re-executes through the plain oracle.
"""
import os
import re
import shutil
import subprocess
import sys
import tempfile

ROOT = os.path.dirname(os.path.dirname(os.path.abspath(__file__)))
DEPS = os.path.join(ROOT, ".deps")


def available():
    return os.path.isdir(os.path.join(DEPS, "atheris"))


def campaign(module, function, runs, seed, corpus, max_len, include,
             timeout=3000):
    """returns dict(execs, features, crash (bytes|None), samples, log)"""
    if not available():
        from .engine import HarnessError
        raise HarnessError("atheris not installed in %s (run setup_cmd)" % DEPS)
    work = tempfile.mkdtemp(prefix="fz-", dir=os.path.join(ROOT, ".out"))
    try:
        cdir = os.path.join(work, "corpus")
        adir = os.path.join(work, "artifacts")
        os.makedirs(cdir)
        os.makedirs(adir)
        for k, c in enumerate(corpus):
            with open(os.path.join(cdir, "seed%03d" % k), "wb") as f:
                f.write(c)
        env = dict(os.environ)
        env["PYTHONPATH"] = os.pathsep.join(
            [ROOT, DEPS] + [p for p in env.get("PYTHONPATH", "").split(
                os.pathsep) if p])
        env["VERIF_FUZZ_INCLUDE"] = ",".join(include)
        cmd = [sys.executable, "-m", "vlib.fuzz", module, function, cdir,
               "-runs=%d" % runs, "-seed=%d" % (seed % 2**31 or 1),
               "-max_len=%d" % max_len, "-artifact_prefix=%s/" % adir,
               "-print_final_stats=1", "-timeout=60", "-rss_limit_mb=4096"]
        p = subprocess.run(cmd, cwd=ROOT, env=env, stdout=subprocess.PIPE,
                           stderr=subprocess.STDOUT, timeout=timeout)
        log = p.stdout.decode("utf-8", "replace")
        crash = None
        for name in sorted(os.listdir(adir)):
            with open(os.path.join(adir, name), "rb") as f:
                crash = f.read()
            break
        m = re.search(r"stat::number_of_executed_units:\s*(\d+)", log)
        execs = int(m.group(1)) if m else 0
        fts = re.findall(r"\bft: (\d+)", log)
        features = int(fts[-1]) if fts else 0
        samples = []
        names = sorted(os.listdir(cdir))
        for name in names[:2] + names[-2:]:
            with open(os.path.join(cdir, name), "rb") as f:
                samples.append(f.read()[:200])
        if crash is None and p.returncode != 0:
            from .engine import HarnessError
            raise HarnessError("atheris exited %d without artifact:\n%s"
                               % (p.returncode, log[-3000:]))
        if crash is None and execs == 0:
            from .engine import HarnessError
            raise HarnessError("atheris executed nothing:\n" + log[-3000:])
        return {"execs": execs, "features": features, "crash": crash,
                "samples": samples, "log": log}
    finally:
        shutil.rmtree(work, ignore_errors=True)


def _main():
    module, function = sys.argv[1], sys.argv[2]
    argv = [sys.argv[0]] + sys.argv[3:]
    sys.path.insert(0, os.environ.get("NFCPY_SRC", "/repo/src"))
    import logging
    logging.disable(logging.CRITICAL)
    import atheris
    include = [x for x in os.environ.get("VERIF_FUZZ_INCLUDE", "").split(",")
               if x]
    with atheris.instrument_imports(include=include or None):
        import importlib
        for name in include:
            importlib.import_module(name)
    mod = importlib.import_module(module)
    if hasattr(mod, "setup"):
        mod.setup()
    target = getattr(mod, function)
    atheris.Setup(argv, target)
    atheris.Fuzz()


if __name__ == "__main__":
    _main()
