"""Chip simulators behind fake transports for the driver properties C13/C14.

    build(driver)  -> (device, link)   device built through the driver's real
                                       constructor / init() against a responder
    frontend(dev)  -> ContactlessFrontend with the device installed

drivers: pn531 pn532 pn533 rcs956 acr122 arygonA arygonB rcs380 udp

A *link* is the fake transport (``write(frame)``, ``read(timeout)``,
``close()``, ``TYPE``, names).  It parses what the driver writes with the
reference frame models (vlib.ref_pn53x), hands the host command to a chip
model and queues ACK + response.  ``link.arm()`` starts counting host
commands; ``link.script[n]`` replaces the answer to the n-th command after
arm() by a fault (see ``FAULT KINDS``).  ``link.cmds`` is the list of
(code, payload) seen since arm().

All time is virtual: ``patch_time()`` replaces the ``time`` module attribute
of the driver modules by a clock that only advances through ``sleep`` and
simulated waits.
"""
import errno
import os
import struct
import types

from . import ref_crc
from . import ref_pn53x as ref

ACK = ref.ACK


class SimError(Exception):
    """the simulator was driven in a way it does not model"""


# ------------------------------------------------------------------- time
class VClock(object):
    def __init__(self):
        self.now = 1.0e9

    def time(self):
        return self.now

    def sleep(self, d):
        if d and d > 0:
            self.now += d

    def reset(self):
        self.now = 1.0e9


CLOCK = VClock()
_time_ns = types.SimpleNamespace(time=CLOCK.time, sleep=CLOCK.sleep)
_patched = [False]


def patch_time():
    if _patched[0]:
        return
    import nfc.clf.pn53x
    import nfc.clf.pn532
    import nfc.clf.pn533
    import nfc.clf.rcs956
    import nfc.clf.rcs380
    import nfc.clf.arygon
    import nfc.clf.udp
    for m in (nfc.clf.pn53x, nfc.clf.pn532, nfc.clf.pn533, nfc.clf.rcs956,
              nfc.clf.rcs380, nfc.clf.arygon, nfc.clf.udp):
        m.time = _time_ns
    _patched[0] = True


def _ioerror(code):
    return IOError(code, os.strerror(code))


# ----------------------------------------------------------------- faults
# FAULT KINDS (lists, JSON friendly).  "response" = the frame the chip would
# have sent for this command.
#   ["status", x]        response payload replaced by the single byte x
#                        (rcs380: x is a 32 bit communication status for
#                        InCommRF/TgCommRF, a status byte otherwise)
#   ["errframe"]         the chip's syntax error frame instead of the response
#   ["timeout"]          ACK, then nothing: read raises IOError(ETIMEDOUT)
#   ["noack"]            nothing at all
#   ["skipack"]          the response without the preceding ACK
#   ["ioerr", errno, where]   where: "write" | "ack" | "rsp"
#   ["trunc", k]         response cut to its first k bytes (1 <= k < len)
#   ["extend", bytes]    response followed by extra bytes
#   ["flip", bit]        one bit of the response inverted
#   ["random", bytes]    arbitrary non-empty bytes instead of the response
#   ["wrongcode", d]     response code off by d
#   ["payload", k]       well-formed response whose payload is cut to k bytes
#                        (k < 0: -k surplus bytes appended)
#   ["nodata"]           (rcs380) a frame that is neither ack nor data
def _flip(frame, bit):
    f = bytearray(frame)
    bit %= 8 * len(f)
    f[bit // 8] ^= 1 << (bit % 8)
    return bytes(f)


class LinkBase(object):
    TYPE = "USB"
    manufacturer_name = "SimCo"
    product_name = "SimReader"
    port = "/dev/ttySIM"

    def __init__(self):
        self.queue = []
        self.script = {}
        self.armed = False
        self.cmds = []
        self.rsps = []
        self.wlog = []
        self.closed = False
        self.tty = types.SimpleNamespace(write=lambda data: None)

    def arm(self):
        self.armed = True
        self.cmds = []
        self.rsps = []
        self.queue[:] = []

    def close(self):
        self.closed = True

    def _fault_for(self, code, payload):
        if not self.armed:
            return None
        n = len(self.cmds)
        self.cmds.append((code, bytes(payload)))
        f = self.script.get(n)
        if f is None:
            f = self.script.get(str(n))
        return f

    def read(self, timeout=0):
        if not self.queue:
            CLOCK.sleep((timeout or 0) / 1000.0)
            raise _ioerror(errno.ETIMEDOUT)
        x = self.queue.pop(0)
        if isinstance(x, Exception):
            raise x
        return bytearray(x)

    # helpers shared by the concrete links ---------------------------------
    def _apply(self, fault, ack, rsp, mk_rsp, errframe):
        """queue what the host will read for this command.  ``rsp`` is the
        fault-free response frame, ``mk_rsp(payload)`` builds a well-formed
        response with another payload (None: keep), ``ack`` may be None."""
        q = self.queue
        kind = fault[0]
        if kind == "noack":
            return
        if kind == "skipack":
            q.append(rsp)
            return
        if kind == "ioerr" and fault[2] == "ack":
            q.append(_ioerror(fault[1]))
            return
        if ack is not None:
            q.append(ack)
        if kind == "timeout":
            return
        if kind == "ioerr":
            q.append(_ioerror(fault[1]))
        elif kind == "errframe":
            q.append(errframe)
        elif kind == "trunc":
            k = max(1, min(int(fault[1]), len(rsp) - 1))
            q.append(rsp[:k])
        elif kind == "extend":
            q.append(rsp + bytes(fault[1]))
        elif kind == "flip":
            q.append(_flip(rsp, int(fault[1])))
        elif kind == "random":
            q.append(bytes(fault[1]) or b"\x00")
        elif kind in ("status", "wrongcode", "payload"):
            q.append(mk_rsp(fault))
        elif kind == "nodata":
            q.append(b"\x00\x00\xff\x01\xff\x7f\x81\x00")
        else:
            raise SimError("unknown fault %r" % (fault,))


def _cutgrow(payload, k):
    """["payload", k]: k >= 0 cuts the payload to k bytes, k < 0 appends -k
    surplus bytes (still a well-formed frame)"""
    if k >= 0:
        return payload[:k]
    return bytes(payload) + bytes([0x5A]) * (-k)


# --------------------------------------------------------------- PN53x chip
REG_FIFODATA = 0x6339
REG_FIFOLEVEL = 0x633A
REG_COMMIRQ = 0x6334
REG_DIVIRQ = 0x6335
REG_COMMAND = 0x6331
REG_BITFRAMING = 0x633D


class Pn53xChip(object):
    """behaviour of the chip firmware as far as the drivers use it"""

    def __init__(self, kind):
        assert kind in ("pn531", "pn532", "pn533", "rcs956")
        self.kind = kind
        self.regs = {}
        self.fifo = []
        self.ciu_rx = b""          # what the CIU receives after the next
        self.ciu_tx = []           # transmit/receive trigger
        self.divirq = 0
        self.rf = lambda code, arg: (0, b"")   # (status, data)
        self.rf_calls = []

    def respond(self, code, arg):
        """payload of the response frame (after D5 code+1), None = none"""
        k = self.kind
        if code == 0x00:                               # Diagnose
            if arg[:1] == b"\x00":
                return bytes(arg[1:]) if k == "rcs956" else bytes(arg)
            return b"\x00"
        if code == 0x02:                               # GetFirmwareVersion
            if k == "pn531":
                return b"\x04\x02"
            if k == "rcs956":
                return b"\x33\x01\x30\x07"
            return (b"\x32" if k == "pn532" else b"\x33") + b"\x01\x06\x07"
        if code == 0x04:                               # GetGeneralStatus
            return b"\x00\x00\x00\x00\x80"
        if code == 0x06:                               # ReadRegister
            vals = bytes(self.read_reg(struct.unpack(">H", arg[i:i + 2])[0])
                         for i in range(0, len(arg) - 1, 2))
            if k == "pn533":
                if arg[:2] == b"\xA0\x00":             # no EEPROM
                    return b"\x01"
                return b"\x00" + vals
            return vals
        if code == 0x08:                               # WriteRegister
            trigger = False
            for i in range(0, len(arg) - 2, 3):
                a, v = struct.unpack(">H", arg[i:i + 2])[0], arg[i + 2]
                trigger |= self.write_reg(a, v)
            if trigger:
                self.fifo = list(self.ciu_rx)
            return b"\x00" if k in ("pn533", "rcs956") else b""
        if code in (0x12, 0x14, 0x32, 0x18, 0x10, 0x0E):
            return b""
        if code == 0x16:                               # PowerDown
            return b"\x00"
        if code in (0x40, 0x42, 0x88, 0x86):           # RF data in / out
            self.rf_calls.append((code, bytes(arg)))
            st, data = self.rf(code, bytes(arg))
            return bytes([st]) + bytes(data)
        if code in (0x90, 0x8E, 0x94, 0x92):           # status only
            self.rf_calls.append((code, bytes(arg)))
            st, data = self.rf(code, bytes(arg))
            return bytes([st])
        if code == 0x8A:
            return b"\x00\x00"
        return b"\x00"

    def read_reg(self, addr):
        if addr == REG_FIFOLEVEL:
            return len(self.fifo) & 0x7F
        if addr == REG_FIFODATA:
            return self.fifo.pop(0) if self.fifo else 0
        if addr == REG_COMMIRQ:
            return 0x30 if self.fifo else 0x00
        if addr == REG_DIVIRQ:
            return self.divirq
        return self.regs.get(addr, 0)

    def write_reg(self, addr, val):
        """-> True when the write starts a receive/transceive"""
        self.regs[addr] = val
        if addr == REG_FIFODATA:
            self.ciu_tx.append(val)
        if addr == REG_FIFOLEVEL and val & 0x80:
            self.fifo = []
            return True
        if addr == REG_COMMAND and val & 0x0F in (0x08, 0x0C):
            return True
        if addr == REG_BITFRAMING and val & 0x80:
            return True
        return False


def parity_fifo(data):
    """FIFO content of a CIU that received ``data`` with the parity check
    disabled: 9 bits per byte (8 data bits LSB first + odd parity), packed
    LSB first into octets."""
    bits = []
    for b in bytes(data):
        bb = [(b >> i) & 1 for i in range(8)]
        bits += bb + [1 - (sum(bb) & 1)]
    while len(bits) % 8:
        bits.append(0)
    return bytes(sum(bits[i + j] << j for j in range(8))
                 for i in range(0, len(bits), 8))


class Pn53xLink(LinkBase):
    """native PN53x host protocol (USB or, with ``prefix``, Arygon TTY)"""

    def __init__(self, chip, prefix=b""):
        LinkBase.__init__(self)
        self.chip = chip
        self.prefix = prefix

    def write(self, frame):
        f = bytes(frame)
        self.wlog.append(f)
        if self.prefix:
            if not f.startswith(self.prefix):
                raise SimError("frame without prefix %r" % f[:4])
            f = f[len(self.prefix):]
        if f == ACK:
            self.queue[:] = []
            return
        code, arg, _ = ref.parse_command(f)
        fault = self._fault_for(code, arg)
        if fault is not None and fault[0] == "ioerr" and fault[2] == "write":
            raise _ioerror(fault[1])
        payload = self.chip.respond(code, arg)
        if payload is None:
            self.queue.append(ACK)
            return
        rsp = ref.build_response(code, payload)
        if self.armed:
            self.rsps.append(rsp)
        if fault is None:
            self.queue += [ACK, rsp]
            return

        def mk(flt):
            if flt[0] == "status":
                return ref.build_response(code, bytes([flt[1] & 0xFF]))
            if flt[0] == "payload":
                return ref.build_response(code, _cutgrow(payload, flt[1]))
            return ref.build_response((code + flt[1]) & 0xFF, payload)
        self._apply(fault, ACK, rsp, mk, ref.ERROR)


class Acr122Link(LinkBase):
    """ACR122U: CCID messages around a PN532"""
    product_name = "ACR122U PICC Interface"
    VERSION = b"ACR122U203"

    def __init__(self, chip):
        LinkBase.__init__(self)
        self.chip = chip

    def write(self, frame):
        f = bytes(frame)
        self.wlog.append(f)
        if f[:1] == b"\x62":                   # PC_to_RDR_IccPowerOn
            self.queue.append(ref.ccid_build_rsp(b"\x3b\x00", status=0))
            return
        apdu = ref.ccid_parse_host(f)
        if apdu[:4] == b"\xff\x00\x00\x00" and apdu[5:6] == b"\xd4":
            code, arg = ref.acr_parse_command(f)
            fault = self._fault_for(code, arg)
            if fault is not None and fault[0] == "ioerr" \
                    and fault[2] == "write":
                raise _ioerror(fault[1])
            payload = self.chip.respond(code, arg)
            rsp = ref.acr_build_response(code, payload or b"")
            if self.armed:
                self.rsps.append(rsp)
            if fault is None:
                self.queue.append(rsp)
                return

            def mk(flt):
                if flt[0] == "status":
                    return ref.acr_build_response(code,
                                                  bytes([flt[1] & 0xFF]))
                if flt[0] == "payload":
                    return ref.acr_build_response(
                        code, _cutgrow(payload or b"", flt[1]))
                return ref.acr_build_response((code + flt[1]) & 0xFF,
                                              payload or b"")
            if fault[0] == "ioerr" and fault[2] == "ack":
                fault = ["ioerr", fault[1], "rsp"]     # no ACK stage in CCID
            self._apply(fault, None, rsp, mk, ref.ccid_build_rsp(b"\x7f"))
            return
        if apdu == b"\xff\x00\x48\x00\x00":
            self.queue.append(ref.ccid_build_rsp(self.VERSION, status=2))
        elif apdu[:3] == b"\xff\x00\x51":
            self.queue.append(ref.ccid_build_rsp(apdu[3:4]))
        elif apdu[:3] == b"\xff\x00\x40":
            self.queue.append(ref.ccid_build_rsp(b"\x90\x02"))
        else:
            self.queue.append(ref.ccid_build_rsp(b"\x90\x00"))


# ------------------------------------------------------------------ RC-S380
class Rcs380Chip(object):
    def __init__(self):
        self.rf = lambda code, arg: (0, b"")    # (status32, data)
        self.rf_calls = []

    def respond(self, code, arg):
        if code == 0x2A:                        # SetCommandType
            return b"\x00"
        if code == 0x20:                        # GetFirmwareVersion
            return b"\x11\x01"
        if code == 0x22:                        # GetPDDataVersion
            return b"\x00\x01"
        if code in (0x06, 0x00, 0x02, 0x40, 0x42, 0x44, 0x46):
            return b"\x00"
        if code == 0x04:                        # InCommRF
            self.rf_calls.append((code, bytes(arg)))
            st, data = self.rf(code, bytes(arg))
            return struct.pack("<L", st) + b"\x08" + bytes(data)
        if code == 0x48:                        # TgCommRF
            self.rf_calls.append((code, bytes(arg)))
            st, data = self.rf(code, bytes(arg))
            return b"\x0b\x00\x03" + struct.pack("<L", st) + bytes(data)
        return b"\x00"


class Rcs380Link(LinkBase):
    product_name = "RC-S380/S"
    manufacturer_name = "SONY"

    def __init__(self, chip):
        LinkBase.__init__(self)
        self.chip = chip

    def write(self, frame):
        f = bytes(frame)
        self.wlog.append(f)
        if f == ACK:
            self.queue[:] = []
            return
        code, arg = ref.p100_parse_command(f)
        fault = self._fault_for(code, arg)
        if fault is not None and fault[0] == "ioerr" and fault[2] == "write":
            raise _ioerror(fault[1])
        payload = self.chip.respond(code, arg)
        rsp = ref.p100_build_response(code, payload)
        if self.armed:
            self.rsps.append(rsp)
        if fault is None:
            self.queue += [ACK, rsp]
            return

        def mk(flt):
            if flt[0] == "status":
                st = flt[1]
                if code == 0x04:
                    return ref.p100_build_response(
                        code, struct.pack("<L", st & 0xFFFFFFFF) + b"\x08")
                if code == 0x48:
                    return ref.p100_build_response(
                        code, b"\x0b\x00\x03"
                        + struct.pack("<L", st & 0xFFFFFFFF))
                return ref.p100_build_response(code, bytes([st & 0xFF]))
            if flt[0] == "payload":
                return ref.p100_build_response(code,
                                               _cutgrow(payload, flt[1]))
            return ref.p100_build_response((code + flt[1]) & 0xFF, payload)
        self._apply(fault, ACK, rsp, mk, b"\x00\x00\xff\xff\xff")


# ---------------------------------------------------------------------- UDP
class FakeSocket(object):
    """datagram socket fed from a script.  ``inbox`` holds what recvfrom
    delivers next: bytes (a datagram), an Exception (raised by recvfrom) or
    None (nothing arrives: select times out)."""

    def __init__(self, net):
        self.net = net
        self.closed = False

    def getsockname(self):
        return ("127.0.0.1", 40001)

    def bind(self, addr):
        pass

    def close(self):
        self.closed = True

    def sendto(self, data, addr):
        net = self.net
        net.sent.append((bytes(data), addr))
        act = net.send_script.get(len(net.sent) - 1)
        if act is not None:
            if act[0] == "short":
                return max(0, len(data) - act[1])
            if act[0] == "error":
                raise _ioerror(act[1])
        return len(data)

    def recvfrom(self, n):
        x = self.net.inbox.pop(0)
        if isinstance(x, Exception):
            raise x
        return bytes(x)[:n], self.net.peer


class FakeNet(object):
    """stands in for the ``socket`` and ``select`` modules of nfc.clf.udp"""
    AF_INET, SOCK_DGRAM, NI_NUMERICHOST = 2, 2, 1
    error = OSError

    def __init__(self):
        self.inbox = []
        self.sent = []
        self.send_script = {}
        self.peer = ("127.0.0.1", 54321)

    # socket module
    def socket(self, *a):
        return FakeSocket(self)

    def gethostbyname(self, host):
        return "127.0.0.1"

    def getnameinfo(self, addr, flags):
        return ("127.0.0.1", str(addr[1]))

    # select module
    def select(self, r, w, x, timeout=None):
        if self.inbox and self.inbox[0] is not None:
            return (list(r), [], [])
        if self.inbox:
            self.inbox.pop(0)
        if timeout is None:
            raise SimError("select would block forever")
        CLOCK.sleep(max(timeout, 0.001))
        return ([], [], [])


# ------------------------------------------------------------------ builders
DRIVERS = ("pn531", "pn532", "pn533", "rcs956", "acr122", "arygonA",
           "arygonB", "rcs380", "udp")


def build(driver):
    """-> (device, link); for udp link is the FakeNet"""
    import logging
    patch_time()
    CLOCK.reset()
    log = logging.getLogger("simchip")
    if driver == "pn531":
        import nfc.clf.pn531 as m
        link = Pn53xLink(Pn53xChip("pn531"))
        dev = m.init(link)
    elif driver == "pn532":
        import nfc.clf.pn532 as m
        link = Pn53xLink(Pn53xChip("pn532"))
        dev = m.Device(m.Chipset(link, logger=log), logger=log)
        dev._vendor_name, dev._device_name = "SimCo", "PN532"
    elif driver == "pn533":
        import nfc.clf.pn533 as m
        link = Pn53xLink(Pn53xChip("pn533"))
        dev = m.init(link)
    elif driver == "rcs956":
        import nfc.clf.rcs956 as m
        link = Pn53xLink(Pn53xChip("rcs956"))
        dev = m.init(link)
    elif driver == "acr122":
        import nfc.clf.acr122 as m
        link = Acr122Link(Pn53xChip("pn532"))
        dev = m.init(link)
    elif driver == "arygonA":
        import nfc.clf.arygon as m
        link = Pn53xLink(Pn53xChip("pn531"), prefix=b"2")
        link.TYPE = "TTY"
        dev = m.DeviceA(m.ChipsetA(link, logger=log), logger=log)
        dev._vendor_name, dev._device_name = "Arygon", "ADRA"
    elif driver == "arygonB":
        import nfc.clf.arygon as m
        link = Pn53xLink(Pn53xChip("pn532"), prefix=b"2")
        link.TYPE = "TTY"
        dev = m.DeviceB(m.ChipsetB(link, logger=log), logger=log)
        dev._vendor_name, dev._device_name = "Arygon", "ADRB"
    elif driver == "rcs380":
        import nfc.clf.rcs380 as m
        link = Rcs380Link(Rcs380Chip())
        dev = m.init(link)
    elif driver == "udp":
        import nfc.clf.udp as m
        link = FakeNet()
        m.socket = link
        m.select = link
        dev = m.Device("localhost", 54321)
        dev._vendor_name, dev._device_name = "Sim", "IP-Stack"
        dev._chipset_name = "UDP"
    else:
        raise SimError(driver)
    dev._path = "sim:" + driver
    return dev, link


def frontend(dev):
    import nfc.clf
    clf = nfc.clf.ContactlessFrontend()
    clf.device = dev
    return clf


def crc_a(data):
    return ref_crc.add_a(data)


def record_ciu(chip, answer=None):
    """RF-side view of the direct-CIU transmit path of one Pn53xChip
    instance (opt-in, per instance; chips without it behave as before).

    Every byte the host writes to CIU_FIFOData is kept by the chip in
    ``ciu_tx``.  After this call the bytes written since the previous receive
    / transceive trigger are cut off at each trigger and appended as one
    ``bytes`` object to ``chip.ciu_frames`` - what the CIU put on the air
    before it started to listen.  ``answer(frame)``, if given, is the RF
    partner: it returns the FIFO content the CIU will hold after the receive
    (see ``parity_fifo``), or b"" / None for silence; it replaces
    ``chip.ciu_rx`` for that trigger.  Returns the list ``chip.ciu_frames``.
    """
    chip.ciu_frames = []
    inner = chip.write_reg

    def write_reg(addr, val):
        trigger = inner(addr, val)
        if trigger and chip.ciu_tx:
            frame = bytes(chip.ciu_tx)
            chip.ciu_tx = []
            chip.ciu_frames.append(frame)
            if answer is not None:
                chip.ciu_rx = bytes(answer(frame) or b"")
        return trigger
    chip.write_reg = write_reg
    return chip.ciu_frames
