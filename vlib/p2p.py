"""Two complete nfcpy stacks (ContactlessFrontend.connect(llcp=...)) talking
over SimAir under the virtual scheduler."""
import nfc
import nfc.clf
import nfc.llcp

from . import simdev, vsched


class Pair(object):
    """side 'i' is the NFC-DEP initiator, side 't' the target"""

    def __init__(self, choices=(), seed=0, opts_i=None, opts_t=None,
                 step_budget=400000, medium=None):
        vsched.patch_nfc()
        self.sched = vsched.Sched(choices, seed=seed, step_budget=step_budget)
        vsched.activate(self.sched)
        if medium is None:
            self.air = simdev.Air()
            self.clf = {"i": simdev.frontend(self.air, "i"),
                        "t": simdev.frontend(self.air, "t")}
        else:
            # e.g. udpair.frontends: the library's real udp driver both sides
            self.air, ci, ct = medium()
            self.clf = {"i": ci, "t": ct}
        self.opts = {"i": dict(opts_i or {}), "t": dict(opts_t or {})}
        self.opts["i"]["role"] = "initiator"
        self.opts["t"]["role"] = "target"
        self.result = {}
        self.llc = {}
        self.on_connect = {}        # side -> fn(llc) run inside on-connect
        self.terminate = {"i": lambda: False, "t": lambda: False}
        self.exc = {}

    def start(self):
        for side in ("t", "i"):
            self.sched.spawn(lambda side=side: self._connect(side),
                             "connect-" + side)

    def _connect(self, side):
        opts = dict(self.opts[side])

        def on_connect(llc):
            self.llc[side] = llc
            fn = self.on_connect.get(side)
            if fn is not None:
                fn(llc)
            return True
        opts.setdefault("on-connect", on_connect)
        try:
            self.result[side] = self.clf[side].connect(
                llcp=opts, terminate=lambda: self.terminate[side]())
        except BaseException as e:
            if isinstance(e, (vsched.Abort, vsched.StepBudget)):
                raise
            self.exc[side] = e

    def close(self):
        stuck = self.sched.shutdown()
        vsched.activate(None)
        return stuck
