"""UdpAir: an in-process stand-in for the ``socket`` and ``select`` modules of
nfc.clf.udp that couples several REAL nfc.clf.udp.Device instances (the
library's own 'udp:<host>:<port>' driver) under the virtual scheduler.

    air = UdpAir()                       # installs itself into nfc.clf.udp
    ci = nfc.ContactlessFrontend("udp:localhost:54321")
    ct = nfc.ContactlessFrontend("udp:localhost:54321")

Datagram semantics are those of the kernel as far as the driver relies on
them: a socket gets an ephemeral port with its first sendto unless bound,
bind() of a port that is taken fails with EADDRINUSE, sendto() to a port
nobody is bound to is silently dropped, recvfrom(bufsize) returns at most
``bufsize`` bytes of the datagram and discards the rest, select() waits (in
virtual time) until a datagram is queued.

Interface towards the checks is the one of simdev.Air (deppair.converse works
on either): ``fault(direction, n, frame) -> "deliver" | "lose" | "corrupt"``
is asked for every datagram that carries a frame ("<brty> <hex>"; RFOFF
notifications are always delivered and not counted), ``log`` holds dicts
(n, dir, brty, data, fate, t).  Direction is "T>I" for datagrams sent from a
socket that is bound to a listen port, "I>T" otherwise.  "lose" drops the
datagram, "corrupt" delivers it with the last hex digit missing (a damaged
datagram: the driver documents TransmissionError for "decode and hexstring
errors").

Must be used under an active vsched.Sched.
"""
import errno
import os
from binascii import unhexlify

from . import vsched


class UdpSocket(object):
    def __init__(self, air):
        self.air = air
        self.port = 0
        self.bound = False
        self.queue = []         # (datagram, sender address)
        self.closed = False
        self.timeout = None
        air.sockets.append(self)

    # the calls nfc.clf.udp makes (and a few a careful driver might make)
    def getsockname(self):
        return ("0.0.0.0" if self.bound else "127.0.0.1", self.port)

    def fileno(self):
        return 1000 + self.air.sockets.index(self)

    def settimeout(self, t):
        self.timeout = t

    def setblocking(self, flag):
        self.timeout = None if flag else 0.0

    def setsockopt(self, *a):
        pass

    def bind(self, addr):
        air = self.air
        port = int(addr[1])
        if self.bound and port == self.port:
            raise OSError(errno.EINVAL, os.strerror(errno.EINVAL))
        for s in air.sockets:
            if s is not self and not s.closed and s.bound and s.port == port:
                raise OSError(errno.EADDRINUSE, os.strerror(errno.EADDRINUSE))
        self.port, self.bound = port, True

    def close(self):
        self.closed = True

    def sendto(self, data, addr):
        if self.closed:
            raise OSError(errno.EBADF, os.strerror(errno.EBADF))
        air = self.air
        data = bytes(data)
        if self.port == 0:
            air.ephemeral += 1
            self.port = air.ephemeral
        with air.cond:
            out = data
            parts = data.split()
            if len(parts) == 2 and not data.startswith(b"RFOFF"):
                brty = parts[0].decode("latin")
                frame = unhexlify(parts[1])
                fate = air.fate("T>I" if self.bound else "I>T", brty, frame)
                if fate == "lose":
                    out = None
                elif fate == "corrupt":
                    out = data[:-1]
                elif fate != "deliver":
                    raise ValueError("UdpAir: unknown fate %r" % (fate,))
            else:
                air.other.append(data)
            if out is not None:
                for s in air.sockets:
                    if not s.closed and s.port == int(addr[1]) and s.port:
                        s.queue.append((out, ("127.0.0.1", self.port)))
                        break
                air.cond.notify_all()
        return len(data)

    def recvfrom(self, bufsize):
        air = self.air
        with air.cond:
            if not self.queue:
                if self.timeout is not None:
                    end = air.now() + self.timeout
                    while not self.queue and air.now() < end:
                        air.cond.wait(end - air.now())
                    if not self.queue:
                        raise OSError(errno.EAGAIN, os.strerror(errno.EAGAIN))
                while not self.queue:
                    air.cond.wait(None)
            data, addr = self.queue.pop(0)
        # a datagram that does not fit the buffer is cut, the rest is gone
        air.largest = max(air.largest, len(data))
        return data[:int(bufsize)], addr


class UdpAir(object):
    """stands in for the ``socket`` and ``select`` modules of nfc.clf.udp"""
    AF_INET, SOCK_DGRAM, NI_NUMERICHOST = 2, 2, 1
    error = OSError
    timeout = OSError

    def __init__(self, install=True):
        self.cond = vsched.VCondition()
        self.cond.vname = "UdpAir"
        self.sockets = []
        self.ephemeral = 40000
        self.fault = None
        self.log = []
        self.other = []         # datagrams that carry no frame (RFOFF)
        self.n = 0
        self.largest = 0        # longest datagram handed to recvfrom
        if install:
            self.install()

    def install(self):
        """make nfc.clf.udp use this medium and the scheduler's clock"""
        import nfc.clf.udp as m
        m.socket = self
        m.select = self
        m.time = _vtime
        return self

    def now(self):
        return vsched.current().now

    def fate(self, direction, brty, frame):
        self.n += 1
        f = "deliver"
        if self.fault is not None:
            f = self.fault(direction, self.n, bytes(frame))
        self.log.append({"n": self.n, "dir": direction, "brty": brty,
                         "data": bytes(frame), "fate": f, "t": self.now()})
        return f

    # socket module
    def socket(self, *a):
        return UdpSocket(self)

    def gethostbyname(self, host):
        return "127.0.0.1"

    def getnameinfo(self, addr, flags):
        return ("127.0.0.1", str(addr[1]))

    # select module
    def select(self, r, w, x, timeout=None):
        with self.cond:
            end = None if timeout is None else self.now() + timeout
            while True:
                ready = [s for s in r if s.queue]
                if ready:
                    return (ready, [], [])
                left = None if end is None else end - self.now()
                if left is not None and left <= 0:
                    return ([], [], [])
                self.cond.wait(left)


_vtime = vsched.vtime()


def frontends(port=54321):
    """-> (air, initiator side frontend, target side frontend): two real
    ContactlessFrontends opened on the library's udp driver"""
    import nfc.clf
    air = UdpAir()
    path = "udp:localhost:%d" % port
    return air, nfc.clf.ContactlessFrontend(path), \
        nfc.clf.ContactlessFrontend(path)
