"""TagDevice: a driver (nfc.clf.device.Device) with one simulated tag in the
field, under a *real* ContactlessFrontend, plus the fault injection points
shared by all tag checks.

A tag simulator is any object with

    tech            "A" | "B" | "F"
    target(brty)    -> nfc.clf.RemoteTarget as a driver would return it
                       (None when the tag would not answer that poll)
    command(data, timeout) -> response bytes, or None for "no response"
    reset()         field was switched off and on again
    dead            True once the tag lost power (cut) - never answers again

Fault injection (all deterministic data, part of the case):
  * ``cut_after``  (on the simulator): power cut after the k-th state-changing
    command; implemented by the simulators, see simtags.
  * ``script``     {exchange_index: (kind, phase)}: at the given exchange raise
    TimeoutError/TransmissionError/ProtocolError either before the tag saw the
    command (phase "cmd") or after it executed it (phase "rsp").
  * ``tamper``     fn(index, cmd, rsp) -> rsp' to modify responses in transit.
  * ``budget``     max number of exchanges; exceeding raises BudgetExceeded, a
    BaseException no nfcpy handler can swallow ("unbounded loop" oracle).
"""
import importlib
import pkgutil
import time as _time
import types

import nfc.clf
import nfc.clf.device
import nfc.tag


class BudgetExceeded(BaseException):
    pass


# ---- time passes: an exchange takes a millisecond, a timeout takes the time
# the caller allowed for it (a real driver reports TimeoutError exactly then).
# The tag modules see this clock through their ``time`` attribute, so that
# retry decisions that depend on deadlines meet the durations they would meet
# on a device.
CLOCK = [0.0]


def _install_clock():
    shim = types.SimpleNamespace(
        time=lambda: _time.time() + CLOCK[0],
        monotonic=lambda: _time.monotonic() + CLOCK[0],
        sleep=lambda d: CLOCK.__setitem__(0, CLOCK[0] + max(0.0, d)),
        strftime=_time.strftime, localtime=_time.localtime,
        gmtime=_time.gmtime)
    for info in pkgutil.iter_modules(nfc.tag.__path__):
        mod = importlib.import_module("nfc.tag." + info.name)
        if getattr(mod, "time", None) is _time:
            mod.time = shim
    if getattr(nfc.tag, "time", None) is _time:
        nfc.tag.time = shim


_install_clock()


ERR = {"timeout": nfc.clf.TimeoutError,
       "transmission": nfc.clf.TransmissionError,
       "protocol": nfc.clf.ProtocolError}


class TagDevice(nfc.clf.device.Device):
    def __init__(self, tag, max_send=290, max_recv=290, budget=200000):
        self.tag = tag
        self._path = "sim:tag"
        self._vendor_name = "Sim"
        self._device_name = "Tag"
        self._chipset_name = "SIM"
        self.max_send, self.max_recv = max_send, max_recv
        self.calls = []          # driver call names in order
        self.xlog = []           # (index, cmd, rsp|None|"ERR:kind", phase)
        self.exchanges = 0
        self.script = {}
        self.tamper = None
        self.budget = budget
        self.present = True      # tag in the field

    # --------------------------------------------------------------- sense
    def close(self):
        self.calls.append("close")

    def mute(self):
        self.calls.append("mute")
        if self.tag is not None:
            self.tag.reset()

    def _sense(self, name, tech, target):
        self.calls.append(name)
        tag = self.tag
        if tag is None or not self.present or tag.dead or tag.tech != tech:
            return None
        return tag.target(target)

    def sense_tta(self, target):
        if target.brty != "106A":
            self.calls.append("sense_tta")
            raise nfc.clf.UnsupportedTargetError(target.brty)
        return self._sense("sense_tta", "A", target)

    def sense_ttb(self, target):
        if target.brty != "106B":
            self.calls.append("sense_ttb")
            raise nfc.clf.UnsupportedTargetError(target.brty)
        return self._sense("sense_ttb", "B", target)

    def sense_ttf(self, target):
        if target.brty not in ("212F", "424F"):
            self.calls.append("sense_ttf")
            raise nfc.clf.UnsupportedTargetError(target.brty)
        return self._sense("sense_ttf", "F", target)

    def sense_dep(self, target):
        self.calls.append("sense_dep")
        raise nfc.clf.UnsupportedTargetError("sim: no active mode")

    # ------------------------------------------------------------ exchange
    def send_cmd_recv_rsp(self, target, data, timeout):
        self.calls.append("send_cmd_recv_rsp")
        self.exchanges += 1
        idx = self.exchanges
        if idx > self.budget:
            raise BudgetExceeded(idx)
        fault = self.script.get(idx) or self.script.get(str(idx))
        cmd = None if data is None else bytes(data)
        if fault is not None and fault[0] == "refuse":
            # not a link fault: the tag itself refuses the command (where the
            # tag type has such an answer; a lost command otherwise)
            refuse = getattr(self.tag, "refuse", None)
            if refuse is None or cmd is None:
                fault = ("timeout", "cmd")
            else:
                rsp = None
                if self.present and not self.tag.dead:
                    rsp = refuse(cmd)
                self.xlog.append((idx, cmd, None if rsp is None
                                  else bytes(rsp), "refused"))
                if rsp is None:
                    raise nfc.clf.TimeoutError("sim: no response")
                return bytearray(rsp)
        CLOCK[0] += 0.001
        if fault is not None and fault[1] == "cmd":
            self.xlog.append((idx, cmd, "ERR:" + fault[0], "cmd"))
            if fault[0] == "timeout":
                CLOCK[0] += timeout if timeout else 0.1
            raise ERR[fault[0]]("sim: injected %s (command lost)" % fault[0])
        rsp = None
        if cmd is not None and self.present and not self.tag.dead:
            rsp = self.tag.command(cmd, timeout)
        if fault is not None and fault[0] == "empty":
            # the driver hands over a frame without a single octet
            self.xlog.append((idx, cmd, "ERR:empty", "rsp"))
            return bytearray()
        if fault is not None:
            self.xlog.append((idx, cmd, "ERR:" + fault[0], "rsp"))
            if fault[0] == "timeout":
                CLOCK[0] += timeout if timeout else 0.1
            raise ERR[fault[0]]("sim: injected %s (response lost)" % fault[0])
        if rsp is not None and self.tamper is not None:
            rsp = self.tamper(idx, cmd, bytes(rsp))
        self.xlog.append((idx, cmd, None if rsp is None else bytes(rsp), ""))
        if rsp is None:
            CLOCK[0] += timeout if timeout else 0.1
            raise nfc.clf.TimeoutError("sim: no response")
        return bytearray(rsp)

    def get_max_send_data_size(self, target):
        return self.max_send

    def get_max_recv_data_size(self, target):
        return self.max_recv


def frontend(tag, **kw):
    clf = nfc.clf.ContactlessFrontend()
    clf.device = TagDevice(tag, **kw)
    return clf


def sense_target(tag):
    """the RemoteTarget a reader would poll with to find this tag"""
    if tag.tech == "A":
        return nfc.clf.RemoteTarget("106A")
    if tag.tech == "B":
        return nfc.clf.RemoteTarget("106B")
    return nfc.clf.RemoteTarget(getattr(tag, "brty", "212F"))


def activate(tag, clf=None, **kw):
    """fresh frontend + fresh activation of the simulated tag, the way
    connect(rdwr=...) does it.  returns (clf, tag object or None)"""
    if clf is None:
        clf = frontend(tag, **kw)
    target = clf.sense(sense_target(tag))
    if target is None:
        return clf, None
    return clf, nfc.tag.activate(clf, target)
