"""ISO/IEC 14443-4 PICC block protocol model (written from the standard's
rules 7.5.4, not from tt4.py), an ISO 7816-4 NDEF file system (Type 4 Tag
mapping 1.0 / 2.0 / 3.0) and the Type 4A / 4B tag simulators built from them.
"""
import struct

import nfc.clf

from .simtags import TagSim

FSC_TABLE = (16, 24, 32, 40, 48, 64, 96, 128, 256)
AID_V1 = bytes.fromhex("D2760000850100")
AID_V2 = bytes.fromhex("D2760000850101")


class Picc(object):
    """half-duplex block transmission protocol, PICC side.

    app.execute(apdu) -> response APDU.  ``chunk`` is the number of INF bytes
    the PICC puts into one block (<= FSD-3), ``wtx`` the number of S(WTX)
    requests sent before each answer (WTXM = wtxm)."""

    def __init__(self, app, fsc=256, chunk=253, wtx=0, wtxm=1):
        self.app = app
        self.fsc = fsc
        self.chunk = chunk
        self.bn = 1                  # rule D
        self.last = None             # last block sent, for rule 11
        self.rx_chain = bytearray()
        self.tx_chain = None         # remaining response INF while chaining
        self.wtx_left = 0
        self.wtx_per_cmd = wtx
        self.wtxm = wtxm
        self.oversize = 0            # PCD blocks larger than FSC (with EDC)
        self.blocks = []             # every block received
        self.deselected = False

    def _send(self, block):
        self.last = bytes(block)
        return bytes(block)

    def _send_i(self):
        data = bytes(self.tx_chain[:self.chunk])
        self.tx_chain = self.tx_chain[self.chunk:]
        more = len(self.tx_chain) > 0
        if not more:
            self.tx_chain = None
        return self._send(bytes([0x02 | (0x10 if more else 0) | self.bn])
                          + data)

    def _wtx(self):
        # b8-b7 of the INF byte are the card's power level indication (any
        # value is legal), b6-b1 the WTXM; wtxm values >= 64 carry both
        return self._send(bytes([0xF2, self.wtxm & 0xFF]))

    def process(self, block):
        """returns the response block or None (PICC stays mute)"""
        block = bytes(block)
        self.blocks.append(block)
        if len(block) + 2 > self.fsc:
            self.oversize += 1
            return None
        if not block or self.deselected:
            return None
        pcb = block[0]
        if pcb & 0xE2 == 0x02 and pcb & 0x0C == 0:            # I-block
            self.bn ^= 1                                        # rule E
            self.rx_chain += block[1:]
            if pcb & 0x10:                                      # chaining
                return self._send(bytes([0xA2 | self.bn]))      # rule 2
            cmd, self.rx_chain = bytes(self.rx_chain), bytearray()
            rsp = self.app.execute(cmd)
            if rsp is None:                 # card lost power
                return None
            self.tx_chain = bytearray(rsp)
            if self.wtx_per_cmd:
                self.wtx_left = self.wtx_per_cmd - 1
                return self._wtx()                              # rule 9
            return self._send_i()                               # rule 10
        if pcb & 0xE6 == 0xA2:                                  # R-block
            nak = bool(pcb & 0x10)
            if (pcb & 1) == self.bn:                            # rule 11
                return self.last
            if nak:                                             # rule 12
                return self._send(bytes([0xA2 | self.bn]))
            if self.tx_chain is not None:                       # rule 13
                self.bn ^= 1                                    # rule E
                return self._send_i()
            return None
        if pcb & 0xC7 == 0xC2:                                  # S-block
            if pcb & 0x30 == 0x30 and len(block) == 2:          # S(WTX) rsp
                if self.tx_chain is None:
                    return None
                if self.wtx_left:
                    self.wtx_left -= 1
                    return self._wtx()
                return self._send_i()
            if pcb & 0x30 == 0x00:                              # S(DESELECT)
                self.deselected = True
                return block
        return None


class T4App(object):
    """NDEF tag application (NFC Forum Type 4 Tag).  ``ver`` is the mapping
    version byte (0x10, 0x20, 0x30); ``fsize`` the declared maximum NDEF file
    size (including NLEN); ``phys`` the physical size of the NDEF file."""

    def __init__(self, ver=0x20, mle=255, mlc=255, fsize=1024, phys=None,
                 ndef=b"", fid=b"\xE1\x04", ra=0, wa=0, filler=0):
        self.ver, self.mle, self.mlc, self.fsize = ver, mle, mlc, fsize
        self.fid = bytes(fid)
        self.nlen_size = 4 if ver >> 4 == 3 else 2
        if ver >> 4 == 3:
            tlv = bytes([6, 8]) + self.fid + struct.pack(">I", fsize) \
                + bytes([ra, wa])
        else:
            tlv = bytes([4, 6]) + self.fid + struct.pack(">H", fsize) \
                + bytes([ra, wa])
        self.cc = struct.pack(">HBHH", 7 + len(tlv), ver, mle, mlc) + tlv
        phys = fsize + 32 if phys is None else phys
        f = bytearray([filler]) * phys
        f[0:self.nlen_size] = struct.pack(
            ">I" if self.nlen_size == 4 else ">H", len(ndef))
        f[self.nlen_size:self.nlen_size + len(ndef)] = ndef
        self.files = {b"\xE1\x03": bytearray(self.cc), self.fid: f}
        self.cur = None
        self.app_selected = False
        self.serial = 0
        self.execlog = []            # (serial, apdu)
        self.wlog = []               # (serial, offset, length) on NDEF file
        self.writes = 0
        self.cut_after = None
        self.dead = False
        self.served = set()
        self.snaps = None

    @property
    def ndef_file(self):
        return self.files[self.fid]

    @staticmethod
    def echo_response(serial, n):
        return struct.pack(">H", serial & 0xFFFF) + bytes(
            (serial * 7 + i) & 0xFF for i in range(n)) + b"\x90\x00"

    @staticmethod
    def parse(apdu):
        """short APDU -> (cla, ins, p1, p2, data, le) le None when absent"""
        cla, ins, p1, p2 = apdu[:4]
        body = apdu[4:]
        data, le = b"", None
        if len(body) == 1:
            le = body[0] or 256
        elif len(body) > 1:
            lc = body[0]
            data = body[1:1 + lc]
            rest = body[1 + lc:]
            if len(data) != lc or len(rest) > 1:
                return None
            if rest:
                le = rest[0] or 256
        return cla, ins, p1, p2, bytes(data), le

    def execute(self, apdu):
        apdu = bytes(apdu)
        if getattr(self, "refuse_next", False):
            # the card refuses this command (6F00h, no precise diagnosis):
            # nothing is executed
            self.refuse_next = False
            return b"\x6F\x00"
        self.serial += 1
        self.execlog.append((self.serial, apdu))
        if len(apdu) < 4:
            return b"\x67\x00"
        if apdu[1] == 0xEE:
            # test-only echo (any command length): the response identifies
            # this very execution
            return self.echo_response(self.serial, (apdu[2] << 8) | apdu[3])
        p = self.parse(apdu)
        if p is None:
            return b"\x67\x00"
        cla, ins, p1, p2, data, le = p
        if ins == 0xA4 and p1 == 0x04:
            want = AID_V1 if self.ver >> 4 == 1 else AID_V2
            if data == want:
                self.app_selected = True
                self.cur = None
                return b"\x90\x00"
            return b"\x6A\x82"
        if ins == 0xA4 and p1 == 0x00:
            if self.app_selected and data in self.files:
                self.cur = data
                return b"\x90\x00"
            return b"\x6A\x82"
        if ins == 0xB0:
            if self.cur is None:
                return b"\x69\x86"
            off = (p1 << 8) | p2
            f = self.files[self.cur]
            if off > len(f):
                return b"\x6B\x00"
            n = min(le or 0, self.mle)
            if self.cur == self.fid:
                self.served.update(range(off, min(off + n, len(f))))
            return bytes(f[off:off + n]) + b"\x90\x00"
        if ins == 0xD6:
            if self.cur is None:
                return b"\x69\x86"
            if self.cur != self.fid:
                return b"\x69\x82"
            off = (p1 << 8) | p2
            if len(data) > self.mlc:
                return b"\x67\x00"
            f = self.files[self.cur]
            if off + len(data) > len(f):
                return b"\x6B\x00"
            if self.cut_after is not None and self.writes >= self.cut_after:
                self.dead = True
                return None
            f[off:off + len(data)] = data
            self.writes += 1
            if self.snaps is not None:
                self.snaps.append(bytes(f))
            self.wlog.append((self.serial, off, len(data)))
            return b"\x90\x00"
        return b"\x6D\x00"


class T4Tag(TagSim):
    """Type 4A or 4B tag: activation (RATS/ATS or SENSB_RES/ATTRIB) in front
    of a Picc.  ats=None builds TL T0 TA TB TC from fsci/fwi."""

    def __init__(self, app, tech="A", fsci=8, fwi=4, chunk=None, wtx=0,
                 wtxm=1, ats=None, uid=None, attrib_res=b"\x00"):
        self.app = app
        TagSim.__init__(self)
        self.tech = tech
        self.fsci, self.fwi = fsci, fwi
        self.fsc = FSC_TABLE[min(fsci, 8)]
        self.chunk, self.wtx, self.wtxm = chunk, wtx, wtxm
        self.ats = ats
        self.uid = bytes(uid or bytes.fromhex("08010203"))
        self.attrib_res = bytes(attrib_res)
        self.picc = None
        self.fsd = 256
        self.activated = False

    def _fwd(name):
        def get(self):
            return getattr(self.app, name)

        def set_(self, v):
            setattr(self.app, name, v)
        return property(get, set_)

    def refuse(self, cmd):
        """the card refuses the APDU this block belongs to (status 6F00h when
        it is complete); block handling as usual"""
        if bytes(cmd)[:1] and bytes(cmd)[0] & 0xC0 == 0x00:   # an I-block
            self.app.refuse_next = True
        return self.command(cmd)

    # state that lives in the card application
    dead = _fwd("dead")
    writes = _fwd("writes")
    cut_after = _fwd("cut_after")
    wlog = _fwd("wlog")
    served = _fwd("served")
    snaps = _fwd("snaps")
    del _fwd

    @property
    def mem(self):
        return self.app.ndef_file

    def reset(self):
        self.picc = None
        self.activated = False
        self.app.app_selected = False
        self.app.cur = None

    def target(self, poll):
        if self.tech == "A":
            if poll.sel_req and bytes(poll.sel_req) != self.uid:
                return None
            return nfc.clf.RemoteTarget(
                "106A", sens_res=bytearray(b"\x44\x03"),
                sel_res=bytearray(b"\x20"), sdd_res=bytearray(self.uid))
        sensb = b"\x50" + self.uid[0:4] + b"\x00\x00\x00\x00" + bytes(
            [0x00, (self.fsci << 4) | 0x01, self.fwi << 4])
        return nfc.clf.RemoteTarget("106B", sensb_res=bytearray(sensb))

    def _mkpicc(self):
        chunk = self.chunk or (self.fsd - 3)
        chunk = max(1, min(chunk, self.fsd - 3))
        self.picc = Picc(self.app, self.fsc, chunk, self.wtx, self.wtxm)

    def command(self, cmd, timeout=None):
        self.ncmd += 1
        cmd = bytes(cmd)
        if not self.activated:
            if self.tech == "A" and len(cmd) == 2 and cmd[0] == 0xE0:
                self.fsd = FSC_TABLE[min(cmd[1] >> 4, 8)]
                self.activated = True
                self._mkpicc()
                if self.ats is not None:
                    return bytes(self.ats)
                return bytes([5, 0x70 | self.fsci, 0x80, self.fwi << 4, 0x00])
            if self.tech == "B" and len(cmd) >= 9 and cmd[0] == 0x1D \
                    and cmd[1:5] == self.uid[0:4]:
                self.fsd = FSC_TABLE[min(cmd[6] & 0x0F, 8)]
                self.activated = True
                self._mkpicc()
                return self.attrib_res
            return None
        return self.picc.process(cmd)
