"""Reference CRC_A / CRC_B of ISO/IEC 14443-3 (Annex B), independent of nfcpy.

Definition (14443-3 6.2.4 / 7.2.5, Annex B): generator polynomial
x^16 + x^12 + x^5 + 1, data bits enter least significant bit first.
CRC_A: initial register 6363h, register content transmitted as is.
CRC_B: initial register FFFFh, register content is transmitted inverted
(ISO/IEC 13239).  Both are transmitted low byte first.

Two formulations are kept and cross-checked at import:

* ``crc_bitwise``  - the definition as polynomial division bit by bit over a
  message bit stream (written as a shift register with the taps of
  x^16+x^12+x^5+1 spelled out, no magic reflected constant),
* ``crc16``        - the byte-wise UpdateCrc() routine printed in Annex B.

Anchors (Annex B examples, bytes as transmitted):
    CRC_A(00 00) = A0 1E      CRC_A(12 34) = 26 CF
    CRC_B(00 00 00) = CC C6   CRC_B(0F AA FF) = FC D1
"""

INIT_A = 0x6363
INIT_B = 0xFFFF


def _update(ch, crc):
    # Annex B "UpdateCrc"
    ch = (ch ^ (crc & 0xFF)) & 0xFF
    ch = (ch ^ (ch << 4)) & 0xFF
    return ((crc >> 8) ^ (ch << 8) ^ (ch << 3) ^ (ch >> 4)) & 0xFFFF


def crc16(data, init):
    crc = init
    for ch in bytes(data):
        crc = _update(ch, crc)
    return crc


def crc_bitwise(data, init):
    """16 flip-flops r[0..15]; r[15] is the stage that holds the x^16
    feedback in the usual drawing of the 14443 encoder; feedback taps at
    x^0, x^5 and x^12.  The register is kept bit-reversed with respect to
    that drawing, the way the standard presents the value (so that the
    initial content reads 6363h / FFFFh and the low byte is sent first)."""
    r = [(init >> i) & 1 for i in range(16)]       # r[i] = bit i of the value
    for octet in bytes(data):
        for pos in range(8):                       # LSB first
            fb = r[0] ^ ((octet >> pos) & 1)
            r = r[1:] + [0]                         # shift towards bit 0
            if fb:
                # taps: value bits 15, 10, 3 (= x^0, x^5, x^12 mirrored)
                r[15] ^= 1
                r[10] ^= 1
                r[3] ^= 1
    return sum(b << i for i, b in enumerate(r))


def crc_a(data):
    """the two CRC_A bytes in transmission order"""
    c = crc16(data, INIT_A)
    return bytes([c & 0xFF, c >> 8])


def crc_b(data):
    """the two CRC_B bytes in transmission order"""
    c = crc16(data, INIT_B) ^ 0xFFFF
    return bytes([c & 0xFF, c >> 8])


def add_a(data):
    return bytes(data) + crc_a(data)


def add_b(data):
    return bytes(data) + crc_b(data)


def check_a(frame):
    """frame = data + CRC_A (at least the two CRC bytes)"""
    frame = bytes(frame)
    if len(frame) < 2:
        raise ValueError("frame shorter than a CRC")
    return crc_a(frame[:-2]) == frame[-2:]


def check_b(frame):
    frame = bytes(frame)
    if len(frame) < 2:
        raise ValueError("frame shorter than a CRC")
    return crc_b(frame[:-2]) == frame[-2:]


ANNEX_B = [
    ("A", "0000", "a01e"),
    ("A", "1234", "26cf"),
    ("B", "000000", "ccc6"),
    ("B", "0faaff", "fcd1"),
]


def selftest():
    for kind, msg, crc in ANNEX_B:
        m = bytes.fromhex(msg)
        got = (crc_a if kind == "A" else crc_b)(m)
        if got.hex() != crc:
            raise AssertionError("ref_crc off Annex B: CRC_%s(%s)=%s want %s"
                                 % (kind, msg, got.hex(), crc))
    probe = [b"", b"\x00", b"\xff", b"\x01\x02\x03", bytes(range(40)),
             b"\x30\x04", b"\xe0\x80", bytes([0x55] * 17)]
    for m in probe:
        for init in (INIT_A, INIT_B):
            if crc16(m, init) != crc_bitwise(m, init):
                raise AssertionError("ref_crc formulations disagree on %s"
                                     % m.hex())


selftest()
