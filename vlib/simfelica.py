"""FeliCa Lite (RC-S965) and FeliCa Lite-S (RC-S966) tag simulators.

Memory backed tags for vlib.tagdev.TagDevice: they implement ``tech``,
``brty``, ``target(poll)``, ``command(data, timeout)``, ``reset()``, ``dead``.
Session key and MACs come from vlib.ref_felica (independent of nfcpy).

Command set: Polling (00h), Read Without Encryption (06h), Write Without
Encryption (08h); anything else is ignored (no response), as is a frame with a
wrong length byte or a foreign IDm.

Blocks (16 byte each, ``mem[number]``):
  00h-0Dh user blocks S_PAD0..13, 0Eh REG
  80h RC   (write only, reads as zero; a write starts a new session: session
           key is recomputed, Lite-S external authentication is dropped)
  81h MAC  (read only; MAC over the data blocks that precede it in the same
           Read command, bytes 8..15 zero)
  82h ID, 83h D_ID (IDm|PMm), 84h SER_C, 85h SYS_C, 86h CKV,
  87h CK   (write only, reads as zero; wire order = key[7::-1]+key[15:7:-1])
  88h MC
  Lite-S only: 90h WCNT (read only, 3 byte little endian write counter),
  91h MAC_A (read: MAC_A over block numbers + data; write: second block of a
  two-block Write = write with MAC), 92h STATE (byte 0 = EXT_AUTH).

Memory configuration honoured
  FeliCa Lite    MC[0:2] bit n = 1: block n (0..14) writeable; MC[2] = FFh:
                 system blocks 82h..88h writeable, otherwise read only;
                 MC[3] bit 0: NDEF system code 12FCh answered by Polling.
  FeliCa Lite-S  the same plus MC[5] bit 0 (CK/CKV writeable with MAC_A after
                 MC[2] was cleared), MC[6:8] read needs external
                 authentication, MC[8:10] write needs external authentication,
                 MC[10:12] write needs MAC_A, MC[12] bit 0 STATE needs MAC_A.

Not modelled (documented approximations): exact status flag 2 values of the
silicon (any non zero flag 1 is an error for nfcpy), the FFFE00h ceiling of
WCNT, one-way behaviour of MC bits, REG subtraction semantics, write-once ID
rules.  WCNT counts every accepted write except writes to RC.

Fault hooks: ``cut_after`` = power cut at the k-th accepted write (the write
does not happen, the tag is ``dead``); ``budget`` = command budget
(BudgetExceeded from vlib.tagdev).  ``log`` records (n, kind, blocks, status).
"""
import nfc.clf

from . import ref_felica as ref
from .tagdev import BudgetExceeded

RC, MAC, ID, D_ID, SER_C, SYS_C, CKV, CK, MC = range(0x80, 0x89)
WCNT, MAC_A, STATE = 0x90, 0x91, 0x92

ST_OK = (0x00, 0x00)
E_NSERVICE = (0xFF, 0xA1)
E_NBLOCK = (0xFF, 0xA2)
E_SERVICE = (0xFF, 0xA6)


def _blk_err(i, code):
    return (1 << (i % 8), code)


class SimFelicaLite(object):
    tech = "F"
    IC_CODE = 0xF0
    MAX_READ = 4
    SYSTEM_BLOCKS = (ID, D_ID, SER_C, SYS_C, CKV, CK, MC)
    READABLE = tuple(range(0, 15)) + (RC, MAC, ID, D_ID, SER_C, SYS_C, CKV,
                                      CK, MC)

    def __init__(self, key=None, idm=bytes.fromhex("0102030405060708"),
                 pmm=None, ndef=True, mc=None, user=None, id_block=None,
                 ckv=0, brty="212F", cut_after=None, budget=100000):
        """key: 16 byte card key in password order (None = factory, zeros);
        user: {block: 16 bytes} initial content of blocks 0..14;
        mc: 16 byte MC block (None = everything writeable, NDEF per ``ndef``);
        id_block: content of block 82h (default IDm + zeros)"""
        self.brty = brty
        self.idm = bytes(idm)
        self.pmm = bytes(pmm) if pmm is not None else \
            bytes([0x00, self.IC_CODE]) + b"\xff" * 6
        assert len(self.idm) == 8 and len(self.pmm) == 8
        self.mem = {}
        for n in range(0, 15):
            self.mem[n] = bytearray(16)
        for n in self.SYSTEM_BLOCKS + (RC, MAC):
            self.mem[n] = bytearray(16)
        for n, data in (user or {}).items():
            assert len(data) == 16 and 0 <= int(n) <= 14
            self.mem[int(n)] = bytearray(data)
        self.mem[ID] = bytearray(id_block if id_block is not None
                                 else self.idm + bytes(8))
        self.mem[D_ID] = bytearray(self.idm + self.pmm)
        self.mem[SER_C][0:2] = b"\x09\x00"
        self.mem[SYS_C][0:2] = b"\x88\xb4"
        self.mem[CKV][0:2] = bytes([ckv & 255, ckv >> 8 & 255])
        self.mem[CK] = bytearray(ref.wire_key(key if key is not None
                                              else bytes(16)))
        if mc is None:
            mc = bytes([0xFF, 0xFF, 0xFF, 1 if ndef else 0, 0x07]) + bytes(11)
        assert len(mc) == 16
        self.mem[MC] = bytearray(mc)
        self.cut_after = cut_after
        self.budget = budget
        self.dead = False
        self.n = 0
        self.writes = 0
        self.log = []
        self._sk = None
        self.reset()

    # ------------------------------------------------------------ inspection
    @property
    def key(self):
        """the card key in password order (what authenticate() must be given)"""
        ck = bytes(self.mem[CK])
        return ref.rev(ck[0:8]) + ref.rev(ck[8:16])

    @property
    def mc(self):
        return self.mem[MC]

    def genuine(self, *blocks):
        """the data a Read of these blocks returns (no MAC block)"""
        return b"".join(self._read_block(n, [], b"") for n in blocks)

    # ----------------------------------------------------------- activation
    def reset(self):
        """field off/on: volatile state is lost"""
        self.mem[RC] = bytearray(16)
        self._sk = None
        self._on_new_session()

    def _on_new_session(self):
        pass

    def _systems(self):
        s = [0x88B4]
        if self.mem[MC][3] & 1:
            s.append(0x12FC)
        return s

    def _poll(self, sc, rc):
        """polling response payload or None"""
        for s in self._systems():
            if all((sc >> sh & 255) in (255, s >> sh & 255) for sh in (8, 0)):
                rsp = self.idm + self.pmm
                if rc == 1:
                    rsp += bytes([s >> 8, s & 255])
                return rsp
        return None

    def target(self, poll=None):
        if self.dead:
            return None
        brty = getattr(poll, "brty", None) or self.brty
        if brty not in ("212F", "424F"):
            return None
        req = bytes(getattr(poll, "sensf_req", None) or b"\x00\xff\xff\x01\x00")
        if len(req) != 5 or req[0] != 0:
            return None
        rsp = self._poll(req[1] << 8 | req[2], req[3])
        if rsp is None:
            return None
        return nfc.clf.RemoteTarget(brty, sensf_res=bytearray(b"\x01" + rsp))

    # -------------------------------------------------------------- session
    def session(self):
        """(SK1, SK2, RC1) of the running session"""
        if self._sk is None:
            self._sk = ref.session_key(self.mem[CK], self.mem[RC])
        return self._sk

    # ------------------------------------------------------------- commands
    def command(self, data, timeout=None):
        self.n += 1
        if self.n > self.budget:
            raise BudgetExceeded(self.n)
        if self.dead or data is None:
            return None
        cmd = bytes(data)
        if len(cmd) < 2 or cmd[0] != len(cmd):
            return None
        code = cmd[1]
        if code == 0x00:
            if len(cmd) != 6:
                return None
            rsp = self._poll(cmd[2] << 8 | cmd[3], cmd[4])
            self.log.append((self.n, "P", [cmd[2] << 8 | cmd[3]], rsp is not None))
            if rsp is None:
                return None
            return bytes([2 + len(rsp), 0x01]) + rsp
        if code not in (0x06, 0x08) or len(cmd) < 12 or cmd[2:10] != self.idm:
            return None
        try:
            parsed = self._parse(cmd[10:], code)
        except IndexError:
            return None                      # truncated command: ignored
        if isinstance(parsed, tuple) and len(parsed) == 2 and \
                isinstance(parsed[0], int):
            status, payload = parsed, b""
            blocks = []
        else:
            blocks, tail = parsed
            if code == 0x06:
                status, payload = self._read(blocks)
            else:
                status, payload = self._write(blocks, tail)
                if status is None:
                    return None               # power cut
        self.log.append((self.n, "R" if code == 0x06 else "W", blocks, status))
        rsp = bytes([code + 1]) + self.idm + bytes(status)
        if status == ST_OK:
            rsp += payload
        return bytes([len(rsp) + 1]) + rsp

    def _parse(self, p, code):
        """-> (block numbers, remaining bytes) or an error status"""
        nsvc = p[0]
        if nsvc != 1:
            return E_NSERVICE
        svc = p[1] | p[2] << 8
        if svc not in ((0x000B, 0x0009) if code == 0x06 else (0x0009,)):
            return E_SERVICE
        nblk = p[3]
        pos = 4
        blocks = []
        if nblk < 1:
            return E_NBLOCK
        for i in range(nblk):
            b0 = p[pos]
            if b0 & 0x80:
                num = p[pos + 1]
                pos += 2
            else:
                num = p[pos + 1] | p[pos + 2] << 8
                pos += 3
            if b0 & 0x0F != 0:
                return _blk_err(i, 0xA3)     # service code list order
            if b0 & 0x70 != 0:
                return _blk_err(i, 0xA7)     # access mode
            blocks.append(num)
        return blocks, p[pos:]

    # ----------------------------------------------------------------- read
    def _may_read(self, n):
        return True

    def _read_block(self, n, nums, before):
        """content of block n; ``nums`` all block numbers of the command,
        ``before`` the data of the blocks listed before this one"""
        if n in (RC, CK):
            return bytes(16)
        if n == MAC:
            return self._mac_block(before)
        return bytes(self.mem[n])

    def _mac_block(self, before):
        if not before:
            return bytes(16)
        sk1, sk2, rc1 = self.session()
        return ref.mac(sk1, sk2, rc1, before) + bytes(8)

    def _read(self, blocks):
        if len(blocks) > self.MAX_READ:
            return E_NBLOCK, b""
        out = b""
        for i, n in enumerate(blocks):
            if n not in self.READABLE:
                return _blk_err(i, 0xA8), b""
            if not self._may_read(n):
                return _blk_err(i, 0xB1), b""
            out += self._read_block(n, blocks, out)
        return ST_OK, bytes([len(blocks)]) + out

    # ---------------------------------------------------------------- write
    def _plain_writeable(self, n):
        mc = self.mem[MC]
        if 0 <= n <= 14:
            return bool((mc[0] | mc[1] << 8) >> n & 1)
        if n == RC:
            return True
        if n in self.SYSTEM_BLOCKS:
            return mc[2] == 0xFF
        return False

    def _cut(self):
        if self.cut_after is not None and self.writes >= self.cut_after:
            self.dead = True
            return True
        return False

    def _store(self, n, data):
        self.mem[n] = bytearray(data)
        if n == RC:
            self._sk = None
            self._on_new_session()
        elif n == CK:
            self._sk = None
        self.writes += 1

    def _write(self, blocks, data):
        if len(blocks) != 1:
            return E_NBLOCK, b""
        if len(data) != 16:
            return E_NBLOCK, b""
        n = blocks[0]
        if not self._plain_writeable(n):
            return _blk_err(0, 0xA8), b""
        if self._cut():
            return None, b""
        self._store(n, data)
        return ST_OK, b""


class SimFelicaLiteS(SimFelicaLite):
    IC_CODE = 0xF1
    READABLE = SimFelicaLite.READABLE + (WCNT, MAC_A, STATE)

    def __init__(self, key=None, wcnt=0, **kw):
        self.wcnt = wcnt & 0xFFFFFF
        self.ext_auth = False
        super(SimFelicaLiteS, self).__init__(key=key, **kw)
        for n in (WCNT, MAC_A, STATE):
            self.mem.setdefault(n, bytearray(16))

    def _on_new_session(self):
        self.ext_auth = False

    def _wcnt_bytes(self):
        return bytes([self.wcnt & 255, self.wcnt >> 8 & 255,
                      self.wcnt >> 16 & 255])

    def _mcbits(self, off):
        mc = self.mem[MC]
        return mc[off] | mc[off + 1] << 8

    def _may_read(self, n):
        if 0 <= n <= 14 and self._mcbits(6) >> n & 1:
            return self.ext_auth
        return True

    def _read_block(self, n, nums, before):
        if n == WCNT:
            return self._wcnt_bytes() + bytes(13)
        if n == STATE:
            return bytes([1 if self.ext_auth else 0]) + bytes(15)
        if n == MAC_A:
            if not before:
                return bytes(16)
            sk1, sk2, rc1 = self.session()
            k = len(before) // 16 + 1
            return ref.mac_a_read(sk1, sk2, rc1, nums[:k], before) + bytes(8)
        return super(SimFelicaLiteS, self)._read_block(n, nums, before)

    def _store(self, n, data):
        super(SimFelicaLiteS, self)._store(n, data)
        if n != RC:
            self.wcnt = min(self.wcnt + 1, 0xFFFFFF)

    def _plain_writeable(self, n):
        if n == STATE:
            return False
        if 0 <= n <= 14:
            if not super(SimFelicaLiteS, self)._plain_writeable(n):
                return False
            if self._mcbits(10) >> n & 1:
                return False                  # MAC_A required
            if self._mcbits(8) >> n & 1:
                return self.ext_auth
            return True
        return super(SimFelicaLiteS, self)._plain_writeable(n)

    def _mac_writeable(self, n):
        mc = self.mem[MC]
        if n == STATE:
            return True
        if 0 <= n <= 14:
            if not (mc[0] | mc[1] << 8) >> n & 1:
                return False
            if self._mcbits(8) >> n & 1:
                return self.ext_auth
            return True
        if n in (CK, CKV):
            if mc[2] == 0xFF:
                return True
            return bool(mc[5] & 1) and self.ext_auth
        if n in self.SYSTEM_BLOCKS:
            return mc[2] == 0xFF
        return False

    def _write(self, blocks, data):
        if len(blocks) == 1:
            n = blocks[0]
            if n == STATE and len(data) == 16 and data[0] == 0 and \
                    not self.mem[MC][12] & 1:
                if self._cut():
                    return None, b""
                self.ext_auth = False         # plain write can only log out
                self.writes += 1
                return ST_OK, b""
            return super(SimFelicaLiteS, self)._write(blocks, data)
        if len(blocks) != 2 or blocks[1] != MAC_A or len(data) != 32:
            return E_NBLOCK, b""
        n, body, maca = blocks[0], data[0:16], data[16:32]
        if not self._mac_writeable(n):
            return _blk_err(0, 0xA8), b""
        sk1, sk2, rc1 = self.session()
        wcnt = self._wcnt_bytes()
        good = ref.mac_a_write(sk1, sk2, rc1, wcnt, n, body)
        if maca[8:11] != wcnt or maca[0:8] != good:
            return _blk_err(1, 0xB2), b""    # MAC_A / write counter mismatch
        if self._cut():
            return None, b""
        if n == STATE:
            self.ext_auth = bool(body[0] & 1)
            self.writes += 1
            self.wcnt = min(self.wcnt + 1, 0xFFFFFF)
        else:
            self._store(n, body)
        return ST_OK, b""


class SimFelicaLiteSCountRC(SimFelicaLiteS):
    """Lite-S variant whose write counter also counts writes to the RC block
    (every successful Write Without Encryption advances WCNT).  SimFelicaLiteS
    follows the recorded transcript of tests/test_tag_tt3_sony.py, where the
    RC write of an authentication is not counted; a reader that reads WCNT
    before every write with MAC works with either policy, so checks may
    generate both."""

    def _store(self, n, data):
        super(SimFelicaLiteSCountRC, self)._store(n, data)
        if n == RC:
            self.wcnt = min(self.wcnt + 1, 0xFFFFFF)


def make(product, **kw):
    """product: "lite" | "lites" """
    return (SimFelicaLiteS if product == "lites" else SimFelicaLite)(**kw)
