"""Independent reading of the LLCP 1.3 frame formats (chapter 4).

PDUs are plain dicts: {"type": "CONNECT", "dsap": d, "ssap": s, ...fields}.
Nothing here imports nfc.llcp.  The decoder is *bounded*: every PDU only ever
sees data[start:end], every TLV must lie completely inside its PDU.

Reject reasons (RefReject.reason):
  short          fewer than 2 (3 for numbered PDUs) header bytes
  sap-nonzero    SYMM/PAX/AGF/DPS with DSAP/SSAP != 0, SNL with != 1
  symm-payload   SYMM with information field
  dm-len/frmr-len  fixed size PDUs of another size
  tlv-overrun    TLV length reaches beyond the bytes of its own PDU
  tlv-length     known TLV type with a length the spec does not allow
  subpdu-short   aggregated PDU length field < 2 or truncated length field
  subpdu-overrun aggregated PDU reaches beyond the AGF information field
  nested-agf     AGF inside an AGF
"""
import struct

PTYPES = {0: "SYMM", 1: "PAX", 2: "AGF", 3: "UI", 4: "CONNECT", 5: "DISC",
          6: "CC", 7: "DM", 8: "FRMR", 9: "SNL", 10: "DPS", 12: "I",
          13: "RR", 14: "RNR"}
PCODE = dict((v, k) for k, v in PTYPES.items())

T_VERSION, T_MIUX, T_WKS, T_LTO, T_RW, T_SN, T_OPT, T_SDREQ, T_SDRES, \
    T_ECPK, T_RN = range(1, 12)

FIXED_LEN = {T_VERSION: 1, T_MIUX: 2, T_WKS: 2, T_LTO: 1, T_RW: 1, T_OPT: 1,
             T_SDRES: 2}


class RefReject(Exception):
    def __init__(self, reason, where=""):
        Exception.__init__(self, reason, where)
        self.reason = reason


def _tlvs(data, start, end):
    """yield (T, V) for the TLV list in data[start:end]; a single trailing
    byte (no room for T and L) is ignored like padding"""
    pos = start
    while end - pos >= 2:
        t, ln = data[pos], data[pos + 1]
        if pos + 2 + ln > end:
            raise RefReject("tlv-overrun", "T=%d L=%d at %d" % (t, ln, pos))
        v = bytes(data[pos + 2:pos + 2 + ln])
        if t in FIXED_LEN and ln != FIXED_LEN[t]:
            raise RefReject("tlv-length", "T=%d L=%d" % (t, ln))
        if t == T_SDREQ and ln < 1:
            raise RefReject("tlv-length", "SDREQ L=0")
        yield t, v
        pos += 2 + ln


def decode(data, start=0, end=None, depth=0):
    data = bytes(data)
    if end is None:
        end = len(data)
    size = end - start
    if size < 2:
        raise RefReject("short")
    b0, b1 = data[start], data[start + 1]
    dsap, ssap = b0 >> 2, b1 & 0x3F
    pt = ((b0 & 3) << 2) | (b1 >> 6)
    name = PTYPES.get(pt)
    p = {"type": name or "U%d" % pt, "dsap": dsap, "ssap": ssap}
    info = start + 2
    if name in ("SYMM", "PAX", "AGF", "DPS") and (dsap or ssap):
        raise RefReject("sap-nonzero")
    if name == "SYMM":
        if size > 2:
            raise RefReject("symm-payload")
    elif name == "PAX":
        p.update(version=None, miux=None, wks=None, lto=None, opt=None)
        for t, v in _tlvs(data, info, end):
            if t == T_VERSION:
                p["version"] = v[0]
            elif t == T_MIUX:
                p["miux"] = struct.unpack(">H", v)[0] & 0x7FF
            elif t == T_WKS:
                p["wks"] = struct.unpack(">H", v)[0]
            elif t == T_LTO:
                p["lto"] = v[0]
            elif t == T_OPT:
                p["opt"] = v[0] & 0x07
    elif name == "AGF":
        if depth > 0:
            raise RefReject("nested-agf")
        p["pdus"] = []
        pos = info
        while pos < end:
            if end - pos < 2:
                raise RefReject("subpdu-short", "length field truncated")
            ln = struct.unpack_from(">H", data, pos)[0]
            if pos + 2 + ln > end:
                raise RefReject("subpdu-overrun")
            if ln < 2:
                raise RefReject("subpdu-short", "len %d" % ln)
            p["pdus"].append(decode(data, pos + 2, pos + 2 + ln, depth + 1))
            pos += 2 + ln
    elif name == "UI":
        p["data"] = data[info:end]
    elif name in ("CONNECT", "CC"):
        p.update(miu=128, rw=1)
        if name == "CONNECT":
            p["sn"] = None
        for t, v in _tlvs(data, info, end):
            if t == T_MIUX:
                p["miu"] = 128 + (struct.unpack(">H", v)[0] & 0x7FF)
            elif t == T_RW:
                p["rw"] = v[0] & 0x0F
            elif t == T_SN and name == "CONNECT":
                p["sn"] = v or None
    elif name == "DISC":
        pass
    elif name == "DM":
        if size != 3:
            raise RefReject("dm-len")
        p["reason"] = data[info]
    elif name == "FRMR":
        if size != 6:
            raise RefReject("frmr-len")
        b = data[info:info + 4]
        p.update(flags=b[0] >> 4, ptype=b[0] & 15, ns=b[1] >> 4, nr=b[1] & 15,
                 vs=b[2] >> 4, vr=b[2] & 15, vsa=b[3] >> 4, vra=b[3] & 15)
    elif name == "SNL":
        if dsap != 1 or ssap != 1:
            raise RefReject("sap-nonzero")
        p.update(sdreq=[], sdres=[])
        for t, v in _tlvs(data, info, end):
            if t == T_SDREQ:
                p["sdreq"].append([v[0], v[1:]])
            elif t == T_SDRES:
                p["sdres"].append([v[0], v[1]])
    elif name == "DPS":
        p.update(ecpk=None, rn=None)
        for t, v in _tlvs(data, info, end):
            if t == T_ECPK:
                p["ecpk"] = v or None
            elif t == T_RN:
                p["rn"] = v or None
    elif name in ("I", "RR", "RNR"):
        if size < 3:
            raise RefReject("short")
        seq = data[start + 2]
        if name == "I":
            p.update(ns=seq >> 4, nr=seq & 15, data=data[start + 3:end])
        else:
            p.update(nr=seq & 15)
    else:
        p["payload"] = data[info:end]
    return p


def _hdr(p, pt):
    return struct.pack(">H", (p["dsap"] << 10) | (pt << 6) | p["ssap"])


def _tlv(t, v):
    return bytes([t, len(v)]) + bytes(v)


def encode(p):
    """spec encoding of a PDU dict; optional parameters are sent whenever the
    dict states a non-default value (MIU 128 and RW 1 are the defaults)"""
    name = p["type"]
    pt = PCODE.get(name)
    if pt is None:
        pt = int(name[1:])
    out = _hdr(p, pt)
    if name == "PAX":
        if p.get("version") is not None:
            out += _tlv(T_VERSION, [p["version"]])
        if p.get("miux") is not None:
            out += _tlv(T_MIUX, struct.pack(">H", p["miux"]))
        if p.get("wks") is not None:
            out += _tlv(T_WKS, struct.pack(">H", p["wks"]))
        if p.get("lto") is not None:
            out += _tlv(T_LTO, [p["lto"]])
        if p.get("opt") is not None:
            out += _tlv(T_OPT, [p["opt"]])
    elif name == "AGF":
        for q in p["pdus"]:
            e = encode(q)
            out += struct.pack(">H", len(e)) + e
    elif name == "UI":
        out += p["data"]
    elif name in ("CONNECT", "CC"):
        if p["miu"] != 128:
            out += _tlv(T_MIUX, struct.pack(">H", p["miu"] - 128))
        if p["rw"] != 1:
            out += _tlv(T_RW, [p["rw"]])
        if name == "CONNECT" and p.get("sn"):
            out += _tlv(T_SN, p["sn"])
    elif name == "DM":
        out += bytes([p["reason"]])
    elif name == "FRMR":
        out += bytes([p["flags"] << 4 | p["ptype"], p["ns"] << 4 | p["nr"],
                      p["vs"] << 4 | p["vr"], p["vsa"] << 4 | p["vra"]])
    elif name == "SNL":
        for tid, sn in p["sdreq"]:
            out += _tlv(T_SDREQ, bytes([tid]) + bytes(sn))
        for tid, sap in p["sdres"]:
            out += _tlv(T_SDRES, [tid, sap])
    elif name == "DPS":
        if p.get("ecpk"):
            out += _tlv(T_ECPK, p["ecpk"])
        if p.get("rn"):
            out += _tlv(T_RN, p["rn"])
    elif name == "I":
        out += bytes([p["ns"] << 4 | p["nr"]]) + p["data"]
    elif name in ("RR", "RNR"):
        out += bytes([p["nr"]])
    elif name in ("SYMM", "DISC"):
        pass
    else:
        out += p["payload"]
    return out


def info_len(p_bytes):
    """length of the information field of an encoded PDU (spec 4.2: all
    octets after the header; numbered PDUs have a 3 byte header)"""
    pt = ((p_bytes[0] & 3) << 2) | (p_bytes[1] >> 6)
    return len(p_bytes) - (3 if pt in (12, 13, 14) else 2)


def parameters(data, start=0, end=None):
    """the (T, V) list of a parameter TLV string (the general bytes after
    the LLCP magic number, the information field of a PAX, CONNECT or CC
    PDU); bounds and length rules are those of the decoder above"""
    data = bytes(data)
    return list(_tlvs(data, start, len(data) if end is None else end))


def announced_mius(tlv_octets):
    """every MIU a parameter TLV string announces: 128 + the 11 bit number
    of each MIUX TLV (4.5.2: the five most significant bits of the two value
    octets are reserved and ignored by the receiver); [128], the default,
    when the string has no MIUX TLV"""
    out = [128 + (struct.unpack(">H", v)[0] & 0x7FF)
           for t, v in parameters(tlv_octets) if t == T_MIUX]
    return out or [128]
