"""Memory-backed tag simulators (Type 1, 2, 3 generic; Type 4 lives in
isodep_card.py).  Each owns a bytearray image, executes the tag's command set
on it and keeps a command log.  See tagdev.py for the interface.

Common attributes
    mem         bytearray, the physical memory image
    wlog        [(serial, unit_address, length)] every executed write
    writes      number of executed state-changing commands
    cut_after   power cut: the (cut_after+1)-th state-changing command is not
                executed and the tag never answers again (dead)
    served      set of byte addresses that were returned by a read command
"""
import struct

import nfc.clf


class TagSim(object):
    tech = "A"

    def __init__(self):
        self.dead = False
        self.writes = 0
        self.cut_after = None
        self.wlog = []
        self.rlog = []
        self.served = set()
        self.ncmd = 0
        self.snaps = None      # list: memory image after every executed write

    def reset(self):
        pass

    def _wrote(self):
        """call after a state-changing command has been executed"""
        self.writes += 1
        if self.snaps is not None:
            self.snaps.append(bytes(self.mem))

    def _cut(self):
        """call before executing a state-changing command"""
        if self.cut_after is not None and self.writes >= self.cut_after:
            self.dead = True
            return True
        return False


# ---------------------------------------------------------------- Type 1 Tag
class T1Tag(TagSim):
    """NFC Forum Type 1 Tag (Topaz command set).  mem is the byte-addressed
    memory starting with block 0 (UID0-6 + reserved byte); static 120 bytes,
    dynamic up to 2048."""
    tech = "A"

    def __init__(self, mem, hr=b"\x11\x48", oneway=None, readonly=None):
        TagSim.__init__(self)
        self.mem = bytearray(mem)
        self.hr = bytes(hr)
        self.uid4 = bytes(self.mem[0:4])
        # lock and OTP bytes can only have bits set (one way)
        self.oneway = set(range(112, 120)) if oneway is None else set(oneway)
        self.readonly = set(range(0, 8)) if readonly is None else set(readonly)

    def target(self, poll):
        t = nfc.clf.RemoteTarget("106A")
        t.sens_res = bytearray(b"\x00\x0C")
        t.rid_res = bytearray(self.hr + self.uid4)
        return t

    def _wr(self, addr, val, erase):
        if addr in self.readonly or addr >= len(self.mem):
            return
        if addr in self.oneway or not erase:
            self.mem[addr] |= val
        else:
            self.mem[addr] = val

    def command(self, cmd, timeout=None):
        self.ncmd += 1
        cmd = bytes(cmd)
        code = cmd[0]
        if code == 0x78 and len(cmd) == 7:                       # RID
            return self.hr + self.uid4
        if len(cmd) == 7 and cmd[3:7] != self.uid4:
            return None
        if len(cmd) == 14 and cmd[10:14] != self.uid4:
            return None
        if code == 0x00 and len(cmd) == 7:                       # RALL
            self.served.update(range(0, 120))
            return self.hr + bytes(self.mem[0:120])
        if code == 0x01 and len(cmd) == 7:                       # READ
            a = cmd[1] & 0x7F
            self.served.add(a)
            return bytes([cmd[1], self.mem[a] if a < len(self.mem) else 0])
        if code in (0x53, 0x1A) and len(cmd) == 7:         # WRITE-E / -NE
            a = cmd[1] & 0x7F
            if self._cut():
                return None
            self._wr(a, cmd[2], code == 0x53)
            self._wrote()
            self.wlog.append((self.ncmd, a, 1))
            return bytes([cmd[1], self.mem[a] if a < len(self.mem) else 0])
        dynamic = self.hr[0] & 0x0F != 1
        if not dynamic:
            return None
        if code == 0x10 and len(cmd) == 14:                      # RSEG
            seg = cmd[1] >> 4
            base = seg * 128
            data = bytes(self.mem[base:base + 128])
            data += bytes(128 - len(data))
            self.served.update(range(base, min(base + 128, len(self.mem))))
            return bytes([cmd[1]]) + data
        if code == 0x02 and len(cmd) == 14:                      # READ8
            base = cmd[1] * 8
            data = bytes(self.mem[base:base + 8])
            data += bytes(8 - len(data))
            self.served.update(range(base, min(base + 8, len(self.mem))))
            return bytes([cmd[1]]) + data
        if code in (0x54, 0x1B) and len(cmd) == 14:      # WRITE-E8 / -NE8
            base = cmd[1] * 8
            if self._cut():
                return None
            for i in range(8):
                self._wr(base + i, cmd[2 + i], code == 0x54)
            self._wrote()
            self.wlog.append((self.ncmd, base, 8))
            data = bytes(self.mem[base:base + 8])
            data += bytes(8 - len(data))
            return bytes([cmd[1]]) + data
        return None


# ---------------------------------------------------------------- Type 2 Tag
class T2Tag(TagSim):
    """NFC Forum Type 2 Tag, generic personality (READ, WRITE, SECTOR
    SELECT).  After a NAK or an unknown command the tag is halted and stays
    mute until the field is reset (the reader senses again)."""
    tech = "A"

    def __init__(self, mem, oneway=None, readonly=None, uid=None):
        TagSim.__init__(self)
        self.mem = bytearray(mem)
        self.uid = bytes(uid) if uid is not None else \
            bytes(self.mem[0:3] + self.mem[4:8])
        self.sector = 0
        self.pending_sector = False
        self.halted = False
        # static lock bytes and the OTP/CC page are one-way
        self.oneway = set(range(10, 16)) if oneway is None else set(oneway)
        self.readonly = set(range(0, 10)) if readonly is None \
            else set(readonly)

    def target(self, poll):
        if poll.sel_req and bytes(poll.sel_req) != self.uid:
            return None
        return nfc.clf.RemoteTarget(
            "106A", sens_res=bytearray(b"\x44\x00"),
            sel_res=bytearray(b"\x00"), sdd_res=bytearray(self.uid))

    def reset(self):
        self.sector = 0
        self.pending_sector = False
        self.halted = False

    def _nak(self):
        self.halted = True
        return b"\x00"

    def refuse(self, cmd):
        """the tag refuses this command (e.g. an EEPROM write error, a
        locked page): it executes nothing, answers NAK and is halted"""
        self.ncmd += 1
        if self.halted:
            return None
        self.pending_sector = False
        # NAK for EEPROM write error after WRITE, invalid argument otherwise
        self.halted = True
        return b"\x05" if bytes(cmd)[:1] == b"\xA2" else b"\x00"

    def command(self, cmd, timeout=None):
        self.ncmd += 1
        if self.halted:
            return None
        cmd = bytes(cmd)
        if self.pending_sector:
            self.pending_sector = False
            if len(cmd) == 4:
                if cmd[0] * 1024 < len(self.mem):
                    self.sector = cmd[0]
                    return None                  # passive ack: silence
                return self._nak()
        if not cmd:
            return None
        if cmd[0] == 0x30 and len(cmd) == 2:
            base = self.sector * 1024
            addr = base + cmd[1] * 4
            if addr >= len(self.mem):
                return self._nak()
            end = min(base + 1024, len(self.mem))
            data = bytearray()
            a = addr
            for _ in range(16):
                data.append(self.mem[a])
                self.served.add(a)
                a += 1
                if a >= end:
                    a = base                     # roll over inside the sector
            self.rlog.append((self.ncmd, addr))
            return bytes(data)
        if cmd[0] == 0xA2 and len(cmd) == 6:
            addr = self.sector * 1024 + cmd[1] * 4
            if addr + 4 > len(self.mem):
                return self._nak()
            if self._cut():
                return None
            for i in range(4):
                a = addr + i
                if a in self.readonly:
                    continue
                if a in self.oneway:
                    self.mem[a] |= cmd[2 + i]
                else:
                    self.mem[a] = cmd[2 + i]
            self._wrote()
            self.wlog.append((self.ncmd, addr, 4))
            return b"\x0A"
        if cmd[0] == 0xC2 and cmd[1:] == b"\xFF":
            if len(self.mem) > 1024:
                self.pending_sector = True
                return b"\x0A"
            return self._nak()
        self.halted = True
        return None


# ---------------------------------------------------------------- Type 3 Tag
class T3Tag(TagSim):
    """NFC Forum Type 3 Tag: one system (12FCh) with the NDEF service, read
    service 000Bh and (when writable) write service 0009h, blocks[0] is the
    attribute information block.  nbr_phys / nbw_phys are the per-command
    block limits of the silicon, independent of what block 0 claims."""
    tech = "F"
    brty = "212F"

    def __init__(self, blocks, idm=None, pmm=None, nbr_phys=15, nbw_phys=13,
                 writable=True, syscode=b"\x12\xFC"):
        TagSim.__init__(self)
        self.blocks = [bytearray(b) for b in blocks]
        self.idm = bytes(idm or bytes.fromhex("02FE010203040506"))
        self.pmm = bytes(pmm or bytes.fromhex("0077FFFFFFFFFFFF"))  # IC code 77h: no product class
        self.nbr_phys, self.nbw_phys = nbr_phys, nbw_phys
        self.writable = writable
        self.syscode = bytes(syscode)

    @property
    def mem(self):
        return bytearray(b"".join(bytes(b) for b in self.blocks))

    def _match(self, sc):
        sc = bytes(sc)
        return all(a == 0xFF or a == b for a, b in zip(sc, self.syscode))

    def target(self, poll):
        req = bytes(poll.sensf_req) if poll.sensf_req else \
            b"\x00\xff\xff\x01\x00"
        if not self._match(req[1:3]):
            return None
        res = b"\x01" + self.idm + self.pmm
        if req[3] == 1:
            res += self.syscode
        elif req[3] == 2:
            res += b"\x00\x83"
        return nfc.clf.RemoteTarget(poll.brty, sensf_res=bytearray(res))

    def _rsp(self, code, body):
        return bytes([len(body) + 10, code]) + self.idm + bytes(body)

    def _parse_lists(self, d):
        """-> (service codes, [(svc index, block number)], rest) or error"""
        nsvc = d[0]
        svcs = [struct.unpack("<H", d[1 + 2 * i:3 + 2 * i])[0]
                for i in range(nsvc)]
        p = 1 + 2 * nsvc
        nblk = d[p]
        p += 1
        blks = []
        for _ in range(nblk):
            e = d[p]
            if e & 0x80:
                num = d[p + 1]
                p += 2
            else:
                num = d[p + 1] | d[p + 2] << 8
                p += 3
            blks.append((e & 0x0F, num))
        return svcs, blks, d[p:]

    def refuse(self, cmd):
        """the tag refuses a Read / Write command: nothing is executed, the
        response carries status flags (FFh, 70h memory error); any other
        command is served normally"""
        c = bytes(cmd)
        if len(c) >= 10 and c[0] == len(c) and c[1] in (0x06, 0x08) and \
                c[2:10] == self.idm and not self.dead:
            self.ncmd += 1
            return self._rsp(c[1] + 1, b"\xFF\x70")
        return self.command(cmd)

    def command(self, cmd, timeout=None):
        self.ncmd += 1
        cmd = bytes(cmd)
        if len(cmd) < 2 or cmd[0] != len(cmd):
            return None
        code = cmd[1]
        if code == 0x00 and len(cmd) == 6:                     # Polling
            if not self._match(cmd[2:4]):
                return None
            body = self.idm + self.pmm
            if cmd[4] == 1:
                body += self.syscode
            elif cmd[4] == 2:
                body += b"\x00\x83"
            return bytes([len(body) + 2, 0x01]) + body
        if cmd[2:10] != self.idm:
            return None
        try:
            if code == 0x06:                    # Read Without Encryption
                svcs, blks, rest = self._parse_lists(cmd[10:])
                if rest or not blks or not svcs:
                    return self._rsp(0x07, b"\xFF\xA1")
                if any(s not in (0x000B, 0x0009) for s in svcs):
                    return self._rsp(0x07, b"\xFF\xA6")
                if len(blks) > self.nbr_phys:
                    return self._rsp(0x07, b"\xFF\xA2")
                data = b""
                for i, (sx, num) in enumerate(blks):
                    if sx >= len(svcs):
                        return self._rsp(0x07, bytes([1 << (i % 8), 0xA3]))
                    if num >= len(self.blocks):
                        return self._rsp(0x07, bytes([1 << (i % 8), 0xA8]))
                    data += bytes(self.blocks[num])
                    self.served.update(range(num * 16, num * 16 + 16))
                self.rlog.append((self.ncmd, [b for _, b in blks]))
                return self._rsp(0x07, bytes([0, 0, len(blks)]) + data)
            if code == 0x08:                    # Write Without Encryption
                svcs, blks, rest = self._parse_lists(cmd[10:])
                if not blks or not svcs or len(rest) != 16 * len(blks):
                    return self._rsp(0x09, b"\xFF\xA9")
                if not self.writable or any(s != 0x0009 for s in svcs):
                    return self._rsp(0x09, b"\xFF\xA6")
                if len(blks) > self.nbw_phys:
                    return self._rsp(0x09, b"\xFF\xA2")
                for i, (sx, num) in enumerate(blks):
                    if sx >= len(svcs):
                        return self._rsp(0x09, bytes([1 << (i % 8), 0xA3]))
                    if num >= len(self.blocks):
                        return self._rsp(0x09, bytes([1 << (i % 8), 0xA8]))
                if self._cut():
                    return None
                for i, (sx, num) in enumerate(blks):
                    self.blocks[num][:] = rest[16 * i:16 * i + 16]
                    self.wlog.append((self.ncmd, num * 16, 16))
                self._wrote()
                return self._rsp(0x09, b"\x00\x00")
        except IndexError:
            return None
        if code == 0x04:                                # Request Response
            return self._rsp(0x05, b"\x00")
        if code == 0x0C:                             # Request System Code
            return self._rsp(0x0D, b"\x01" + self.syscode)
        return None


def t3_attribute(ver, nbr, nbw, nmaxb, writef, rwflag, ln):
    a = bytearray(16)
    a[0], a[1], a[2] = ver, nbr, nbw
    a[3:5] = struct.pack(">H", nmaxb)
    a[9], a[10] = writef, rwflag
    a[11:14] = struct.pack(">I", ln)[1:]
    a[14:16] = struct.pack(">H", sum(a[0:14]))
    return a


def t3_image(ver, nbr, nbw, nmaxb, ln_old, old, phys_blocks=None, rwflag=1,
             filler=0):
    """blocks for a T3Tag holding message ``old``"""
    n = (phys_blocks if phys_blocks is not None else nmaxb) + 1
    blocks = [bytearray([filler]) * 16 for _ in range(n)]
    blocks[0] = t3_attribute(ver, nbr, nbw, nmaxb, 0, rwflag, ln_old)
    for i in range(0, len(old), 16):
        chunk = old[i:i + 16]
        blocks[1 + i // 16][0:len(chunk)] = chunk
    return blocks


def t3_ref_read(blocks):
    """independent Type 3 Tag NDEF reader over the raw blocks: returns the
    message, or None when the attribute block does not describe one"""
    a = blocks[0]
    if sum(a[0:14]) != struct.unpack(">H", bytes(a[14:16]))[0]:
        return None
    if a[0] >> 4 != 1:
        return None
    if a[9] != 0:                        # WriteFlag: write in progress
        return None
    ln = struct.unpack(">I", b"\x00" + bytes(a[11:14]))[0]
    nmaxb = struct.unpack(">H", bytes(a[3:5]))[0]
    if ln > nmaxb * 16 or ln > 16 * (len(blocks) - 1):
        return None
    data = b"".join(bytes(b) for b in blocks[1:1 + (ln + 15) // 16])
    return data[:ln]
