"""Independent FeliCa Lite / Lite-S session key and MAC computation.

Written from the FeliCa Lite / Lite-S user's manual (chapter "MAC
generation"), NOT from nfc.tag.tt3_sony.generate_mac: only pyDes' single-DES
ECB primitive is trusted, the EDE (two-key triple DES), the CBC chaining and
all byte-order handling are done here.

Byte order.  The card treats every 8-byte half block as a little-endian
64-bit number, the DES engine as big-endian.  So everything that travels on
the wire (block data of RC, CK, the data blocks and the MAC) is reversed in
units of 8 bytes before it enters DES and the result is reversed again.
"wire" below always means the byte order inside a 16-byte block as it is
transmitted by Read/Write Without Encryption.

    card key     CK  block 87h = CK1[8] | CK2[8]        (wire order)
    challenge    RC  block 80h = RC1[8] | RC2[8]        (wire order)
    SK1 = 3DES-enc(CK1,CK2; rev(RC1))                    IV 0
    SK2 = 3DES-enc(CK1,CK2; rev(RC2) xor SK1)
    MAC  (read)      CBC over rev(data halves), key (SK1,SK2), IV rev(RC1),
                     last cipher block, reversed           -> block 81h[0:8]
    MAC_A (write)    as MAC with key (SK2,SK1) and the extra first plaintext
                     block  WCNT[0..2] 00 | blk 00 | 91 00  (wire order)
    MAC_A (read)     as MAC with key (SK1,SK2) and the extra first plaintext
                     block  blk1 00 blk2 00 blk3 00 blk4 00 (FFFFh for unused
                     positions, 91h 00 for the MAC_A block itself)
                     [from the manual only - nfcpy never reads MAC_A, so this
                     one has no recorded anchor]

The library's convention (password order): ``key = password[0:16]`` is
CK1|CK2 in *DES* order, i.e. ``CK block = key[7::-1] + key[15:7:-1]`` - that is
what protect() writes to block 87h in the recorded transcripts.

A DES key carries 56 key bits; bit 0 of every byte is a parity bit the
algorithm ignores (FIPS 46-3).  ``same_des_key`` compares modulo those bits.
"""
from pyDes import des, ECB

_des_cache = {}


def _des(k):
    k = bytes(k)
    d = _des_cache.get(k)
    if d is None:
        if len(_des_cache) > 256:
            _des_cache.clear()
        d = _des_cache[k] = des(k, ECB)
    return d


def rev(b):
    return bytes(b)[::-1]


def ede2_encrypt(k1, k2, block):
    """two-key triple DES, encrypt-decrypt-encrypt, one 8-byte block"""
    a, b = _des(k1), _des(k2)
    return bytes(a.encrypt(b.decrypt(a.encrypt(bytes(block)))))


def cbc_last(k1, k2, iv, blocks):
    """CBC-encrypt 8-byte blocks, return every cipher block"""
    out = []
    prev = bytes(iv)
    for blk in blocks:
        x = bytes(p ^ q for p, q in zip(blk, prev))
        prev = ede2_encrypt(k1, k2, x)
        out.append(prev)
    return out


def wire_key(password_key):
    """CK block content (wire order) for a 16-byte key in password order"""
    k = bytes(password_key)
    assert len(k) == 16
    return rev(k[0:8]) + rev(k[8:16])


def session_key(ck_wire, rc_wire):
    """(SK1, SK2, RC1) in DES order from the CK and RC block contents"""
    ck_wire, rc_wire = bytes(ck_wire), bytes(rc_wire)
    assert len(ck_wire) == 16 and len(rc_wire) == 16
    ck1, ck2 = rev(ck_wire[0:8]), rev(ck_wire[8:16])
    rc1, rc2 = rev(rc_wire[0:8]), rev(rc_wire[8:16])
    sk1, sk2 = cbc_last(ck1, ck2, bytes(8), [rc1, rc2])
    return sk1, sk2, rc1


def _halves(data_wire):
    data_wire = bytes(data_wire)
    assert len(data_wire) % 8 == 0
    return [rev(data_wire[i:i + 8]) for i in range(0, len(data_wire), 8)]


def mac(sk1, sk2, rc1, data_wire):
    """MAC (block 81h bytes 0..7, wire order) over the data blocks read"""
    blocks = _halves(data_wire)
    if not blocks:
        return bytes(8)
    return rev(cbc_last(sk1, sk2, rc1, blocks)[-1])


def mac_a_write(sk1, sk2, rc1, wcnt_wire3, block_no, data_wire):
    """Lite-S MAC_A for Write (block, 91h): flipped session key, header block
    of write counter and block numbers"""
    hdr = bytes(wcnt_wire3[0:3]) + b"\x00" + bytes([block_no & 255, 0, 0x91, 0])
    blocks = [rev(hdr)] + _halves(bytes(data_wire)[0:16])
    return rev(cbc_last(sk2, sk1, rc1, blocks)[-1])


def mac_a_read(sk1, sk2, rc1, block_numbers, data_wire):
    """Lite-S MAC_A for Read (un-anchored, see module docstring).
    block_numbers: the block numbers of the command in order, including the
    91h of the MAC_A block itself; at most 4"""
    nums = list(block_numbers)[:4]
    hdr = b"".join(bytes([n & 255, 0]) for n in nums) + b"\xff\xff" * (4 - len(nums))
    blocks = [rev(hdr)] + _halves(data_wire)
    return rev(cbc_last(sk1, sk2, rc1, blocks)[-1])


def strip_parity(key):
    return bytes(b & 0xFE for b in bytes(key))


def same_des_key(a, b):
    """two byte strings denote the same (multi-)DES key"""
    a, b = bytes(a), bytes(b)
    return len(a) == len(b) and strip_parity(a) == strip_parity(b)


# ------------------------------------------------------------------ anchors
# Recorded values from /repo/tests/test_tag_tt3_sony.py.  "kind" says which
# function reproduces them; all keys are in password order, RC as os.urandom
# returned it (the library writes rc[7::-1] + rc[15:7:-1] to block 80h).
_K = b"0123456789abcdef"
_RC = bytes(range(16))
_ATTR = bytes.fromhex("10040100030000000000010000270040")
ANCHORS = [
    # test_ndef / test_authenticate (FeliCa Lite): ID block all zero
    dict(kind="read", key=_K, rc=_RC, data=bytes(16),
         mac="cc97f1b97b8bbc79", src="TestFelicaLite.test_authenticate"),
    dict(kind="read", key=_K, rc=_RC, data=_ATTR, mac="af36b1f1524e3eb9",
         src="TestFelicaLite.test_ndef attribute block"),
    dict(kind="read", key=_K, rc=_RC, data=bytes.fromhex(
        "d10222537091010e55036e66632d666f"
        "72756d2e6f726751010c5402656e4e46"
        "4320466f72756d000000000000000000"), mac="9e2d7fe15b2f5d1c",
        src="TestFelicaLite.test_ndef blocks 1-3"),
    # FeliCa Lite-S transcripts
    dict(kind="read", key=_K, rc=_RC,
         data=bytes.fromhex("01020304050607080000000000000000"),
         mac="91aec5b6d9b3b12d", src="TestFelicaLiteS ID block"),
    dict(kind="write", key=_K, rc=_RC, wcnt=bytes.fromhex("00feff"),
         block=0x92, data=b"\x01" + bytes(15), mac="17c19e3bbdc3e8bd",
         src="TestFelicaLiteS write STATE with MAC_A"),
    dict(kind="read", key=_K, rc=_RC, data=b"\x01" + bytes(15),
         mac="bd73eb7294a00279", src="TestFelicaLiteS read STATE"),
    dict(kind="read", key=_K, rc=_RC,
         data=bytes.fromhex("10040100030000000000010000000019"),
         mac="a622c337a4e44271", src="TestFelicaLiteS attribute block"),
    # test_generate_mac: session key and iv given directly (DES order)
    dict(kind="raw", sk=bytes(range(16)), iv=bytes(range(8)),
         data=bytes(range(32)), flip=False, mac="0b1268d7a4ac6932",
         src="test_generate_mac[False]"),
    dict(kind="raw", sk=bytes(range(16)), iv=bytes(range(8)),
         data=bytes(range(32)), flip=True, mac="18cdd33c0fb25dd7",
         src="test_generate_mac[True]"),
]


def rc_wire_of(urandom16):
    r = bytes(urandom16)
    return rev(r[0:8]) + rev(r[8:16])


def anchor_value(a):
    """what this module computes for one ANCHORS entry (hex)"""
    if a["kind"] == "raw":
        sk1, sk2 = a["sk"][0:8], a["sk"][8:16]
        if a["flip"]:
            sk1, sk2 = sk2, sk1
        return mac(sk1, sk2, a["iv"], a["data"]).hex()
    sk1, sk2, rc1 = session_key(wire_key(a["key"]), rc_wire_of(a["rc"]))
    if a["kind"] == "read":
        return mac(sk1, sk2, rc1, a["data"]).hex()
    return mac_a_write(sk1, sk2, rc1, a["wcnt"], a["block"], a["data"]).hex()
