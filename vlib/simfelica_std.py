"""FeliCa Standard card simulator: a card divided into several *systems*.

Memory-backed tag for vlib.tagdev.TagDevice (``tech``, ``brty``,
``target(poll)``, ``command(data, timeout)``, ``reset()``, ``dead``) with the
bookkeeping attributes of vlib.simtags.TagSim (``mem``, ``wlog``, ``writes``,
``cut_after``, ``served``).

Model (FeliCa Card User's Manual, the part an unauthenticated reader sees)
  * a card has 1..16 systems; system number i has its own IDm - the upper
    nibble of IDm[0] is the system number, the rest is common - its own
    system code and its own areas / services / block memory.  Every command
    that carries an IDm is executed in the system that IDm belongs to; a
    command with an IDm no system has is ignored.
  * Polling (00h) answers for the first system (in card order) whose system
    code matches the requested one (FFh in either byte is a wildcard) with
    that system's IDm, the PMm and, by request code, the system code (01h)
    or the communication performance (02h).
  * every system has area 0000h--FFFEh and a list of *service groups*: one
    service number with one or more access attributes (overlapped services
    sharing the same blocks), e.g. number 0 with attributes 09h / 0Bh is
    service code 0009h (random read/write without key) / 000Bh (random
    read-only without key) - what an NFC Forum Type 3 Tag uses.
  * Request Service (02h): key version 0000h for an existing area / service,
    FFFFh otherwise.  Request Response (04h): mode 0.  Search Service Code
    (0Ah): index 0 is area 0000h (end FFFEh), then the service codes in
    card order, FFFFh beyond.  Request System Code (0Ch): all system codes
    in card order.
  * Read Without Encryption (06h): 1..nbr_phys blocks out of services of
    the addressed system that are accessible without key (attribute bit 0);
    Write Without Encryption (08h): 1..nbw_phys blocks out of random
    read/write services without key (attribute 09h).  Errors are answered
    with status flag 1 = FFh or the block bit and flag 2: A1h number of
    services, A2h number of blocks, A6h service not accessible, A7h access
    mode, A3h service list order, A8h block number, A9h data length.
  * any other command, a frame with a wrong LEN byte or a truncated command
    gets no answer.

Not modelled: authentication / encrypted access (services that need a key
just refuse plain access), cyclic and purse semantics (cyclic / purse
services can be read like random ones, never written without key), modes.

``mem`` is the concatenation of all blocks: systems in card order, groups in
card order; ``span(si, gi)`` gives (offset, length) of a group's blocks in
it and ``where(addr)`` the (system code, service number, block) of a byte.
``wlog`` addresses are offsets in ``mem``.
"""
import struct

from . import simtags

RANDOM_RW, RANDOM_RO = 0x09, 0x0B        # access attributes without key


class Group(object):
    def __init__(self, num, attrs, blocks):
        self.num = num
        self.attrs = list(attrs)
        self.blocks = [bytearray(b) for b in blocks]

    @property
    def codes(self):
        return [self.num << 6 | a for a in self.attrs]


class System(object):
    def __init__(self, code, groups):
        self.code = code
        self.groups = list(groups)
        self.idm = None

    def group_of(self, service_code):
        for g in self.groups:
            if service_code in g.codes:
                return g
        return None


class FelicaStdCard(simtags.TagSim):
    tech = "F"
    brty = "212F"

    def __init__(self, systems, ic_code=0x0D, nbr_phys=12, nbw_phys=8,
                 idm_tail=bytes.fromhex("2E112233445566")):
        simtags.TagSim.__init__(self)
        self.systems = list(systems)
        assert 1 <= len(self.systems) <= 16
        for i, s in enumerate(self.systems):
            s.idm = bytes([i << 4 | 0x01]) + bytes(idm_tail)
        self.pmm = bytes([0x01, ic_code]) + bytes.fromhex("4B024F4993FF")
        self.nbr_phys, self.nbw_phys = nbr_phys, nbw_phys
        self.polled = []                 # system codes activated by Polling

    # ----------------------------------------------------------- memory view
    def _walk(self):
        off = 0
        for si, s in enumerate(self.systems):
            for gi, g in enumerate(s.groups):
                yield si, gi, s, g, off
                off += 16 * len(g.blocks)

    @property
    def mem(self):
        return bytearray(b"".join(bytes(b) for _, _, _, g, _ in self._walk()
                                  for b in g.blocks))

    def span(self, si, gi):
        for i, j, s, g, off in self._walk():
            if (i, j) == (si, gi):
                return off, 16 * len(g.blocks)
        raise KeyError((si, gi))

    def where(self, addr):
        for i, j, s, g, off in self._walk():
            if off <= addr < off + 16 * len(g.blocks):
                return s.code, g.num, (addr - off) // 16
        return None

    def _base(self, system, group):
        for i, j, s, g, off in self._walk():
            if s is system and g is group:
                return off

    # ------------------------------------------------------------ activation
    def _match(self, want):
        for s in self.systems:
            have = struct.pack(">H", s.code)
            if all(w in (0xFF, h) for w, h in zip(bytes(want), have)):
                return s
        return None

    def _poll_body(self, s, rc):
        body = s.idm + self.pmm
        if rc == 1:
            body += struct.pack(">H", s.code)
        elif rc == 2:
            body += b"\x00\x83"
        return body

    def target(self, poll):
        import nfc.clf
        req = bytes(poll.sensf_req) if poll.sensf_req else \
            b"\x00\xff\xff\x01\x00"
        s = self._match(req[1:3])
        if s is None:
            return None
        self.polled.append(s.code)
        return nfc.clf.RemoteTarget(
            poll.brty, sensf_res=bytearray(b"\x01" + self._poll_body(s, req[3])))

    # -------------------------------------------------------------- commands
    @staticmethod
    def _parse_lists(d):
        nsvc = d[0]
        if len(d) < 1 + 2 * nsvc:
            raise IndexError
        svcs = [struct.unpack("<H", d[1 + 2 * i:3 + 2 * i])[0]
                for i in range(nsvc)]
        p = 1 + 2 * nsvc
        nblk = d[p]
        p += 1
        blks = []
        for _ in range(nblk):
            e = d[p]
            if e & 0x80:
                num = d[p + 1]
                p += 2
            else:
                num = d[p + 1] | d[p + 2] << 8
                p += 3
            blks.append((e & 0x0F, e & 0x70, num))
        return svcs, blks, d[p:]

    def command(self, cmd, timeout=None):
        self.ncmd += 1
        cmd = bytes(cmd)
        if len(cmd) < 2 or cmd[0] != len(cmd):
            return None
        code = cmd[1]
        if code == 0x00:
            if len(cmd) != 6:
                return None
            s = self._match(cmd[2:4])
            if s is None:
                return None
            self.polled.append(s.code)
            body = self._poll_body(s, cmd[4])
            return bytes([len(body) + 2, 0x01]) + body
        if len(cmd) < 10:
            return None
        system = None
        for s in self.systems:
            if s.idm == cmd[2:10]:
                system = s
        if system is None:
            return None

        def rsp(body):
            return bytes([len(body) + 10, code + 1]) + system.idm + bytes(body)

        d = cmd[10:]
        try:
            if code == 0x02:                              # Request Service
                n = d[0]
                if not 1 <= n <= 32 or len(d) != 1 + 2 * n:
                    return None
                out = b""
                for i in range(n):
                    node = struct.unpack("<H", d[1 + 2 * i:3 + 2 * i])[0]
                    known = node == 0x0000 or system.group_of(node) is not None
                    out += b"\x00\x00" if known else b"\xFF\xFF"
                return rsp(bytes([n]) + out)
            if code == 0x04 and not d:                   # Request Response
                return rsp(b"\x00")
            if code == 0x0A and len(d) == 2:          # Search Service Code
                index = struct.unpack("<H", d)[0]
                entries = [b"\x00\x00\xFE\xFF"]
                for g in system.groups:
                    entries += [struct.pack("<H", c) for c in g.codes]
                return rsp(entries[index] if index < len(entries)
                           else b"\xFF\xFF")
            if code == 0x0C and not d:                # Request System Code
                return rsp(bytes([len(self.systems)]) + b"".join(
                    struct.pack(">H", s.code) for s in self.systems))
            if code == 0x06:
                return rsp(self._read(system, d))
            if code == 0x08:
                body = self._write(system, d)
                return None if body is None else rsp(body)
        except (IndexError, struct.error):
            return None
        return None

    def _resolve(self, system, svcs, blks, writing):
        """-> list of (group, block number) or an error status"""
        if not 1 <= len(svcs) <= 16:
            return b"\xFF\xA1"
        limit = self.nbw_phys if writing else self.nbr_phys
        if not 1 <= len(blks) <= limit:
            return b"\xFF\xA2"
        groups = []
        for sc in svcs:
            g = system.group_of(sc)
            attr = sc & 0x3F
            ok = g is not None and attr & 1 and \
                (attr == RANDOM_RW if writing else True)
            if not ok:
                return b"\xFF\xA6"
            groups.append(g)
        out = []
        for i, (sx, mode, num) in enumerate(blks):
            flag = bytes([1 << (i % 8)])
            if sx >= len(groups):
                return flag + b"\xA3"
            if mode:
                return flag + b"\xA7"
            if num >= len(groups[sx].blocks):
                return flag + b"\xA8"
            out.append((groups[sx], num))
        return out

    def _read(self, system, d):
        svcs, blks, rest = self._parse_lists(d)
        if rest:
            return b"\xFF\xA1"
        sel = self._resolve(system, svcs, blks, False)
        if isinstance(sel, bytes):
            return sel
        data = b""
        for g, num in sel:
            data += bytes(g.blocks[num])
            base = self._base(system, g) + 16 * num
            self.served.update(range(base, base + 16))
        self.rlog.append((self.ncmd, system.code, [n for _, n in sel]))
        return bytes([0, 0, len(sel)]) + data

    def _write(self, system, d):
        svcs, blks, rest = self._parse_lists(d)
        sel = self._resolve(system, svcs, blks, True)
        if isinstance(sel, bytes):
            return sel
        if len(rest) != 16 * len(sel):
            return b"\xFF\xA9"
        if self._cut():
            return None
        for i, (g, num) in enumerate(sel):
            g.blocks[num][:] = rest[16 * i:16 * i + 16]
            self.wlog.append((self.ncmd, self._base(system, g) + 16 * num, 16))
        self._wrote()
        return b"\x00\x00"
