"""A card in the RF field of a simulated chip (vlib/simchip.py) that is driven
by a REAL driver: the RF partner is a tag simulator (e.g. isodep_card.T4Tag),
the chip gets a receiver model that honours the CRC settings the driver
programmed, faults are applied to the frames on the air.

    dev, link = simchip.build(driver)
    world = CardWorld(tag_sim, sel=0x20)
    attach(driver, link.chip, world)
    clf = simchip.frontend(dev)
    target = clf.sense(nfc.clf.RemoteTarget("106A"))      # real driver code
    tag = nfc.tag.activate(clf, target)

Receiver models (the same reading of the chips as props/c14.py leg
target-hist):
  RC-S380 / Port-100  InSetRF and InSetProtocol are remembered, InCommRF hands
      the command to the RF partner; check_crc (setting 2) on: CRC verified
      and removed, CRC_ERROR (00000004h) without data when it does not verify
      (a frame of less than 3 byte cannot verify); off: the frame as received;
      silence: RECEIVE_TIMEOUT (00000080h).
  PN53x family  InListPassiveTarget finds the card and leaves CIU_TxMode /
      CIU_RxMode at the technology's framing with TxCRCEn / RxCRCEn set;
      InCommunicateThru hands the command to the RF partner; RxCRCEn set: CRC
      verified and removed, status 02h when it does not verify; clear: the
      frame as received; silence: status 01h.

World.partner(payload) -> frame on the air (payload + CRC_A / CRC_B) or None.
Polling (REQA/WUPA, anticollision, SELECT, SENSB_REQ and the DESELECT / WUPB
the PN53x drivers send to undo the firmware's own ATTRIB) is answered by the
world and never faulted; every other command is a *data exchange*: numbered
from 1 (``exchanges``), handed to ``tag.command`` and subject to
``script[n]``:

    ["lost-cmd"]     the card never sees the command (silence)
    ["cut", k]       the card's answer frame (with CRC) cut to its first k
                     bytes; k = 0: the answer is lost
    ["noise", b]     the answer is lost, the receiver picks up the byte b
    ["crc", bit]     one bit of the two CRC bytes inverted
    ["flip", bit]    one bit of the frame inverted (bit modulo frame length)

``xlog`` has one (n, command, answer payload | "ERR:<fault>", phase) per data
exchange (the format of tagdev.TagDevice.xlog), ``log`` one dict per frame
the chip received.
"""
import struct

from . import ref_crc


def seal(tech, payload):
    payload = bytes(payload)
    return ref_crc.add_a(payload) if tech == "A" else ref_crc.add_b(payload)


def verifies(tech, raw):
    raw = bytes(raw)
    if len(raw) < 3:
        return False
    return ref_crc.check_a(raw) if tech == "A" else ref_crc.check_b(raw)


def damage(raw, fault):
    """the frame the receiver sees instead of ``raw`` (None: nothing)"""
    kind = fault[0]
    if kind == "cut":
        k = int(fault[1])
        return bytes(raw[:k]) if k > 0 else None
    if kind == "noise":
        return bytes([int(fault[1]) & 0xFF])
    f = bytearray(raw)
    if kind == "crc":
        bit = int(fault[1]) % 16
        f[len(f) - 2 + bit // 8] ^= 1 << (bit % 8)
        return bytes(f)
    if kind == "flip":
        bit = int(fault[1]) % (8 * len(f))
        f[bit // 8] ^= 1 << (bit % 8)
        return bytes(f)
    raise ValueError("rfcard: unknown fault %r" % (fault,))


class CardWorld(object):
    def __init__(self, tag, sel=None):
        self.tag = tag                  # tech "A" | "B"
        t = tag.target(_Poll())
        if tag.tech == "A":
            self.sens_res = bytes(t.sens_res)
            self.uid = bytes(t.sdd_res)
            self.sel = bytes(t.sel_res)[0] if sel is None else int(sel)
        else:
            self.sensb_res = bytes(t.sensb_res)
        self.script = {}
        self.exchanges = 0
        self.xlog = []
        self.log = []

    def partner(self, data):
        data, tag = bytes(data), self.tag
        if tag.tech == "A" and not getattr(tag, "activated", False):
            if data in (b"\x26", b"\x52"):
                tag.reset()
                return self.sens_res                        # no CRC
            if data == b"\x93\x20":
                u = self.uid[:4]
                return u + bytes([u[0] ^ u[1] ^ u[2] ^ u[3]])   # no CRC
            if data[:2] == b"\x93\x70":
                return ref_crc.add_a(bytes([self.sel]))
        if tag.tech == "B" and not getattr(tag, "activated", False):
            if data[:1] == b"\x05" and len(data) == 3:
                return ref_crc.add_b(self.sensb_res)
            if data[:1] in (b"\xc2", b"\xca"):
                return ref_crc.add_b(data)
        # a data exchange
        self.exchanges += 1
        n = self.exchanges
        fault = self.script.get(n)
        if fault is None:
            fault = self.script.get(str(n))
        if fault is not None and fault[0] == "lost-cmd":
            self.xlog.append((n, data, "ERR:lost-cmd", "cmd"))
            return None
        rsp = None if tag.dead else tag.command(data, None)
        if rsp is None:
            self.xlog.append((n, data, "ERR:" + fault[0] if fault else None,
                              "rsp" if fault else ""))
            return None
        raw = seal(tag.tech, rsp)
        if fault is None:
            self.xlog.append((n, data, bytes(rsp), ""))
            return raw
        self.xlog.append((n, data, "ERR:" + "-".join(str(x) for x in fault),
                          "rsp"))
        return damage(raw, fault)


class _Poll(object):
    sel_req = None
    sensb_req = None
    sensf_req = None
    brty = None


def model_rcs380(chip, world):
    chip.proto, chip.inrf = {}, None
    inner = chip.respond

    def respond(code, arg):
        arg = bytes(arg)
        if code == 0x00:
            chip.inrf = arg
            return b"\x00"
        if code == 0x02:
            for i in range(0, len(arg) - 1, 2):
                chip.proto[arg[i]] = arg[i + 1]
            return b"\x00"
        if code == 0x04:
            chip.rf_calls.append((code, arg))
            tech = {3: "A", 4: "A", 5: "A", 7: "B", 8: "B",
                    9: "B"}.get(chip.inrf[3] if chip.inrf else 0)
            check = chip.proto.get(2, 0)
            raw = world.partner(arg[2:])
            world.log.append({"sent": arg[2:], "raw": raw, "check": check,
                              "tech": tech})
            if raw is None:
                return struct.pack("<L", 0x80) + b"\x08"
            if check:
                if tech is None or not verifies(tech, raw):
                    return struct.pack("<L", 0x04) + b"\x08"
                raw = raw[:-2]
            return struct.pack("<L", 0) + b"\x08" + raw
        return inner(code, arg)
    chip.respond = respond


def model_pn53x(chip, world):
    inner = chip.respond
    REG_TXMODE, REG_RXMODE = 0x6302, 0x6303

    def respond(code, arg):
        arg = bytes(arg)
        tag = world.tag
        if code == 0x4A:
            brty = arg[1]
            if tag.dead:
                return b"\x00"
            tag.reset()
            if brty == 0 and tag.tech == "A":
                mode = 0x80
                found = world.sens_res[::-1] + bytes([world.sel]) \
                    + bytes([len(world.uid)]) + world.uid
            elif brty == 3 and tag.tech == "B":
                mode, found = 0x83, world.sensb_res + b"\x01\x01"
            else:
                return b"\x00"
            chip.regs[REG_TXMODE] = chip.regs[REG_RXMODE] = mode
            return b"\x01\x01" + found
        if code == 0x42:
            chip.rf_calls.append((code, arg))
            rxmode = chip.regs.get(REG_RXMODE, 0)
            rtech = {0: "A", 3: "B"}.get(rxmode & 3)
            raw = world.partner(arg)
            world.log.append({"sent": arg, "raw": raw, "check": rxmode >> 7,
                              "tech": rtech})
            if raw is None:
                return b"\x01"
            if rxmode & 0x80:
                if rtech is None or not verifies(rtech, raw):
                    return b"\x02"
                raw = raw[:-2]
            return b"\x00" + raw
        return inner(code, arg)
    chip.respond = respond


def attach(driver, chip, world):
    (model_rcs380 if driver == "rcs380" else model_pn53x)(chip, world)
    return world
