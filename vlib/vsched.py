"""Virtual scheduler: the harness owns threads, time and randomness.

Virtual threads are real OS threads but exactly one holds the baton at any
time; control changes hands only at scheduling points (lock acquire/release,
condition wait/notify, sleep, thread start/exit, simulated-medium waits).
Schedules are data: at the i-th scheduling point with k>1 runnable threads the
thread ``runnable[choices[i] % k]`` runs; once the list is exhausted the
current thread keeps running (non-preemptive), else the lowest thread id.
Time is virtual: when nothing is runnable the clock jumps to the earliest
deadline; when there is no deadline either, the set of blocked threads is a
deadlock report.

Usage
    vsched.patch_nfc()                      # once per process
    s = vsched.Sched(choices); vsched.activate(s)
    s.spawn(fn); s.settle(); s.sleep(dt); s.blocked(); s.shutdown()
    vsched.activate(None)
"""
import random as _random
import threading as _th
import types

NEW, RUNNABLE, BLOCKED, DONE = "NEW", "RUNNABLE", "BLOCKED", "DONE"


class Abort(BaseException):
    """raised inside leftover virtual threads at shutdown"""


class StepBudget(BaseException):
    """more scheduling points than any bounded scenario can need"""


class VT(object):
    def __init__(self, sched, name, idx):
        self.sched, self.name, self.idx = sched, name, idx
        self.baton = _th.Semaphore(0)
        self.state = NEW
        self.wait_on = None
        self.deadline = None
        self.timed_out = False
        self.exc = None
        self.real = None
        self.deadlocked = False
        self.held = 0               # locks currently owned
        self.npoints = 0
        self.nlines = 0             # lines executed inside nfc (line_trace)

    def __repr__(self):
        return "<VT %d %s %s on=%s>" % (self.idx, self.name, self.state,
                                        _wname(self.wait_on))


def _wname(w):
    if w is None or isinstance(w, str):
        return w
    return getattr(w, "vname", type(w).__name__)


class Sched(object):
    def __init__(self, choices=(), step_budget=400000, seed=0):
        self.threads = []
        self.now = 0.0
        self.choices = list(choices)
        self.ci = 0
        self.trace = []
        self.abort = False
        self.steps = 0
        self.step_budget = step_budget
        self.tls = _th.local()
        self.deadlock = None
        self.exhausted = False
        self.forced = {}            # scheduling point index -> thread pick
        self.points = 0             # scheduling points with a real choice
        self.rng = _random.Random(seed)
        # injected descheduling: [name substring, n, seconds] parks the first
        # thread whose name contains the substring for that much virtual time
        # when it reaches its n-th scheduling point (what an OS does to a
        # thread that lost the CPU); each entry fires once
        self.stalls = []
        self.stalled = 0
        # line-granular preemption (opt-in): with line_trace set, every
        # virtual thread counts the source lines it executes inside the nfc
        # package (VT.nlines); an entry [name substring, n] of line_preempt
        # takes the CPU from the first matching thread when it is about to
        # execute its n-th such line and gives it to another runnable thread
        # - what an OS may do between any two bytecodes, also where nfcpy
        # has no synchronisation point.  Each entry fires once.
        self.line_trace = False
        self.line_preempt = []
        self.line_preempted = 0
        me = VT(self, "controller", 0)
        me.state = RUNNABLE
        me.real = _th.current_thread()
        self.threads.append(me)
        self.tls.vt = me
        self.controller = me
        self.settling = False

    # ---------------------------------------------------------------- core
    def me(self):
        return self.tls.vt

    def _choose(self, runnable, me):
        if len(runnable) == 1:
            return runnable[0]
        self.points += 1
        if self.points in self.forced:
            nxt = runnable[self.forced[self.points] % len(runnable)]
        elif self.ci < len(self.choices):
            c = self.choices[self.ci]
            self.ci += 1
            nxt = runnable[c % len(runnable)]
        else:
            nxt = me if me in runnable else runnable[0]
        if len(self.trace) < 4000:
            self.trace.append(nxt.idx)
        return nxt

    def switch(self, me):
        """called by the running thread at a scheduling point"""
        if self.abort:
            raise Abort()
        self.steps += 1
        c = self.controller
        if self.exhausted:
            if me is c:
                raise StepBudget()
            me.baton.acquire()          # parked until shutdown
            raise Abort()
        if self.steps > self.step_budget:
            # end the scenario, not the process: a worker that runs past the
            # budget (a busy loop that never waits for virtual time) is
            # parked and the controller is woken with StepBudget raised from
            # its pending wait
            self.exhausted = True
            if me is c:
                raise StepBudget()
            if c.state != RUNNABLE:
                c.state = RUNNABLE
                c.timed_out = True
                self._unwait(c)
            if me.state == RUNNABLE:
                me.state = BLOCKED
                me.wait_on = "budget"
                me.deadline = None
            c.baton.release()
            if me.state != DONE:
                me.baton.acquire()
            raise Abort()
        while True:
            runnable = [t for t in self.threads if t.state == RUNNABLE]
            if runnable:
                nxt = self._choose(runnable, me)
                break
            c = self.controller
            if self.settling and c.state == BLOCKED and c.wait_on == "settle":
                c.state = RUNNABLE
                continue
            timed = [t for t in self.threads
                     if t.state == BLOCKED and t.deadline is not None]
            if not timed:
                self.deadlock = [repr(t) for t in self.threads
                                 if t.state == BLOCKED and t is not c]
                if c.state == BLOCKED:
                    c.state = RUNNABLE
                    c.deadlocked = True
                    self._unwait(c)
                    continue
                raise RuntimeError("deadlock including the controller")
            t = min(timed, key=lambda t: (t.deadline, t.idx))
            self.now = max(self.now, t.deadline)
            t.timed_out = True
            t.state = RUNNABLE
            self._unwait(t)
        if nxt is me:
            return
        nxt.baton.release()
        if me.state != DONE:
            me.baton.acquire()
            if self.abort:
                raise Abort()
            if self.exhausted and me is self.controller:
                raise StepBudget()

    def _unwait(self, t):
        w = t.wait_on
        if hasattr(w, "waiters") and t in w.waiters:
            w.waiters.remove(t)
        t.wait_on = None
        t.deadline = None

    def _maybe_stall(self, me):
        if not self.stalls or me is self.controller or me.held:
            return      # only threads that hold no lock are descheduled
        me.npoints += 1
        for i, (pat, n, d) in enumerate(self.stalls):
            if n == me.npoints and pat in me.name:
                del self.stalls[i]
                self.stalled += 1
                me.state = BLOCKED
                me.wait_on = "stall"
                me.timed_out = False
                me.deadline = self.now + d
                self.switch(me)
                return

    def _line_tracer(self, vt):
        import os
        import sys
        import nfc
        scope = os.path.join(os.path.dirname(nfc.__file__), "")

        def local(frame, event, arg):
            if event == "line":
                vt.nlines += 1
                for i, (pat, n) in enumerate(self.line_preempt):
                    if n == vt.nlines and pat in vt.name:
                        del self.line_preempt[i]
                        self._preempt(vt)
                        break
            return local

        def glob(frame, event, arg):
            if event == "call" and frame.f_code.co_filename.startswith(scope):
                return local
            return None
        sys.settrace(glob)

    def _preempt(self, me):
        """the running thread loses the CPU here although it could go on"""
        if self.abort or self.exhausted or me.state != RUNNABLE:
            return
        others = [t for t in self.threads
                  if t.state == RUNNABLE and t is not me
                  and t is not self.controller]
        if not others:
            return
        self.line_preempted += 1
        self.steps += 1
        others[0].baton.release()
        me.baton.acquire()
        if self.abort:
            raise Abort()

    def block(self, on, timeout=None):
        """returns True when woken, False when the virtual timeout expired"""
        me = self.me()
        me.state = BLOCKED
        me.wait_on = on
        me.timed_out = False
        me.deadlocked = False
        me.deadline = None if timeout is None else self.now + max(0, timeout)
        self.switch(me)
        woken = not me.timed_out
        self._maybe_stall(me)
        return woken

    def wake(self, t):
        if t.state == BLOCKED:
            t.state = RUNNABLE
            t.wait_on = None
            t.deadline = None

    def yield_(self):
        self._maybe_stall(self.me())
        self.switch(self.me())

    # ---------------------------------------------------------- controller
    def settle(self):
        """run everything else until nothing is runnable at the current
        virtual time; returns True if a deadlock (nobody can ever run again
        although threads are blocked) was detected"""
        me = self.me()
        assert me is self.controller
        self.settling = True
        me.deadlocked = False
        me.state = BLOCKED
        me.wait_on = "settle"
        me.deadline = None
        try:
            self.switch(me)
        finally:
            self.settling = False
        return me.deadlocked

    def sleep(self, d):
        self.block("sleep", d)

    def run_until(self, pred, limit, step=0.05):
        """let virtual time pass until pred() or limit seconds went by"""
        end = self.now + limit
        self.settle()
        while not pred() and self.now < end:
            self.sleep(step)
            self.settle()
        return pred()

    def spawn(self, fn, name="t"):
        t = _th.Thread(target=fn, name=name)
        t.start()              # patched start registers with the scheduler
        return t

    def blocked(self):
        return [t for t in self.threads
                if t.state == BLOCKED and t is not self.controller]

    def alive(self):
        return [t for t in self.threads[1:] if t.state != DONE]

    def failures(self):
        """uncaught exceptions of virtual threads: [(name, exception)]"""
        return [(t.name, t.exc) for t in self.threads[1:] if t.exc is not None]

    def shutdown(self):
        self.abort = True
        for t in self.threads[1:]:
            if t.state != DONE:
                t.baton.release()
        stuck = []
        for t in self.threads[1:]:
            t.real.join(5)
            if t.real.is_alive():
                stuck.append(t.name)
        return stuck

    def register(self, real):
        vt = VT(self, real.name, len(self.threads))
        vt.real = real
        vt.state = RUNNABLE
        self.threads.append(vt)
        orig_run = real.run

        def run():
            self.tls.vt = vt
            vt.baton.acquire()
            try:
                if self.abort:
                    return
                if self.line_trace:
                    self._line_tracer(vt)
                orig_run()
            except (Abort, StepBudget):
                pass
            except BaseException as e:      # uncaught in a thread
                vt.exc = e
            finally:
                if self.line_trace:
                    import sys
                    sys.settrace(None)
                vt.state = DONE
                if not self.abort:
                    try:
                        self.switch(vt)
                    except (Abort, StepBudget):
                        pass
        real.run = run
        real.daemon = True


_current = [None]
_orig_start = _th.Thread.start


def _patched_start(self):
    s = _current[0]
    if s is None:
        return _orig_start(self)
    s.register(self)
    _orig_start(self)
    s.yield_()


_th.Thread.start = _patched_start


def current():
    return _current[0]


def activate(s):
    _current[0] = s


# ------------------------------------------------------------------- shims
class VLock(object):
    reentrant = False
    vname = "Lock"

    def __init__(self):
        self.owner = None
        self.count = 0
        self.waiters = []

    def acquire(self, blocking=True, timeout=-1):
        s = _current[0]
        me = s.me()
        s.yield_()
        while self.owner is not None and not (self.reentrant
                                              and self.owner is me):
            if not blocking:
                return False
            self.waiters.append(me)
            if timeout is not None and timeout >= 0:
                if not s.block(self, timeout):
                    return False
            else:
                s.block(self)
        self.owner = me
        self.count += 1
        if self.count == 1:
            me.held += 1
        return True

    def release(self):
        s = _current[0]
        if s is None or s.abort:
            self.owner, self.count = None, 0
            return
        me = s.me()
        if self.owner is not me:
            if self.reentrant or not getattr(s, "unowned_release", False):
                raise RuntimeError("release of a lock the thread does not own")
            # opt-in (Sched.unowned_release = True): the semantics of the
            # real threading.Lock, which has no owner - any thread may
            # release a locked Lock, releasing an unlocked one raises
            if self.owner is None:
                raise RuntimeError("release unlocked lock")
            self.foreign_releases = getattr(self, "foreign_releases", 0) + 1
            self.owner.held -= 1
            self.owner, self.count = None, 0
            for t in self.waiters:
                s.wake(t)
            self.waiters = []
            return
        self.count -= 1
        if self.count == 0:
            self.owner = None
            me.held -= 1
            for t in self.waiters:
                s.wake(t)
            self.waiters = []

    def locked(self):
        return self.owner is not None

    def held_by_me(self):
        s = _current[0]
        return s is not None and self.owner is s.me()

    __enter__ = acquire

    def __exit__(self, *a):
        self.release()


class VRLock(VLock):
    reentrant = True
    vname = "RLock"


class VCondition(object):
    vname = "Condition"

    def __init__(self, lock=None):
        self.lock = lock if lock is not None else VRLock()
        self.waiters = []
        self.acquire = self.lock.acquire
        self.release = self.lock.release

    def __enter__(self):
        return self.lock.__enter__()

    def __exit__(self, *a):
        return self.lock.__exit__(*a)

    def wait(self, timeout=None):
        s = _current[0]
        me = s.me()
        lock = self.lock
        if lock.owner is not me:
            raise RuntimeError("cannot wait on un-acquired lock")
        saved = lock.count
        lock.count = 0
        lock.owner = None
        me.held -= 1
        for t in lock.waiters:
            s.wake(t)
        lock.waiters = []
        self.waiters.append(me)
        ok = s.block(self, timeout)
        if me in self.waiters:
            self.waiters.remove(me)
        while lock.owner is not None:
            lock.waiters.append(me)
            s.block(lock)
        lock.owner = me
        lock.count = saved
        me.held += 1
        return ok

    def notify(self, n=1):
        s = _current[0]
        if s is None or s.abort:
            return
        for t in self.waiters[:n]:
            self.waiters.remove(t)
            s.wake(t)

    def notify_all(self):
        self.notify(len(self.waiters))

    notifyAll = notify_all


def _lock():
    return VLock() if _current[0] is not None else _th.Lock()


def _rlock():
    return VRLock() if _current[0] is not None else _th.RLock()


def _condition(lock=None):
    if _current[0] is not None:
        return VCondition(lock)
    return _th.Condition(lock)


def vthreading():
    return types.SimpleNamespace(
        Lock=_lock, RLock=_rlock, Condition=_condition, Thread=_th.Thread,
        current_thread=_th.current_thread)


def vtime():
    import time as _t

    def time():
        s = _current[0]
        return _t.time() if s is None else 1.0e9 + s.now

    def sleep(d):
        s = _current[0]
        if s is None:
            return _t.sleep(d)
        s.sleep(d)
    return types.SimpleNamespace(time=time, sleep=sleep, strftime=_t.strftime,
                                 localtime=_t.localtime)


def vrandom():
    """module-like object whose choices come from the active scheduler"""
    class R(object):
        def __getattr__(self, name):
            s = _current[0]
            return getattr(s.rng if s is not None else _random, name)
    return R()


_fallback_rng = [None]


def seed_urandom(seed):
    """deterministic os.urandom replacement for checks that run without a
    scheduler (tag checks); None restores the real one"""
    _fallback_rng[0] = None if seed is None else _random.Random(seed)


def vurandom(n):
    s = _current[0]
    rng = s.rng if s is not None else _fallback_rng[0]
    if rng is None:
        import os
        return os.urandom(n)
    return bytes(rng.getrandbits(8) for _ in range(n))


class _OsProxy(object):
    """stands in for the ``os`` module inside an nfc module: urandom is
    deterministic while a scheduler is active, everything else is os"""
    def __getattr__(self, name):
        import os
        return getattr(os, name)

    urandom = staticmethod(vurandom)


_patched = [False]


def patch_nfc():
    """install the shims into the nfc modules (module attributes only)"""
    if _patched[0]:
        return
    import nfc.clf
    import nfc.dep
    import nfc.llcp.llc
    import nfc.llcp.tco
    import nfc.snep.server
    import nfc.handover.server
    import nfc.handover.client
    import nfc.tag.tt3_sony
    import nfc.tag.tt2_nxp
    vth, vtm = vthreading(), vtime()
    for m in (nfc.llcp.tco, nfc.llcp.llc, nfc.clf, nfc.snep.server,
              nfc.handover.server):
        m.threading = vth
    for m in (nfc.llcp.llc, nfc.clf, nfc.dep, nfc.handover.client):
        m.time = vtm
    nfc.llcp.llc.random = vrandom()
    for m in (nfc.dep, nfc.tag.tt3_sony, nfc.tag.tt2_nxp):
        m.os = _OsProxy()
    _patched[0] = True
