"""Type 1 / Type 2 Tag memory layouts: constructive builder, true capacity,
allowed-to-change set and an independent reference NDEF reader.  Written from
the T1T / T2T operation specifications; does not import nfc.tag.

A layout description (JSON-able dict):
    kind      "t1t" | "t2t"
    size      T2T: CC2 (data area = 8*size bytes starting at byte 16)
              T1T: TMS (memory = 8*(size+1) bytes; data area = bytes 12..)
    extra     physical bytes behind the declared memory (T2T lock/config)
    ctrl      list of control TLVs placed before the NDEF TLV, each
              {"t": 1|2, "page": 0..15, "offs": 0..15, "size": 0..255,
               "bpp": exponent}  (t=1 lock control: size in bits, 0 = 256;
               t=2 memory control: size in bytes, 0 = 256)
              or {"t": 0} for a NULL TLV, {"t": 0xFD, "len": n} proprietary
    nulls     number of NULL TLVs directly before the NDEF TLV
    ro        (optional) write access nibble of the CC

The builder places TLV bytes only on addresses that no control TLV reserves
and makes sure the NDEF TLV's T and L bytes are contiguous unreserved bytes
(the quantifier's exclusion): T + 1 length byte where fewer than 259 bytes are
available (a 3-byte length is never needed), T + 3 length bytes otherwise.  Reserved ranges are only ever
declared for addresses behind the declaring TLV (or in front of the data
area), so a reader always knows a reserved byte before it walks over it.
"""

T1_DATA_START = 12
T2_DATA_START = 16


def ctrl_range(c):
    size = c["size"] or 256
    if c["t"] == 1:
        size = (size + 7) // 8
    start = c["page"] * (1 << c["bpp"]) + c["offs"]
    return start, size


def ctrl_bytes(c):
    if c["t"] == 0:
        return b"\x00"
    if c["t"] in (1, 2):
        return bytes([c["t"], 3, (c["page"] << 4) | c["offs"],
                      c["size"] & 0xFF, (c["bpp"] & 0x0F) | 0x40])
    n = c.get("len", 0)
    return bytes([c["t"], n]) + bytes([0xA5]) * n


class Layout(object):
    pass


def geometry(d):
    """(data_start, data_end, default_reserved, physical_size)"""
    if d["kind"] == "t2t":
        end = T2_DATA_START + d["size"] * 8
        return T2_DATA_START, end, set(), end + d.get("extra", 0)
    end = (d["size"] + 1) * 8
    rsvd = set(range(104, 120 if end == 120 else 128))
    return T1_DATA_START, end, rsvd, end + d.get("extra", 0)


def build(d, old=b"", filler=0x00, uid=None):
    """returns (mem bytearray, info dict) or None when the description does
    not fit (no room for the NDEF TLV header inside the data area)"""
    start, end, reserved, phys = geometry(d)
    mem = bytearray([filler]) * phys
    if d["kind"] == "t2t":
        mem[0:10] = uid or bytes.fromhex("02112299334455664448")
        mem[10:12] = b"\x00\x00"
        mem[12:16] = bytes([0xE1, d.get("ver", 0x10), d["size"],
                            d.get("ro", 0) & 0x0F])
    else:
        mem[0:8] = uid or bytes.fromhex("0102030405060700")
        mem[8:12] = bytes([0xE1, d.get("ver", 0x10), d["size"],
                           d.get("ro", 0) & 0x0F])
        for a in range(104, min(128, phys)):
            mem[a] = 0
    reserved = set(reserved)
    pos = start
    placed = []
    for c in d.get("ctrl", []):
        raw = ctrl_bytes(c)
        # find room for the whole TLV on unreserved bytes
        while any((pos + i) in reserved for i in range(len(raw))):
            if pos not in reserved and pos < end:
                mem[pos] = 0x00           # NULL TLV fills an unreserved gap
            pos += 1
        if pos + len(raw) > end:
            return None
        if c["t"] in (1, 2):
            rs, rn = ctrl_range(c)
            rng = set(range(rs, rs + rn))
            # a range may only cover bytes behind this TLV or in front of
            # the data area
            if any(start <= a < pos + len(raw) for a in rng):
                continue                      # drop this control TLV
            reserved |= rng
        mem[pos:pos + len(raw)] = raw
        placed.append((pos, c))
        pos += len(raw)
    # NULL TLVs + NDEF TLV header on four contiguous unreserved bytes
    nulls = d.get("nulls", 0)
    while True:
        while pos in reserved:
            pos += 1
        # the length field is three bytes only where messages >= 255 bytes
        # fit (259 or more unreserved bytes from here to the end)
        room = len([a for a in range(pos, end) if a not in reserved])
        need = 4 if room >= 259 else 2
        if pos + need > end:
            return None
        if nulls > 0 or any((pos + i) in reserved for i in range(1, need)):
            mem[pos] = 0x00
            pos += 1
            nulls -= 1
            continue
        break
    tlv_off = pos
    info = {"kind": d["kind"], "tlv_off": tlv_off, "reserved": reserved,
            "data_start": start, "data_end": end, "phys": phys,
            "placed": placed}
    info["avail"] = [a for a in range(tlv_off, end) if a not in reserved]
    cap = true_capacity(info)
    old = bytes(old[:cap])
    write_message(mem, info, old)
    return mem, info


def true_capacity(info):
    n = len(info["avail"])
    c1 = min(254, n - 2)
    c3 = n - 4 if n - 4 >= 255 else -1
    return max(c1, c3, 0)


def write_message(mem, info, msg):
    """reference writer (used to put the previous message on the tag)"""
    avail = info["avail"]
    hdr = bytes([3, len(msg)]) if len(msg) < 255 else \
        bytes([3, 255, len(msg) >> 8, len(msg) & 255])
    body = hdr + bytes(msg)
    for a, b in zip(avail, body):
        mem[a] = b
    if len(body) < len(avail):
        mem[avail[len(body)]] = 0xFE


def allowed(info):
    """addresses an NDEF write or erase may change: unreserved bytes from the
    NDEF TLV to the end of the declared data area"""
    return set(info["avail"])


def ref_read(mem, kind):
    """independent TLV walk over a raw image: ('ndef', bytes) /
    ('none', reason)"""
    mem = bytes(mem)
    if kind == "t2t":
        cc, start = 12, T2_DATA_START
        if mem[cc] != 0xE1 or mem[cc + 1] >> 4 != 1:
            return "none", "cc"
        end = start + mem[cc + 2] * 8
        reserved = set()
    else:
        cc, start = 8, T1_DATA_START
        if mem[cc] != 0xE1 or mem[cc + 1] >> 4 != 1:
            return "none", "cc"
        end = (mem[cc + 2] + 1) * 8
        reserved = set(range(104, 120 if end == 120 else 128))
    if mem[cc + 3] >> 4 != 0:
        return "none", "read-access"
    end = min(end, len(mem))
    pos = start
    while pos < end:
        if pos in reserved:
            pos += 1
            continue
        t = mem[pos]
        if t == 0x00:
            pos += 1
            continue
        if t == 0xFE:
            return "none", "terminator"
        if pos + 1 >= end:
            return "none", "truncated"
        ln, hl = mem[pos + 1], 2
        if ln == 0xFF:
            if pos + 3 >= end:
                return "none", "truncated"
            ln, hl = (mem[pos + 2] << 8) | mem[pos + 3], 4
        val = bytearray()
        a = pos + hl
        while len(val) < ln:
            if a >= end:
                return "none", "value-beyond-data-area"
            if a not in reserved:
                val.append(mem[a])
            a += 1
        if t == 0x03:
            return "ndef", bytes(val)
        if t in (1, 2) and ln == 3:
            c = {"t": t, "page": val[0] >> 4, "offs": val[0] & 15,
                 "size": val[1], "bpp": val[2] & 15}
            rs, rn = ctrl_range(c)
            reserved |= set(range(rs, rs + rn))
        pos = a
    return "none", "no-ndef-tlv"


def layout(mem, kind):
    """independent TLV walk over a raw image up to the NDEF TLV's tag byte:
    returns an info dict like build() does (tlv_off, reserved, data_start,
    data_end, avail) for the layout the image holds *now*, or None when the
    image has no capability container / no NDEF TLV.  The NDEF TLV's own
    length and value are not interpreted (a write in progress may have left
    any length there); the data area end is capped at the physical size."""
    mem = bytes(mem)
    if kind == "t2t":
        cc, start = 12, T2_DATA_START
        if len(mem) < 16 or mem[cc] != 0xE1 or mem[cc + 1] >> 4 != 1:
            return None
        end = start + mem[cc + 2] * 8
        reserved = set()
    else:
        cc, start = 8, T1_DATA_START
        if len(mem) < 12 or mem[cc] != 0xE1 or mem[cc + 1] >> 4 != 1:
            return None
        end = (mem[cc + 2] + 1) * 8
        reserved = set(range(104, 120 if end == 120 else 128))
    declared_end = end
    end = min(end, len(mem))
    pos = start
    while pos < end:
        if pos in reserved:
            pos += 1
            continue
        t = mem[pos]
        if t == 0x00:
            pos += 1
            continue
        if t == 0xFE:
            return None
        if t == 0x03:
            return {"kind": kind, "tlv_off": pos, "reserved": reserved,
                    "data_start": start, "data_end": end,
                    "declared_end": declared_end, "phys": len(mem),
                    "access": mem[cc + 3],
                    "avail": [a for a in range(pos, end)
                              if a not in reserved]}
        if pos + 1 >= end:
            return None
        ln, hl = mem[pos + 1], 2
        if ln == 0xFF:
            if pos + 3 >= end:
                return None
            ln, hl = (mem[pos + 2] << 8) | mem[pos + 3], 4
        val = bytearray()
        a = pos + hl
        while len(val) < ln:
            if a >= end:
                return None
            if a not in reserved:
                val.append(mem[a])
            a += 1
        if t in (1, 2) and ln == 3:
            c = {"t": t, "page": val[0] >> 4, "offs": val[0] & 15,
                 "size": val[1], "bpp": val[2] & 15}
            rs, rn = ctrl_range(c)
            reserved |= set(range(rs, rs + rn))
        pos = a
    return None
