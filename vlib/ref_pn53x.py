"""Reference validator / builder for the host link frames of the PN53x family
(PN531/PN532/PN533/RC-S956), the ACR122U CCID envelope and the RC-S380
(NFC Port-100) frame.  Written from the PN532 user manual 6.2.1 (host
controller communication protocol), the ACR122U API (direct transmit
pseudo-APDU inside PC_to_RDR_Escape / RDR_to_PC_DataBlock) and the Port-100
frame notes; independent of nfcpy (no import of it).

PN53x information frame
    00        preamble
    00 FF     start of packet code
    LEN LCS   number of bytes in TFI..PDn;  (LEN + LCS) mod 256 == 0
    TFI       D4 host->chip, D5 chip->host
    PD0..PDn
    DCS       (TFI + PD0 + .. + PDn + DCS) mod 256 == 0
    00        postamble
extended information frame (more than 255 data bytes)
    00 00 FF  FF FF  LENM LENL LCS  TFI PD.. DCS 00
              (LENM + LENL + LCS) mod 256 == 0, length = LENM*256 + LENL
ACK 00 00 FF 00 FF 00   NACK 00 00 FF FF 00 00
syntax error frame 00 00 FF 01 FF 7F 81 00

Every check is made on its own field: the data checksum covers TFI..DCS
only, the postamble is compared with 00 separately.
"""
import struct

ACK = bytes.fromhex("0000FF00FF00")
NACK = bytes.fromhex("0000FFFF0000")
ERROR = bytes.fromhex("0000FF01FF7F8100")
TFI_HOST = 0xD4
TFI_CHIP = 0xD5


class RefReject(Exception):
    def __init__(self, reason, detail=""):
        Exception.__init__(self, reason, detail)
        self.reason = reason
        self.detail = detail


# ------------------------------------------------------------------ pn53x
def build(data, extended=None):
    """information frame around TFI+PD (``data`` starts with the TFI)"""
    data = bytes(data)
    n = len(data)
    if extended is None:
        extended = n > 255
    dcs = (-sum(data)) & 0xFF
    if not extended:
        if n > 255:
            raise ValueError("normal frame holds at most 255 bytes")
        return (b"\x00\x00\xff" + bytes([n, (-n) & 0xFF]) + data
                + bytes([dcs, 0]))
    if n > 0xFFFF:
        raise ValueError("too long")
    lenm, lenl = n >> 8, n & 0xFF
    return (b"\x00\x00\xff\xff\xff" + bytes([lenm, lenl,
                                             (-(lenm + lenl)) & 0xFF])
            + data + bytes([dcs, 0]))


def build_command(code, payload, extended=None):
    return build(bytes([TFI_HOST, code]) + bytes(payload), extended)


def build_response(code, payload, extended=None):
    """response frame of the chip for host command ``code``"""
    return build(bytes([TFI_CHIP, (code + 1) & 0xFF]) + bytes(payload),
                 extended)


def parse(frame):
    """-> dict(kind='ack'|'nack'|'data', fmt='normal'|'extended', data=bytes)
    (data = TFI + PD).  raises RefReject(reason)."""
    f = bytes(frame)
    if len(f) < 6:
        # the shortest frames (ACK/NACK) have six bytes
        if f[:3] != b"\x00\x00\xff"[:len(f)]:
            raise RefReject("start", f.hex())
        raise RefReject("short", f.hex())
    if f[0] != 0x00:
        raise RefReject("start", "preamble %02x" % f[0])
    if f[1:3] != b"\x00\xff":
        raise RefReject("start", "start code %s" % f[1:3].hex())
    if f == ACK:
        return {"kind": "ack", "fmt": "normal", "data": b""}
    if f == NACK:
        return {"kind": "nack", "fmt": "normal", "data": b""}
    if f[3] == 0xFF and f[4] == 0xFF:
        fmt = "extended"
        if len(f) < 10:
            raise RefReject("short", "extended header incomplete")
        lenm, lenl, lcs = f[5], f[6], f[7]
        if (lenm + lenl + lcs) & 0xFF:
            raise RefReject("lcs", "extended length checksum")
        n = lenm * 256 + lenl
        body = 8
    else:
        fmt = "normal"
        n, lcs = f[3], f[4]
        if (n + lcs) & 0xFF:
            raise RefReject("lcs", "length checksum")
        body = 5
    if len(f) != body + n + 2:
        raise RefReject("length", "LEN %d but %d bytes after the header"
                        % (n, len(f) - body))
    if n == 0:
        raise RefReject("empty", "no TFI")
    data = f[body:body + n]
    dcs = f[body + n]
    post = f[body + n + 1]
    if (sum(data) + dcs) & 0xFF:
        raise RefReject("dcs", "data checksum")
    if post != 0x00:
        raise RefReject("postamble", "%02x" % post)
    return {"kind": "data", "fmt": fmt, "data": data}


def parse_command(frame):
    """-> (code, payload, fmt) of a host command frame"""
    r = parse(frame)
    if r["kind"] != "data":
        raise RefReject("kind", r["kind"])
    d = r["data"]
    if d[0] != TFI_HOST:
        raise RefReject("tfi", "%02x" % d[0])
    if len(d) < 2:
        raise RefReject("nocode")
    return d[1], d[2:], r["fmt"]


def parse_response(frame, code):
    """payload of a well-formed response to host command ``code``;
    raises RefReject; reason 'error-frame' for a checksum-valid frame whose
    TFI is 7F (the chip's syntax error indication)."""
    r = parse(frame)
    if r["kind"] != "data":
        raise RefReject("kind", r["kind"])
    d = r["data"]
    if d[0] == 0x7F:
        raise RefReject("error-frame", "standard" if bytes(frame) == ERROR
                        else "nonstandard")
    if d[0] != TFI_CHIP:
        raise RefReject("tfi", "%02x" % d[0])
    if len(d) < 2:
        raise RefReject("nocode")
    if d[1] != (code + 1) & 0xFF:
        raise RefReject("code", "%02x" % d[1])
    return d[2:]


# ------------------------------------------------------------------- ccid
# PC_to_RDR_Escape:     6B  dwLength(le32) bSlot bSeq abRFU(3)  abData
# PC_to_RDR_XfrBlock:   6F  dwLength(le32) bSlot bSeq bBWI wLevelParameter(2)
# RDR_to_PC_DataBlock:  80  dwLength(le32) bSlot bSeq bStatus bError bChain
# ACR122U direct transmit pseudo APDU:  FF 00 00 00 Lc  <Lc bytes for PN532>
#   response:  <PN532 response D5 ..>  90 00
def ccid_parse_host(frame):
    """-> abData of a PC_to_RDR_XfrBlock message"""
    f = bytes(frame)
    if len(f) < 10:
        raise RefReject("ccid-short")
    if f[0] != 0x6F:
        raise RefReject("ccid-type", "%02x" % f[0])
    n = struct.unpack("<I", f[1:5])[0]
    if len(f) != 10 + n:
        raise RefReject("ccid-length")
    if f[5] != 0 or f[6] != 0:
        raise RefReject("ccid-slot-seq")
    if f[7:10] != b"\x00\x00\x00":
        raise RefReject("ccid-param")
    return f[10:]


def acr_parse_command(frame):
    """-> (code, payload) from the CCID message the ACR122 driver writes"""
    apdu = ccid_parse_host(frame)
    if len(apdu) < 5:
        raise RefReject("apdu-short")
    if apdu[:4] != b"\xff\x00\x00\x00":
        raise RefReject("apdu-header", apdu[:4].hex())
    lc = apdu[4]
    if len(apdu) != 5 + lc:
        raise RefReject("apdu-lc", "Lc %d, %d bytes" % (lc, len(apdu) - 5))
    body = apdu[5:]
    if len(body) < 2:
        raise RefReject("apdu-body-short")
    if body[0] != TFI_HOST:
        raise RefReject("tfi", "%02x" % body[0])
    return body[1], body[2:]


def ccid_build_rsp(data, slot=0, seq=0, status=0x00, error=0x81, chain=0):
    data = bytes(data)
    return (bytes([0x80]) + struct.pack("<I", len(data))
            + bytes([slot, seq, status, error, chain]) + data)


def acr_build_response(code, payload, **kw):
    return ccid_build_rsp(bytes([TFI_CHIP, (code + 1) & 0xFF])
                          + bytes(payload) + b"\x90\x00", **kw)


def ccid_parse_rsp(frame):
    """-> dict(data, slot, seq, status, error, chain)"""
    f = bytes(frame)
    if len(f) < 10:
        raise RefReject("ccid-short")
    if f[0] != 0x80:
        raise RefReject("ccid-type", "%02x" % f[0])
    n = struct.unpack("<I", f[1:5])[0]
    if len(f) != 10 + n:
        raise RefReject("ccid-length")
    return {"data": f[10:], "slot": f[5], "seq": f[6], "status": f[7],
            "error": f[8], "chain": f[9]}


def acr_parse_response(frame, code):
    r = ccid_parse_rsp(frame)
    d = r["data"]
    if len(d) < 4:
        raise RefReject("apdu-short")
    if d[-2:] != b"\x90\x00":
        raise RefReject("apdu-sw", d[-2:].hex())
    if d[0] != TFI_CHIP:
        raise RefReject("tfi", "%02x" % d[0])
    if d[1] != (code + 1) & 0xFF:
        raise RefReject("code", "%02x" % d[1])
    return d[2:-2], r


# ---------------------------------------------------------------- port-100
# 00 00 FF FF FF  LEN(le16) LCS  D6|D7 code data  DCS 00
def p100_build(data):
    data = bytes(data)
    ln = struct.pack("<H", len(data))
    return (b"\x00\x00\xff\xff\xff" + ln + bytes([(-sum(ln)) & 0xFF]) + data
            + bytes([(-sum(data)) & 0xFF, 0]))


def p100_build_response(code, payload):
    return p100_build(bytes([0xD7, (code + 1) & 0xFF]) + bytes(payload))


def p100_parse(frame):
    f = bytes(frame)
    if f == ACK:
        return {"kind": "ack", "data": b""}
    if len(f) < 10:
        raise RefReject("short")
    if f[:3] != b"\x00\x00\xff":
        raise RefReject("start")
    if f[3:5] != b"\xff\xff":
        raise RefReject("not-extended")
    n = f[5] | (f[6] << 8)
    if (f[5] + f[6] + f[7]) & 0xFF:
        raise RefReject("lcs")
    if len(f) != 8 + n + 2:
        raise RefReject("length", "LEN %d, %d bytes" % (n, len(f) - 10))
    data = f[8:8 + n]
    if (sum(data) + f[8 + n]) & 0xFF:
        raise RefReject("dcs")
    if f[9 + n] != 0:
        raise RefReject("postamble")
    return {"kind": "data", "data": data}


def p100_parse_command(frame):
    r = p100_parse(frame)
    d = r["data"]
    if r["kind"] != "data" or len(d) < 2:
        raise RefReject("kind")
    if d[0] != 0xD6:
        raise RefReject("tfi", "%02x" % d[0])
    return d[1], d[2:]
