"""Driver shared by all property checks.

A property module (props/cNN.py) exposes

    PROPERTY = "C11"; LEVEL = "exploration"; ASSUMPTIONS = [...]
    LEGS = [Leg(...), ...]

A *leg* is one generated-input search against one oracle.  Its ``run(case,
ctx)`` executes a single case (a JSON-normalised value) and raises
``Violation`` when the property is broken.  Cases come from a Hypothesis
strategy (``gen``), from an enumerator (``enum``: bounded-exhaustive
sub-domains), or the leg does its own bulk loop (``bulk``: very large
enumerations that cannot afford per-case bookkeeping).

Exit protocol (cli.py): 0 held / 1 + "VIOLATION property=.. replay=.." /
2 harness problem.
"""
from __future__ import annotations

import hashlib
import json
import os
import sys
import time
import traceback
from collections import Counter

ROOT = os.path.dirname(os.path.dirname(os.path.abspath(__file__)))
REPO_SRC = os.environ.get("NFCPY_SRC", "/repo/src")


class Violation(Exception):
    """the property under test does not hold for this case"""

    def __init__(self, oracle, detail="", exc=None, frame=None):
        Exception.__init__(self, oracle, detail)
        self.oracle = oracle
        self.detail = detail
        self.exc = exc          # exception type name, when one escaped
        self.frame = frame      # innermost nfcpy frame "module:function"


class HarnessError(Exception):
    """the check itself is broken; never reported as a violation"""


# --------------------------------------------------------------------- json
def to_json(x):
    if isinstance(x, (bytes, bytearray)):
        return {"$b": bytes(x).hex()}
    if isinstance(x, (list, tuple)):
        return [to_json(i) for i in x]
    if isinstance(x, dict):
        return {str(k): to_json(v) for k, v in x.items()}
    if isinstance(x, (set, frozenset)):
        return [to_json(i) for i in sorted(x)]
    if isinstance(x, (int, float, str, bool)) or x is None:
        return x
    raise HarnessError("case value not serialisable: %r" % (x,))


def from_json(x):
    if isinstance(x, dict):
        if len(x) == 1 and "$b" in x:
            return bytes.fromhex(x["$b"])
        return {k: from_json(v) for k, v in x.items()}
    if isinstance(x, list):
        return [from_json(i) for i in x]
    return x


def abbrev(x, limit=96):
    """shorten long byte strings so samples stay readable"""
    if isinstance(x, dict):
        if len(x) == 1 and "$b" in x:
            h = x["$b"]
            if len(h) > limit:
                return "%s..(%d bytes)" % (h[:limit], len(h) // 2)
            return h
        return {k: abbrev(v, limit) for k, v in x.items()}
    if isinstance(x, list):
        if len(x) > 40:
            return [abbrev(i, limit) for i in x[:40]] + ["..(%d items)" % len(x)]
        return [abbrev(i, limit) for i in x]
    if isinstance(x, str) and len(x) > 4 * limit:
        return x[:4 * limit] + "..."
    return x


def case_key(jcase):
    s = json.dumps(jcase, sort_keys=True, separators=(",", ":"))
    return hashlib.blake2b(s.encode(), digest_size=8).hexdigest()


def derive_seed(seed, *parts):
    s = ("%d|" % seed) + "|".join(str(p) for p in parts)
    return int.from_bytes(hashlib.blake2b(s.encode(), digest_size=8).digest(),
                          "big")


# ------------------------------------------------------------ classification
def _frame_owner(filename):
    fn = filename.replace("\\", "/")
    if "/nfc/" in fn and (fn.startswith(REPO_SRC) or "/src/nfc/" in fn):
        return "nfc"
    if fn.startswith(ROOT + "/"):
        return "verif"
    return None


def innermost(tb, only=None):
    """(owner, "module:function") of the innermost frame that belongs to
    nfcpy or to the harness, skipping stdlib / third party frames."""
    found = (None, None)
    for fs in traceback.extract_tb(tb):
        owner = _frame_owner(fs.filename)
        if only == "nfc-not-clf":
            # the frontend passes driver errors through by design: name the
            # caller of ContactlessFrontend.exchange()
            if owner != "nfc" or fs.filename.replace("\\", "/").endswith(
                    "/nfc/clf/__init__.py"):
                continue
            owner = "nfc"
        elif owner and only is not None and owner != only:
            continue
        if owner:
            mod = os.path.splitext(fs.filename.replace("\\", "/"))[0]
            if owner == "nfc":
                mod = "nfc" + mod.split("/src/nfc", 1)[-1].replace("/", ".")
                if mod.endswith(".__init__"):
                    mod = mod[:-9]
            else:
                mod = mod[len(ROOT) + 1:].replace("/", ".")
            found = (owner, "%s:%s" % (mod, fs.name))
    return found


class app_stack(object):
    """with app_stack(): ...   runs the block with the interpreter stack an
    application has.  Hypothesis raises the recursion limit while it runs a
    test (by about 2000 frames), so code that recurses once per input unit
    gets room here that no application gives it.  An application runs with
    the default limit of 1000 frames and calls a decoder from some depth
    (link loop, service thread: 20 frames or more); the block therefore gets
    `free` (default 950) frames below the current one."""

    def __init__(self, free=950):
        self.free = free

    def __enter__(self):
        depth, f = 0, sys._getframe()
        while f is not None:
            depth, f = depth + 1, f.f_back
        self.saved = sys.getrecursionlimit()
        sys.setrecursionlimit(depth + self.free)

    def __exit__(self, *exc):
        sys.setrecursionlimit(self.saved)
        return False


def unexpected(exc, oracle="unexpected-exception", detail=None):
    """turn an exception raised by nfcpy into a Violation (or a HarnessError
    when its innermost frame is harness code)"""
    owner, frame = innermost(exc.__traceback__)
    if owner == "verif" and (type(exc).__module__.startswith("nfc.")
                             or isinstance(exc, EnvironmentError)):
        # a simulated driver / transport raised one of its documented
        # errors (nfc.clf.CommunicationError, IOError) and nfcpy let it
        # through: that is nfcpy's doing, report the nfcpy frame
        o2, f2 = innermost(exc.__traceback__, only="nfc-not-clf")
        if o2 is None:
            o2, f2 = innermost(exc.__traceback__, only="nfc")
        if o2 is not None:
            owner, frame = "nfc", f2
    if owner != "nfc":
        raise HarnessError("harness failure: %s: %s at %s\n%s" % (
            type(exc).__name__, exc, frame,
            "".join(traceback.format_exception(type(exc), exc,
                                               exc.__traceback__))))
    d = "%s: %s" % (type(exc).__name__, exc)
    if detail:
        d = detail + " -> " + d
    return Violation(oracle, d, exc=type(exc).__name__, frame=frame)


# --------------------------------------------------------------------- ctx
class Ctx(object):
    """per-case bookkeeping handed to Leg.run"""

    def __init__(self, acct, jcase):
        self.acct = acct
        self.jcase = jcase
        self.labels = []
        self.cls = ""
        self.nt = False
        self.nt_key = None
        self.info = None

    def label(self, *names):
        self.labels.extend(names)

    def set_class(self, cls):
        self.cls = cls

    def nontrivial(self, key=None):
        self.nt = True
        if key is not None:
            self.nt_key = key

    def note(self, info):
        """extra facts shown with the sample (e.g. what the model computed)"""
        self.info = info

    def fail(self, oracle, detail=""):
        raise Violation(oracle, detail)

    def guard(self, fn, *args, **kw):
        """call into nfcpy; exceptions of types in ``allowed`` propagate to the
        leg, anything else becomes a Violation"""
        allowed = kw.pop("allowed", ())
        oracle = kw.pop("oracle", "unexpected-exception")
        try:
            return fn(*args, **kw)
        except allowed:
            raise
        except (Violation, HarnessError):
            raise
        except Exception as e:
            raise unexpected(e, oracle)


class Account(object):
    def __init__(self, leg):
        self.leg = leg
        self.evaluations = 0
        self.nt_keys = set()
        self.nt_bulk = 0
        self.labels = Counter()
        self.samples = []
        self.excluded = Counter()
        self.exhaustive = None

    def add(self, ctx):
        self.evaluations += 1
        for lab in ctx.labels:
            self.labels[lab] += 1
        if ctx.nt:
            self.nt_keys.add(ctx.nt_key or case_key(ctx.jcase))
            self.labels["nontrivial"] += 1
        n = self.evaluations
        # first two, then a sparse deterministic trickle, prefer non-trivial
        if len(self.samples) < 2 or (ctx.nt and len(self.samples) < 6
                                     and n % 37 == 0):
            s = {"leg": self.leg, "case": abbrev(ctx.jcase),
                 "nontrivial": ctx.nt}
            if ctx.labels:
                s["labels"] = sorted(set(ctx.labels))
            if ctx.info is not None:
                s["observed"] = abbrev(to_json(ctx.info))
            self.samples.append(s)

    def bulk(self, evaluations, nontrivial, labels=None, samples=()):
        self.evaluations += evaluations
        self.nt_bulk += nontrivial
        for k, v in (labels or {}).items():
            self.labels[k] += v
        for s in samples:
            if len(self.samples) < 6:
                self.samples.append({"leg": self.leg, "case": abbrev(to_json(s))})

    def dump(self):
        return {"leg": self.leg, "evaluations": self.evaluations,
                "nt_keys": sorted(self.nt_keys), "nt_bulk": self.nt_bulk,
                "labels": dict(self.labels), "samples": self.samples,
                "excluded": dict(self.excluded),
                "exhaustive": self.exhaustive}


# --------------------------------------------------------------------- leg
class Leg(object):
    def __init__(self, name, run=None, gen=None, enum=None, bulk=None,
                 quick=200, thorough=5000, shards_quick=1, shards_thorough=16,
                 rule="", nt_floor=0.0, exhaustive=False, tiers=("quick",
                                                                 "thorough"),
                 optimize=False, env=None):
        self.name = name
        self.run = run
        self.gen = gen            # callable(tier) -> hypothesis strategy
        self.enum = enum          # callable(tier, seed) -> iterable of cases
        self.bulk = bulk          # callable(tier, seed, i, n, acct) -> None
        self.n = {"quick": quick, "thorough": thorough}
        self.shards = {"quick": shards_quick, "thorough": shards_thorough}
        self.rule = rule
        self.nt_floor = nt_floor
        self.exhaustive = exhaustive
        self.tiers = tiers
        # optimize: the shard subprocess (and a replay) runs under
        # "python -O", i.e. with every assert statement of nfcpy compiled out
        self.optimize = optimize
        # env: environment overrides for the shard subprocess / a replay
        # (e.g. another PYTHONHASHSEED: iteration orders of sets and dicts of
        # str / bytes keys differ between interpreter runs of a real program)
        self.env = dict(env or {})


def twin_env(leg, suffix, env, quick=None, thorough=None, shards_quick=None,
             shards_thorough=None, note=""):
    """the same search as `leg` in a subprocess with environment overrides"""
    return Leg(leg.name + "-" + suffix, run=leg.run, gen=leg.gen,
               enum=leg.enum, bulk=leg.bulk,
               quick=quick if quick is not None else leg.n["quick"],
               thorough=thorough if thorough is not None else leg.n["thorough"],
               shards_quick=shards_quick or leg.shards["quick"],
               shards_thorough=shards_thorough or leg.shards["thorough"],
               rule="as leg %s, in an interpreter started with %s%s." % (
                   leg.name, " ".join("%s=%s" % kv for kv in sorted(
                       env.items())), note),
               nt_floor=leg.nt_floor, exhaustive=leg.exhaustive,
               tiers=leg.tiers, optimize=leg.optimize, env=env)


def twin_O(leg, quick=None, thorough=None, shards_quick=None,
           shards_thorough=None):
    """the same search as `leg`, executed by an interpreter started with -O:
    validation that rests on assert statements disappears there"""
    return Leg(leg.name + "-O", run=leg.run, gen=leg.gen, enum=leg.enum,
               bulk=leg.bulk,
               quick=quick if quick is not None else leg.n["quick"],
               thorough=thorough if thorough is not None else leg.n["thorough"],
               shards_quick=shards_quick or leg.shards["quick"],
               shards_thorough=shards_thorough or leg.shards["thorough"],
               rule="as leg %s, under python -O (assert statements compiled "
                    "out)." % leg.name,
               nt_floor=leg.nt_floor, exhaustive=leg.exhaustive,
               tiers=leg.tiers, optimize=True)


def signature(leg, ctx_cls, v):
    return {"leg": leg, "cls": ctx_cls or "", "oracle": v.oracle,
            "exc": v.exc or "", "frame": v.frame or ""}


def sig_match(known_sig, sig):
    """a known signature matches when every field it states is equal"""
    for k, val in known_sig.items():
        if sig.get(k, "") != val:
            return False
    return True


class Failure(object):
    def __init__(self, leg, jcase, sig, detail):
        self.leg, self.jcase, self.sig, self.detail = leg, jcase, sig, detail

    def dump(self):
        return {"leg": self.leg, "case": self.jcase, "signature": self.sig,
                "detail": self.detail}


# ---------------------------------------------------------------- watchdog
class NonTermination(BaseException):
    """nfcpy code keeps looping (raised inside the looping code itself)"""
    where = ""


class _Watchdog(object):
    """a case that is still running after VERIF_CASE_WALL seconds (default
    60; cases take milliseconds) is a *candidate* for non-termination.  The
    verdict does not rest on the wall clock: from then on every loop
    iteration (backward jump) and function entry executed inside the nfc
    package is counted (sys.monitoring), and only when STEP_BUDGET further
    ones have been executed without the case ending NonTermination is raised
    inside the looping code, in whichever thread runs it.  A slow but
    terminating case just finishes."""
    TOOL = 3
    STEP_BUDGET = 20000000
    depth = 0

    def __enter__(self):
        import signal
        import threading
        self.armed = False
        self.monitoring = False
        if _Watchdog.depth or not hasattr(sys, "monitoring") or \
                threading.current_thread() is not threading.main_thread():
            return self
        _Watchdog.depth += 1
        self.armed = True
        self.steps = 0
        self.prefix = os.path.join(REPO_SRC, "nfc") + os.sep
        self.old = signal.signal(signal.SIGALRM, self._alarm)
        signal.setitimer(signal.ITIMER_REAL,
                         float(os.environ.get("VERIF_CASE_WALL", "60")))
        return self

    def _alarm(self, signum, frame):
        mon = sys.monitoring
        try:
            mon.use_tool_id(self.TOOL, "verif-watchdog")
        except ValueError:
            return
        self.monitoring = True
        ev = mon.events
        mon.register_callback(self.TOOL, ev.JUMP, self._jump)
        mon.register_callback(self.TOOL, ev.PY_START, self._start)
        mon.set_events(self.TOOL, ev.JUMP | ev.PY_START)

    def _count(self, code):
        if not code.co_filename.startswith(self.prefix):
            return sys.monitoring.DISABLE
        self.steps += 1
        if self.steps > self.STEP_BUDGET:
            e = NonTermination(
                "still running after %s s of wall time and %d further loop "
                "iterations / calls inside nfcpy, last in %s:%s"
                % (os.environ.get("VERIF_CASE_WALL", "60"), self.STEP_BUDGET,
                   os.path.basename(code.co_filename), code.co_name))
            e.where = "nfc.%s:%s" % (
                code.co_filename[len(self.prefix):-3].replace(os.sep, "."),
                code.co_name)
            raise e

    def _jump(self, code, src, dst):
        if dst < src:
            return self._count(code)

    def _start(self, code, offset):
        return self._count(code)

    def __exit__(self, *exc):
        if self.armed:
            import signal
            signal.setitimer(signal.ITIMER_REAL, 0)
            signal.signal(signal.SIGALRM, self.old)
            _Watchdog.depth -= 1
            if self.monitoring:
                mon = sys.monitoring
                mon.set_events(self.TOOL, 0)
                mon.register_callback(self.TOOL, mon.events.JUMP, None)
                mon.register_callback(self.TOOL, mon.events.PY_START, None)
                mon.free_tool_id(self.TOOL)
        return False



def run_case(leg, jcase, acct, active_known):
    """execute one case.  Returns None (held), or a Failure.  A failure that
    matches an active known finding is counted and reported as held."""
    ctx = Ctx(acct, jcase)
    case = from_json(jcase)
    try:
        try:
            with _Watchdog():
                leg.run(case, ctx)
        except (Violation, HarnessError):
            raise
        except NonTermination as e:
            raise Violation("no-termination", str(e), exc="NonTermination",
                            frame=e.where)
        except Exception as e:
            raise unexpected(e)
    except Violation as v:
        sig = signature(leg.name, ctx.cls, v)
        for kid, ksig in active_known.items():
            if sig_match(ksig, sig):
                acct.excluded[kid] += 1
                ctx.label("excluded-known:" + kid)
                acct.add(ctx)
                return None
        acct.add(ctx)
        return Failure(leg.name, jcase, sig, v.detail)
    acct.add(ctx)
    return None


def run_leg_shard(prop, leg, tier, seed, shard_i, shard_n, active_known,
                  shrink_budget=None):
    """run one shard of one leg; returns (account dump, failure dump|None)"""
    acct = Account(leg.name)
    failure = None
    if shrink_budget is None:
        shrink_budget = 150 if tier == "quick" else 1500
    n_total = leg.n[tier]
    n = max(1, n_total // shard_n) if n_total else 0

    if leg.bulk is not None:
        try:
            leg.bulk(tier, seed, shard_i, shard_n, acct)
        except Violation as v:
            sig = signature(leg.name, "", v)
            jcase = to_json(getattr(v, "case", None))
            failure = Failure(leg.name, jcase, sig, v.detail)
        acct.exhaustive = leg.exhaustive
        return acct.dump(), failure.dump() if failure else None

    if leg.enum is not None:
        for idx, case in enumerate(leg.enum(tier, seed)):
            if idx % shard_n != shard_i:
                continue
            f = run_case(leg, to_json(case), acct, active_known)
            if f is not None:
                failure = f
                break
        acct.exhaustive = leg.exhaustive
        return acct.dump(), failure.dump() if failure else None

    import hypothesis
    from hypothesis import HealthCheck, Phase, given, settings
    state = {"failure": None, "fail_calls": 0, "stop": False}

    def body(case):
        if state["stop"]:
            return
        f = run_case(leg, to_json(case), acct, active_known)
        if f is not None:
            state["failure"] = f
            state["fail_calls"] += 1
            if state["fail_calls"] > shrink_budget or \
                    f.sig["oracle"] == "no-termination":
                state["stop"] = True
            raise Violation(f.sig["oracle"], f.detail)

    test = given(leg.gen(tier))(body)
    test = settings(max_examples=n, deadline=None, database=None,
                    derandomize=False, report_multiple_bugs=False,
                    suppress_health_check=list(HealthCheck),
                    phases=[Phase.generate, Phase.shrink],
                    print_blob=False)(test)
    test = hypothesis.seed(derive_seed(seed, prop, leg.name, shard_i))(test)
    try:
        test()
    except HarnessError:
        raise
    except BaseException as e:
        if state["failure"] is None:
            if isinstance(e, (KeyboardInterrupt, SystemExit)):
                raise
            raise HarnessError("hypothesis failed without a recorded "
                               "violation: %r\n%s" % (e, traceback.format_exc()))
    failure = state["failure"]
    return acct.dump(), failure.dump() if failure else None


def merge_accounts(dumps):
    out = {}
    for d in dumps:
        m = out.setdefault(d["leg"], {
            "evaluations": 0, "nt_keys": set(), "nt_bulk": 0,
            "labels": Counter(), "samples": [], "excluded": Counter(),
            "exhaustive": None})
        m["evaluations"] += d["evaluations"]
        m["nt_keys"].update(d["nt_keys"])
        m["nt_bulk"] += d["nt_bulk"]
        m["labels"].update(d["labels"])
        if len(m["samples"]) < 4:
            m["samples"].extend(d["samples"][:2])
        m["excluded"].update(d["excluded"])
        if d["exhaustive"] is not None:
            m["exhaustive"] = (d["exhaustive"] if m["exhaustive"] is None
                               else (m["exhaustive"] and d["exhaustive"]))
    return out


def now():
    return time.monotonic()
