"""A real nfc.dep.Initiator talking to a real nfc.dep.Target over SimAir under
the virtual scheduler (shared by C04 and C19), plus an independent reading of
the NFC-DEP frame format used to analyse the wire log.

NFC-DEP frame (payload level, like the drivers):

    [F0 at 106A] LEN CMD0 CMD1 ...        LEN = 1 + len(transport data)
    transport data = CMD0 CMD1 PFB [DID] [NAD] information     (DEP_REQ/RES)

LR ("length reduction", announced in ATR_REQ/ATR_RES bits 5..4 of PP) is the
number of transport data bytes the announcing side can receive:
64 / 128 / 192 / 254.
"""
import hashlib
import os
import traceback

import nfc.clf
import nfc.dep

from . import simdev, vsched

_BaseSched = vsched.Sched


class BudgetSched(_BaseSched):
    """vsched.Sched whose step budget ends the scenario instead of the
    process: when a worker thread runs past the budget (a busy loop that
    never waits for virtual time) the worker is parked and the controller is
    woken with StepBudget raised from its pending wait.  (In vsched.Sched the
    worker dies holding the baton and every other real thread stays blocked
    on its semaphore.)"""

    exhausted = False

    def switch(self, me):
        c = self.controller
        if self.exhausted and not self.abort:
            if me is c:
                raise vsched.StepBudget()
        elif (not self.abort and me is not c
              and self.steps >= self.step_budget):
            self.exhausted = True
            if c.state != vsched.RUNNABLE:
                c.state = vsched.RUNNABLE
                c.timed_out = True
                self._unwait(c)
            if me.state == vsched.RUNNABLE:
                me.state = vsched.BLOCKED
                me.wait_on = "budget"
                me.deadline = None
            c.baton.release()
            if me.state != vsched.DONE:
                me.baton.acquire()
            raise vsched.Abort()
        if self.exhausted and me is not c and not self.abort:
            # other workers that get the baton after exhaustion: park too
            me.baton.acquire()
            raise vsched.Abort()
        return _BaseSched.switch(self, me)


LR = (64, 128, 192, 254)
BRTY = ("106A", "212F", "424F")
KINDS = {0: "INF", 1: "I++", 4: "ACK", 5: "NAK", 8: "ATN", 9: "TOX"}
CODES = {0: "ATR", 1: "ATR", 4: "PSL", 5: "PSL", 6: "DEP", 7: "DEP",
         8: "DSL", 9: "DSL", 10: "RLS", 11: "RLS"}


def payload(direction, index, size, fill="shake"):
    """the index-th payload of a direction ("q" request, "r" response)"""
    if fill == "shake":
        key = ("%s:%d:%d" % (direction, index, size)).encode()
        return hashlib.shake_128(key).digest(size)
    # constant fill: only the first byte tells payloads apart
    tag = (index * 2 + (direction == "r")) & 0xFF
    return (bytes([tag]) + bytes([int(fill)]) * size)[:size]


def parse(brty, data):
    """independent reading of one frame off the medium -> dict"""
    data = bytes(data)
    f = {"raw": len(data), "ok": False, "code": None, "kind": None,
         "pni": None, "did": None, "nad": None, "inf": None, "tlen": None,
         "len": None, "req": None}
    pos = 0
    if brty == "106A":
        if not data or data[0] != 0xF0:
            return f
        pos = 1
    if len(data) < pos + 3:
        return f
    f["len"] = data[pos]
    f["tlen"] = len(data) - pos - 1          # transport data bytes present
    f["ok"] = f["len"] == f["tlen"] + 1
    c0, c1 = data[pos + 1], data[pos + 2]
    if c0 not in (0xD4, 0xD5) or c1 not in CODES or (c0 == 0xD4) != (c1 % 2 == 0):
        f["ok"] = False
        return f
    f["req"] = c0 == 0xD4
    f["code"] = CODES[c1]
    if f["code"] == "DEP":
        if len(data) < pos + 4:
            f["ok"] = False
            return f
        pfb = data[pos + 3]
        f["kind"] = KINDS.get(pfb >> 4, "?%d" % (pfb >> 4))
        f["pni"] = pfb & 3
        p = pos + 4
        if pfb & 4:
            f["did"] = data[p] if len(data) > p else -1
            p += 1
        if pfb & 8:
            f["nad"] = data[p] if len(data) > p else -1
            p += 1
        f["inf"] = data[p:]
    else:
        f["kind"] = f["code"]
    return f


class Result(object):
    def __init__(self):
        self.i_act = None       # general bytes the initiator got (None: failed)
        self.t_act = None
        self.i_got = []         # payloads returned by Initiator.exchange
        self.t_got = []         # payloads returned by Target.exchange
        self.i_err = None       # (exchange index, CommunicationError)
        self.t_err = None
        self.i_exc = None       # any other exception (with traceback)
        self.t_exc = None
        self.t_end = None       # "none": exchange returned None
        self.i_done = False
        self.t_done = False
        self.i_params = {}
        self.t_params = {}
        self.frames = []        # post-activation frames: parse() + dir, fate, n
        self.act_frames = []    # activation frames
        self.timed_out = False  # conversation did not end inside the limit
        self.budget = False     # scheduler step budget exhausted (busy loop)
        self.steps = 0
        self.deadlock = None
        self.t_final_call = False   # t_err / t_end belong to the call after
        #                             the last request was handed out
        self.vtime = 0.0
        self.rtox = []          # (response index, value asked, value confirmed)


def timeouts(cfg):
    """generous virtual time budgets: one exchange of the initiator covers
    several response waiting times, the target outlasts any recovery"""
    rwt = 4096 / 13.56E6 * 2 ** cfg["rwt"]
    t_i = 6 * rwt + 1.0
    # response timeout extensions the target application will ask for: the
    # initiator's caller allows for them (twice: one may have to be waited
    # out again after a lost frame)
    t_i += 2 * sum(v for _, v in cfg.get("rtox") or []) * rwt
    # one Target.exchange() spans all chained frames of a response and of the
    # next request; each of them may cost one rwt of recovery
    return {"rwt": rwt, "i": t_i, "t": 150 * rwt + 4 * t_i + 10.0,
            "listen": 4 * rwt + 3.0}


def converse(cfg, reqs, ress, script, step_budget=20000, medium=None):
    """run one conversation.  cfg: brs lri lrt rwt did nad gbi gbt start seed
    release; reqs/ress: lists of bytes; script: {slot: "lose"|"corrupt"} over
    the frames that follow activation (slot 0 is the first DEP_REQ).
    medium: None = two SimDevice frontends on a simdev.Air; or a callable
    returning (air, initiator frontend, target frontend) where air offers
    ``fault`` and ``log`` like simdev.Air (e.g. udpair.frontends: the real
    nfc.clf.udp driver on both sides)."""
    vsched.patch_nfc()
    out = Result()
    tmo = timeouts(cfg)
    s = BudgetSched((), seed=cfg.get("seed", 0), step_budget=step_budget)
    vsched.activate(s)
    try:
        if medium is None:
            air = simdev.Air()
            ci = simdev.frontend(air, "i")
            ct = simdev.frontend(air, "t")
        else:
            air, ci, ct = medium()
        out.air = air
        cv = vsched.VCondition()
        state = {"slot": None}

        def fault(direction, n, frame):
            if state["slot"] is None:
                if not (direction == "I>T" and is_dep_req(frame)):
                    return "deliver"
                state["slot"] = 0
                state["first"] = n
            else:
                state["slot"] += 1
            return script.get(state["slot"], "deliver")
        air.fault = fault

        def finish(side):
            with cv:
                setattr(out, side + "_done", True)
                cv.notify_all()

        def target_main():
            try:
                tg = nfc.dep.Target(ct)
                opts = {"lrt": cfg["lrt"], "rwt": cfg["rwt"]}
                if cfg.get("gbt"):
                    opts["gbt"] = bytes(cfg["gbt"])
                gbi = tg.activate(timeout=tmo["listen"], **opts)
                if gbi is None:
                    return
                out.t_act = bytes(gbi)
                out.t_params = {"miu": tg.miu, "did": tg.did, "rwt": tg.rwt,
                                "brty": tg.target.brty}
                data, k = None, 0
                plan = [list(x) for x in cfg.get("rtox") or []]
                while True:
                    out.t_final_call = k >= len(reqs)
                    try:
                        # the application needs more time for this response:
                        # response timeout extension request(s) first
                        stop = False
                        for idx, v in plan:
                            if data is not None and idx == k - 1:
                                got = tg.send_timeout_extension(v)
                                out.rtox.append((idx, v, got))
                                if got is None:
                                    stop = True
                                    break
                        if stop:
                            out.t_end = "rtox-none"
                            break
                        # (payloads are handed over as bytes or bytearray)
                        req = tg.exchange(bytearray(data) if data is not None
                                          and k & 1 else data, tmo["t"])
                    except nfc.clf.CommunicationError as e:
                        out.t_err = (k, e)
                        break
                    if req is None:
                        out.t_end = "none"
                        break
                    out.t_got.append(bytes(req))
                    if k >= len(ress):
                        break
                    data, k = ress[k], k + 1
            except (vsched.Abort, vsched.StepBudget):
                raise
            except BaseException as e:
                out.t_exc = e
            finally:
                finish("t")

        def initiator_main():
            try:
                ini = nfc.dep.Initiator(ci)
                tgt = None
                if cfg.get("start", "106A") != "106A":
                    rt = nfc.clf.RemoteTarget(
                        cfg["start"], sensf_req=bytearray(b"\0\xFF\xFF\0\0"))
                    tgt = ci.sense(rt, iterations=5, interval=0.1)
                    if tgt is None:
                        return
                opts = {"brs": cfg["brs"], "lri": cfg["lri"], "acm": False}
                if cfg.get("gbi"):
                    opts["gbi"] = bytes(cfg["gbi"])
                if cfg.get("did") is not None:
                    opts["did"] = cfg["did"]
                if cfg.get("nad") is not None:
                    opts["nad"] = cfg["nad"]
                gbt = ini.activate(tgt, **opts)
                if gbt is None:
                    return
                out.i_act = bytes(gbt)
                out.i_params = {"miu": ini.miu, "did": ini.did, "rwt": ini.rwt,
                                "brty": ini.target.brty}
                for k, req in enumerate(reqs):
                    try:
                        r = ini.exchange(bytearray(req) if k & 1 else req,
                                         tmo["i"])
                    except nfc.clf.CommunicationError as e:
                        out.i_err = (k, e)
                        break
                    out.i_got.append(bytes(r))
                ini.deactivate(release=cfg.get("release", True))
            except (vsched.Abort, vsched.StepBudget):
                raise
            except BaseException as e:
                out.i_exc = e
            finally:
                finish("i")

        s.spawn(target_main, "dep-t")
        s.spawn(initiator_main, "dep-i")
        limit = (len(reqs) + 2) * (tmo["t"] + tmo["i"]) * 4 + 60
        end = s.now + limit
        try:
            with cv:
                while not (out.i_done and out.t_done) and s.now < end:
                    if not cv.wait(end - s.now):
                        break
        except vsched.StepBudget:
            pass
        # more scheduling points than any conversation needs: somebody loops
        # without ever waiting for virtual time to pass
        out.budget = s.exhausted
        out.steps = s.steps
        out.timed_out = not (out.i_done and out.t_done)
        out.deadlock = s.deadlock
        out.vtime = s.now
        first = state.get("first")
        for e in air.log:
            f = parse(e["brty"], e["data"])
            f.update(dir=e["dir"], fate=e["fate"], n=e["n"], brty=e["brty"],
                     t=e["t"])
            if first is not None and e["n"] >= first:
                f["slot"] = e["n"] - first
                out.frames.append(f)
            else:
                f["data"] = e["data"]
                out.act_frames.append(f)
    finally:
        s.shutdown()
        vsched.activate(None)
    return out


def is_dep_req(frame):
    """LEN D4 06 .. (212F/424F) or F0 LEN D4 06 .. (106A)"""
    frame = bytes(frame)
    return frame[1:3] == b"\xD4\x06" or (
        frame[:1] == b"\xF0" and frame[2:4] == b"\xD4\x06")


def steps(frames):
    """split the post-activation wire log into protocol steps: a step starts
    at an initiator INF/I++/ACK frame whose PNI differs from the one that
    opened the current step, and holds everything up to the next such frame
    (responses, ATN/NAK recovery, retransmissions).  DSL/RLS frames form the
    trailing release step.  Returns a list of dicts(frames, faults, release)"""
    out = []
    cur = None
    for f in frames:
        opener = (f["dir"] == "I>T" and f["code"] == "DEP"
                  and f["kind"] in ("INF", "I++", "ACK"))
        release = f["code"] in ("DSL", "RLS")
        if release:
            if cur is None or not cur["release"]:
                cur = {"frames": [], "pni": None, "release": True}
                out.append(cur)
        elif opener and (cur is None or cur["release"]
                         or cur["pni"] != f["pni"]):
            cur = {"frames": [], "pni": f["pni"], "release": False}
            out.append(cur)
        elif cur is None:
            cur = {"frames": [], "pni": None, "release": False}
            out.append(cur)
        cur["frames"].append(f)
    for st in out:
        st["faults"] = [f for f in st["frames"] if f["fate"] != "deliver"]
    return out


def describe(f):
    return "%s:%s:%s" % (f["fate"], f["dir"], f["kind"])


def parse_activation(brty, data):
    """ATR_REQ / ATR_RES / PSL_REQ fields (independent reading) or None"""
    data = bytes(data)
    if brty == "106A":
        if data[:1] != b"\xF0":
            return None
        data = data[1:]
    if len(data) < 3 or data[0] != len(data):
        return None
    d = data[1:]
    if d[:2] == b"\xD4\x00" and len(d) >= 16:
        pp = d[15]
        return {"pdu": "ATR_REQ", "did": d[12], "lr": (pp >> 4) & 3,
                "gb": d[16:] if pp & 2 else b"", "nad": pp & 1}
    if d[:2] == b"\xD5\x01" and len(d) >= 17:
        pp = d[16]
        return {"pdu": "ATR_RES", "did": d[12], "wt": d[15] & 15,
                "lr": (pp >> 4) & 3, "gb": d[17:] if pp & 2 else b"",
                "nad": pp & 1}
    if d[:2] == b"\xD4\x04" and len(d) == 5:
        return {"pdu": "PSL_REQ", "did": d[2], "dsi": (d[3] >> 3) & 7,
                "dri": d[3] & 7, "lr": d[4] & 3}
    if d[:2] == b"\xD5\x05":
        return {"pdu": "PSL_RES"}
    return None


class Pair(object):
    """p2p.Pair on a BudgetSched (same interface)"""

    def __new__(cls, choices=(), seed=0, opts_i=None, opts_t=None,
                step_budget=400000, medium=None):
        from . import p2p
        orig = vsched.Sched
        vsched.Sched = BudgetSched      # p2p.Pair looks the class up here
        try:
            return p2p.Pair(choices, seed=seed, opts_i=opts_i, opts_t=opts_t,
                            step_budget=step_budget, medium=medium)
        finally:
            vsched.Sched = orig


def nfc_frame(exc):
    """(exception type name, innermost nfcpy frame "module:function") of an
    exception that passed through nfcpy; frames of the simulated driver
    below it are skipped (a TimeoutError is born in SimDevice)"""
    found = ""
    for fs in traceback.extract_tb(exc.__traceback__):
        fn = fs.filename.replace("\\", "/")
        if "/nfc/" in fn and "/vlib/" not in fn and "/src/nfc/" in fn:
            mod = "nfc" + os.path.splitext(fn)[0].split("/src/nfc", 1)[-1]
            mod = mod.replace("/", ".")
            if mod.endswith(".__init__"):
                mod = mod[:-9]
            found = "%s:%s" % (mod, fs.name)
    return type(exc).__name__, found
