import sys, logging; sys.path.insert(0, "/tmp/probe4"); logging.disable(logging.CRITICAL)
import nfc, nfc.clf, nfc.clf.device, nfc.tag, nfc.tag.tt4, picc

class EchoApp(object):
    def __init__(s, rlen): s.execlog = []; s.rlen = rlen
    def execute(s, apdu):
        s.execlog.append(bytes(apdu))
        n = len(s.execlog)
        return bytes([n]) * s.rlen + b"\x90\x00"

class Dev(nfc.clf.device.Device):
    def __init__(s, card, ats, script): s.card=card; s.ats=ats; s._path="sim"; s._chipset_name="SIM"; s.n=0; s.script=script; s.slots=0
    def mute(s): pass
    def sense_tta(s, t): return nfc.clf.RemoteTarget("106A", sens_res=bytearray(b"\x44\x03"), sel_res=bytearray(b"\x20"), sdd_res=bytearray(b"\x08\x01\x02\x03"))
    def get_max_send_data_size(s, t): return 290
    def get_max_recv_data_size(s, t): return 290
    def send_cmd_recv_rsp(s, t, data, timeout):
        if data[0] == 0xE0: return bytearray(s.ats)
        s.slots += 1
        f = s.script.get(s.slots, "ok")
        if f in ("lose>", "corrupt>"): raise nfc.clf.TimeoutError
        r = s.card.process(data)
        if r is None: raise nfc.clf.TimeoutError
        s.slots += 1
        f = s.script.get(s.slots, "ok")
        if f == "lose<": raise nfc.clf.TimeoutError
        if f == "corrupt<": raise nfc.clf.TransmissionError
        return r

def run(script, clen=70, rlen=70, fsci=2, fwi=4, wtx=0, chunk=20):
    app = EchoApp(rlen)
    fsc=(16,24,32,40,48,64,96,128,256)[fsci]
    card = picc.Picc(app, fsc=fsc, chunk=chunk, wtx=wtx)
    clf = nfc.clf.ContactlessFrontend(); dev = Dev(card, bytes([5, 0x70|fsci, 0x80, fwi<<4, 0x02]), script); clf.device = dev
    tag = nfc.tag.activate(clf, clf.sense(nfc.clf.RemoteTarget("106A")))
    res = []
    for i in range(2):
        cmd = bytes([0x80, 0x10 + i, 0, 0]) + bytes([i]) * (clen - 4)
        try:
            r = tag.transceive(cmd)
            res.append(("ret", bytes(r) == bytes([len(app.execlog)]) * rlen + b"\x90\x00", app.execlog.count(cmd)))
        except BaseException as e:
            res.append(("exc", type(e).__module__ + "." + type(e).__name__, app.execlog.count(cmd)))
    return res, dev.slots, card.oversize

base, slots, over = run({})
print("fault-free:", base, "slots", slots, "oversize", over)
bad = {}
for pos in range(1, slots + 1):
    for kind in ("lose", "corrupt"):
        k = kind + (">" if pos % 2 else "<")
        r, _, _ = run({pos: k})
        if r != base: bad[(pos, k)] = r
print("single faults not absorbed:", bad)
base, slots, over = run({}, wtx=1)
print("wtx fault-free:", base, slots)
bad = {}
for pos in range(1, slots + 1):
    for kind in ("lose", "corrupt"):
        k = kind + (">" if pos % 2 else "<")
        r, _, _ = run({pos: k}, wtx=1)
        if r != base: bad[(pos, k)] = r
print("wtx single faults not absorbed:", bad)
