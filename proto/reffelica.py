# PROTOTYPE: independent FeliCa Lite session key / MAC (wire byte order in, wire order out)
from pyDes import des, ECB

def _ede2(k1, k2, block, decrypt=False):
    a, b = des(bytes(k1), ECB), des(bytes(k2), ECB)
    if not decrypt:
        return a.encrypt(b.decrypt(a.encrypt(bytes(block))))
    return a.decrypt(b.encrypt(a.decrypt(bytes(block))))

def _cbc(k1, k2, iv, blocks):
    out = []; prev = bytes(iv)
    for blk in blocks:
        x = bytes(p ^ q for p, q in zip(blk, prev))
        prev = _ede2(k1, k2, x); out.append(prev)
    return out

def rev(b): return bytes(b)[::-1]

def session_key(ck_wire, rc_wire):
    ck1, ck2 = rev(ck_wire[0:8]), rev(ck_wire[8:16])
    rc1, rc2 = rev(rc_wire[0:8]), rev(rc_wire[8:16])
    sk1, sk2 = _cbc(ck1, ck2, bytes(8), [rc1, rc2])
    return sk1, sk2, rc1

def mac(sk1, sk2, rc1, data_wire):
    blocks = [rev(data_wire[i:i+8]) for i in range(0, len(data_wire), 8)]
    return rev(_cbc(sk1, sk2, rc1, blocks)[-1])

def mac_a_write(sk1, sk2, rc1, wcnt_wire3, block_no, data_wire):
    # Lite-S MAC_A for write: keys flipped, first plaintext block = WCNT[0..2] 00 blk 00 91 00 (wire order)
    hdr = bytes(wcnt_wire3) + b"\x00" + bytes([block_no]) + b"\x00\x91\x00"
    blocks = [rev(hdr)] + [rev(data_wire[i:i+8]) for i in range(0, 16, 8)]
    return rev(_cbc(sk2, sk1, rc1, blocks)[-1])
