# PROTOTYPE ISO/IEC 14443-4 PICC block protocol model + minimal T4T file system
import struct


class Picc(object):
    def __init__(self, app, fsc=256, chunk=None, wtx=0):
        self.app = app
        self.fsc = fsc
        self.chunk = chunk or 253      # response INF bytes per block
        self.bn = 1                    # rule D
        self.last = None               # last block sent (for retransmission)
        self.rx_chain = bytearray()    # command being reassembled
        self.tx_chain = None           # remaining response bytes when chaining
        self.wtx_pending = 0
        self.wtx_per_cmd = wtx
        self.pending_response = None
        self.oversize = 0
        self.log = []

    def _send(self, block):
        self.last = bytes(block)
        return bytearray(block)

    def _send_i(self):
        # send next chunk of tx_chain
        data = self.tx_chain[:self.chunk]
        self.tx_chain = self.tx_chain[self.chunk:]
        more = len(self.tx_chain) > 0
        if not more:
            self.tx_chain = None
        return self._send(bytes([0x02 | (0x10 if more else 0) | self.bn]) + data)

    def process(self, block):
        """returns response block (bytearray) or None (mute)"""
        block = bytes(block)
        self.log.append(block)
        if len(block) + 2 > self.fsc:
            self.oversize += 1
            return None
        if not block:
            return None
        pcb = block[0]
        if pcb & 0xC0 == 0x00 and pcb & 0x02:            # I-block
            chaining = bool(pcb & 0x10)
            inf = block[1:]
            self.bn ^= 1                                  # rule E (toggle on I-block)
            self.rx_chain += inf
            if chaining:
                return self._send(bytes([0xA2 | self.bn]))   # R(ACK), rule 2
            cmd, self.rx_chain = bytes(self.rx_chain), bytearray()
            rsp = self.app.execute(cmd)
            self.tx_chain = bytearray(rsp)
            if self.wtx_per_cmd:
                self.wtx_pending = self.wtx_per_cmd
                self.wtx_pending -= 1
                return self._send(bytes([0xF2, 0x01]))      # S(WTX) request
            return self._send_i()
        if pcb & 0xE6 == 0xA2:                           # R-block
            nak = bool(pcb & 0x10)
            bn = pcb & 1
            if bn == self.bn:                            # rule 11: retransmit
                return bytearray(self.last) if self.last else None
            if nak:                                      # rule 12
                return self._send(bytes([0xA2 | self.bn]))
            if self.tx_chain is not None:                # rule 13: continue chaining
                self.bn ^= 1
                return self._send_i()
            return None
        if pcb & 0xC7 == 0xC2:                           # S-block
            if pcb & 0x30 == 0x30:                       # S(WTX) response
                if self.wtx_pending:
                    self.wtx_pending -= 1
                    return self._send(bytes([0xF2, 0x01]))
                return self._send_i()
            if pcb & 0x30 == 0x00:                       # DESELECT
                return self._send(block)
        return None


class T4App(object):
    def __init__(self, mle=255, mlc=255, fsize=1024, ver=0x20, ndef=b''):
        self.files = {}
        self.cur = None
        self.selected_app = False
        self.execlog = []
        if ver >> 4 == 3:
            tlv = bytes([6, 8]) + b'\xE1\x04' + struct.pack(">I", fsize) + b'\0\0'
            nl = 4
        else:
            tlv = bytes([4, 6]) + b'\xE1\x04' + struct.pack(">H", fsize) + b'\0\0'
            nl = 2
        cc = struct.pack(">HBHH", 7 + len(tlv), ver, mle, mlc) + tlv
        self.files[b'\xE1\x03'] = bytearray(cc)
        f = bytearray(fsize + 64)
        f[0:nl] = struct.pack(">I" if nl == 4 else ">H", len(ndef))
        f[nl:nl + len(ndef)] = ndef
        self.files[b'\xE1\x04'] = f
        self.mle, self.mlc, self.fsize = mle, mlc, fsize

    def execute(self, apdu):
        self.execlog.append(apdu)
        cla, ins, p1, p2 = apdu[:4]
        body = apdu[4:]
        lc, data, le = 0, b'', None
        if len(body) == 1:
            le = body[0] or 256
        elif len(body) > 1:
            lc = body[0]
            data = body[1:1 + lc]
            rest = body[1 + lc:]
            if rest:
                le = rest[0] or 256
        if ins == 0xA4 and p1 == 0x04:
            if data in (bytes.fromhex("D2760000850101"), ):
                self.selected_app = True
                return b'\x90\x00'
            return b'\x6A\x82'
        if ins == 0xA4 and p1 == 0x00:
            if self.selected_app and data in self.files:
                self.cur = data
                return b'\x90\x00'
            return b'\x6A\x82'
        if ins == 0xB0:
            if self.cur is None:
                return b'\x69\x86'
            off = p1 << 8 | p2
            f = self.files[self.cur]
            n = min(le or 0, self.mle)
            if off > len(f):
                return b'\x6B\x00'
            return bytes(f[off:off + n]) + b'\x90\x00'
        if ins == 0xD6:
            if self.cur is None:
                return b'\x69\x86'
            off = p1 << 8 | p2
            if lc > self.mlc:
                return b'\x67\x00'
            f = self.files[self.cur]
            if off + lc > len(f):
                return b'\x6B\x00'
            f[off:off + lc] = data
            return b'\x90\x00'
        return b'\x6D\x00'
