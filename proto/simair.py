# PROTOTYPE (design phase): simulated RF medium + SimDevice for P2P passive 106A.
# Used with proto/vsched.py; ran full SNEP put between two clf.connect(llcp=..) in ~10ms.
import nfc.clf
import nfc.clf.device
import vsched


class Air(object):
    def __init__(self):
        self.cond = vsched.VCondition()
        self.listener = None      # dict(dev=..., target=LocalTarget, state=...)
        self.to_t = []            # frames initiator -> target
        self.to_i = []            # frames target -> initiator
        self.log = []
        self.fault = None         # fn(direction, n, frame) -> 'deliver'|'lose'|'corrupt'
        self.n = 0


class SimDevice(nfc.clf.device.Device):
    def __init__(self, air, name):
        self.air, self.name = air, name
        self._path = "sim:" + name
        self._chipset_name = "SIM"
        self.calls = []

    def close(self):
        self.calls.append("close")

    def mute(self):
        self.calls.append("mute")

    def sense_tta(self, target):
        self.calls.append("sense_tta")
        if target.brty != "106A":
            raise nfc.clf.UnsupportedTargetError(target.brty)
        air = self.air
        with air.cond:
            lst = air.listener
            if lst and lst["state"] == "listen":
                t = lst["target"]
                return nfc.clf.RemoteTarget(
                    "106A", sens_res=t.sens_res[:], sdd_res=t.sdd_res[:],
                    sel_res=t.sel_res[:])
        return None

    def sense_ttb(self, target):
        return None

    def sense_ttf(self, target):
        return None

    def sense_dep(self, target):
        raise nfc.clf.UnsupportedTargetError("no active mode")

    def _now(self):
        return vsched._current[0].now

    def listen_dep(self, target, timeout):
        self.calls.append("listen_dep")
        air = self.air
        with air.cond:
            air.listener = dict(dev=self, target=target, state="listen")
            air.to_t[:] = []
            left = timeout
            atr_req = psl_req = None
            brty = "106A"
            while True:
                while not air.to_t:
                    t0 = self._now()
                    if not air.cond.wait(left):
                        air.listener = None
                        return None
                    left -= self._now() - t0
                    if left <= 0 and not air.to_t:
                        air.listener = None
                        return None
                fb, frame = air.to_t.pop(0)
                frame = bytearray(frame)
                if fb == "106A":
                    if frame[0] != 0xF0:
                        continue
                    frame = frame[1:]
                if frame[0] != len(frame):
                    continue
                data = frame[1:]
                if data[0:2] == b"\xD4\x00":
                    atr_req = data
                    atr_res = bytearray(target.atr_res)
                    atr_res[12] = atr_req[12]
                    self._reply(brty, atr_res)
                    air.listener["state"] = "atr"
                elif data[0:2] == b"\xD4\x04" and atr_req:
                    psl_req = data
                    self._reply(brty, b"\xD5\x05" + data[2:3])
                    brty = ("106A", "212F", "424F")[data[3] >> 3 & 7]
                elif data[0:2] == b"\xD4\x06" and atr_req:
                    air.listener["state"] = "active"
                    t = nfc.clf.LocalTarget(brty, dep_req=data)
                    t.atr_req, t.atr_res = atr_req, atr_res
                    if psl_req:
                        t.psl_req = psl_req
                    t.sens_res = target.sens_res
                    t.sdd_res = target.sdd_res
                    t.sel_res = target.sel_res
                    return t

    def _reply(self, brty, data):
        frame = bytearray([len(data) + 1]) + data
        if brty == "106A":
            frame = b"\xF0" + frame
        self.air.to_i.append((brty, bytes(frame)))
        self.air.cond.notify_all()

    def _fault(self, direction, frame):
        air = self.air
        air.n += 1
        if air.fault is None:
            return "deliver"
        return air.fault(direction, air.n, frame)

    def send_cmd_recv_rsp(self, target, data, timeout):
        air = self.air
        with air.cond:
            air.log.append(("I>T", target.brty, bytes(data)))
            air.to_i[:] = []
            f = self._fault("I>T", data)
            if f != "lose":
                air.to_t.append((target.brty, bytes(data), f) if False
                                else (target.brty, bytes(data)))
                air.corrupt_next_t = (f == "corrupt")
                air.cond.notify_all()
            left = timeout
            while not air.to_i:
                t0 = self._now()
                if not air.cond.wait(left):
                    raise nfc.clf.TimeoutError("sim")
                left -= self._now() - t0
                if left <= 0 and not air.to_i:
                    raise nfc.clf.TimeoutError("sim")
            item = air.to_i.pop(0)
            if item[0] == "CORRUPT":
                raise nfc.clf.TransmissionError("sim crc")
            return bytearray(item[1])

    def send_rsp_recv_cmd(self, target, data, timeout):
        air = self.air
        with air.cond:
            if data is not None:
                air.log.append(("T>I", target.brty, bytes(data)))
                f = self._fault("T>I", data)
                if f == "deliver":
                    air.to_i.append((target.brty, bytes(data)))
                elif f == "corrupt":
                    air.to_i.append(("CORRUPT", b""))
                air.cond.notify_all()
            if timeout is not None and timeout <= 0:
                return None
            left = timeout
            while not air.to_t:
                t0 = self._now()
                if not air.cond.wait(left):
                    raise nfc.clf.TimeoutError("sim")
                if left is not None:
                    left -= self._now() - t0
                    if left <= 0 and not air.to_t:
                        raise nfc.clf.TimeoutError("sim")
            brty, cmd = air.to_t.pop(0)
            if getattr(air, "corrupt_next_t", False):
                air.corrupt_next_t = False
                raise nfc.clf.TransmissionError("sim crc")
            return bytearray(cmd)

    def get_max_send_data_size(self, target):
        return 290

    def get_max_recv_data_size(self, target):
        return 290
