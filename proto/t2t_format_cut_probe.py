import sys, random, logging, traceback; sys.path.insert(0, "/tmp/probe4"); logging.disable(logging.CRITICAL)
import t2sim, nfc.tag.tt2
rnd = random.Random(7)
stats = {}; fails = {}
def note(k): stats[k] = stats.get(k, 0) + 1
def layouts():
    while True:
        cc2 = rnd.choice([6, 12, 32, 62, 110, 255, rnd.randrange(1, 256)])
        data_end = 16 + cc2 * 8
        tlvs = [b"\0"] * rnd.randrange(0, 4)
        nctrl = rnd.randrange(0, 3)
        approx = 16 + len(tlvs) + 5 * nctrl
        for i in range(nctrl):
            cls = rnd.choice(["inside", "end", "beyond", "gap", "after_hdr"])
            addr = {"gap": approx, "after_hdr": approx + rnd.choice([2, 3, 4]),
                    "inside": rnd.randrange(approx + 4, max(approx + 5, min(data_end, 255))),
                    "end": data_end - rnd.randrange(0, 4), "beyond": data_end + rnd.randrange(0, 8)}[cls]
            addr = max(0, min(addr, 255))
            tlvs.append(t2sim.ctrl_tlv(rnd.choice([1, 2]), addr, rnd.randrange(1, 24)))
        try:
            mem, info = t2sim.build(cc2, tlvs, b"", phys_extra=rnd.choice([0, 4, 16]))
        except Exception:
            continue
        if any(a in info["reserved"] for a in range(info["tlv_off"], info["tlv_off"] + 2)):
            continue
        if info["tlv_off"] + 2 > data_end: continue
        yield cc2, tlvs, info, len(mem) - data_end

gen = layouts()
# ---- format probe
for case in range(2000):
    cc2, tlvs, info0, extra = next(gen)
    cap = t2sim.true_capacity(info0)
    old = bytes(rnd.randrange(1, 256) for _ in range(rnd.choice([0, 1, cap // 2, cap]) if cap > 0 else 0))
    mem, info = t2sim.build(cc2, tlvs, old, phys_extra=extra, filler=0x55)
    sim = t2sim.T2Tag(mem, oneway=set(range(10, 16)))
    before = bytes(sim.mem)
    try:
        clf, tag = t2sim.activate(sim)
        wipe = rnd.choice([None, 0, 0xEE])
        r = tag.format(wipe=wipe)
        allowed = set(a for a in range(info["tlv_off"], info["data_end"]) if a not in info["reserved"])
        diff = [a for a in range(len(before)) if before[a] != sim.mem[a] and a not in allowed]
        if diff:
            note("format outside"); fails.setdefault("format outside", (cc2, [t.hex() for t in tlvs], info["tlv_off"], info["data_end"], wipe, diff[:6], sorted(info["reserved"])[:8]))
            continue
        clf2, tag2 = t2sim.activate(sim)
        if not (tag2.ndef is not None and tag2.ndef.octets == b""):
            note("format not empty"); continue
        note("format ok" if r else "format False")
    except BaseException as e:
        k = "format EXC " + type(e).__name__
        note(k); fails.setdefault(k, (cc2, [t.hex() for t in tlvs], info["tlv_off"], info["data_end"], traceback.format_exc().splitlines()[-3:]))
print(stats)
for k, v in fails.items(): print(k, v)
# ---- cut point probe on big tags
stats = {}; fails = {}
for case in range(300):
    cc2 = rnd.choice([110, 255, 200])
    nnull = rnd.randrange(0, 8)
    tlvs = [b"\0"] * nnull
    mem, info = t2sim.build(cc2, tlvs, b"", phys_extra=0)
    cap = t2sim.true_capacity(info)
    oldlen = rnd.choice([0, 10, 254, 255, 256, 300, cap])
    newlen = rnd.choice([1, 254, 255, 256, 400, cap])
    old = bytes(rnd.randrange(256) for _ in range(oldlen)); new = bytes(rnd.randrange(256) for _ in range(newlen))
    mem, info = t2sim.build(cc2, tlvs, old, phys_extra=0)
    base = t2sim.T2Tag(mem)
    clf, tag = t2sim.activate(base); tag.ndef.octets = new
    n = base.writes
    for k in range(0, n + 1):
        sim = t2sim.T2Tag(mem); sim.cut_after = k
        clf, tag = t2sim.activate(sim)
        try:
            tag.ndef.octets = new
        except nfc.tag.TagCommandError: pass
        sim.dead = False; sim.cut_after = None
        clf2, tag2 = t2sim.activate(sim)
        nd = tag2.ndef
        if nd is None: note("none"); continue
        o = nd.octets
        if o == new: note("new")
        elif o == old: note("old")
        elif o == b"": note("empty")
        else:
            note("MIXTURE"); fails.setdefault("mix", (cc2, info["tlv_off"] % 4, oldlen, newlen, k, n, len(o), o == new[:len(o)]))
print(stats)
for k, v in fails.items(): print(k, v)
