# PROTOTYPE: Type 2 Tag simulator + SimDevice for tags + layout builder/reference walker
import nfc, nfc.clf, nfc.clf.device, nfc.tag


class BudgetExceeded(BaseException):
    pass


class T2Tag(object):
    """memory backed NFC Forum Type 2 Tag (generic personality)."""
    def __init__(self, mem, uid=b"\x02\x11\x22\x33\x44\x55\x66", oneway=()):
        self.mem = bytearray(mem)
        self.uid = bytes(uid)
        self.sector = 0
        self.pending_sector = False
        self.oneway = set(oneway)     # byte addresses with OR-only semantics
        self.log = []                 # (n, kind, addr)
        self.writes = 0
        self.cut_after = None         # power cut after k-th write
        self.dead = False
        self.n = 0
        self.budget = 100000

    def target(self):
        return nfc.clf.RemoteTarget("106A", sens_res=bytearray(b"\x44\x00"),
                                    sel_res=bytearray(b"\x00"),
                                    sdd_res=bytearray(self.uid))

    def command(self, cmd):
        """returns response bytes or None for no response"""
        self.n += 1
        if self.n > self.budget:
            raise BudgetExceeded()
        if self.dead:
            return None
        cmd = bytes(cmd)
        if self.pending_sector:
            self.pending_sector = False
            if len(cmd) == 4:
                if cmd[0] * 1024 < len(self.mem):
                    self.sector = cmd[0]
                    return None          # passive ack
                return b"\x00"           # nak
        if cmd[0] == 0x30 and len(cmd) == 2:
            base = self.sector * 1024
            addr = base + cmd[1] * 4
            if addr >= len(self.mem):
                return b"\x00"
            end = min(base + 1024, len(self.mem))
            data = bytearray()
            a = addr
            for i in range(16):
                data.append(self.mem[a])
                a += 1
                if a >= end:
                    a = base             # roll over to start of sector
            self.log.append((self.n, "R", addr))
            return bytes(data)
        if cmd[0] == 0xA2 and len(cmd) == 6:
            addr = self.sector * 1024 + cmd[1] * 4
            if addr + 4 > len(self.mem):
                return b"\x00"
            if self.cut_after is not None and self.writes >= self.cut_after:
                self.dead = True
                return None
            for i in range(4):
                if addr + i in self.oneway:
                    self.mem[addr + i] |= cmd[2 + i]
                else:
                    self.mem[addr + i] = cmd[2 + i]
            self.writes += 1
            self.log.append((self.n, "W", addr))
            return b"\x0A"
        if cmd[0] == 0xC2 and cmd[1:2] == b"\xFF":
            if len(self.mem) > 1024:
                self.pending_sector = True
                return b"\x0A"
            return b"\x00"
        return None                      # unknown command: tag goes mute


class TagDevice(nfc.clf.device.Device):
    """driver-level simulation with one tag in the field"""
    def __init__(self, tag):
        self.tag = tag
        self._path = "sim:tag"
        self._chipset_name = "SIM"
        self.calls = []
        self.exchanges = 0

    def close(self): pass
    def mute(self): self.calls.append("mute")

    def sense_tta(self, target):
        self.calls.append("sense_tta")
        if target.brty != "106A":
            raise nfc.clf.UnsupportedTargetError(target.brty)
        if self.tag is None or self.tag.dead:
            return None
        t = self.tag.target()
        if target.sel_req and bytes(target.sel_req) != bytes(t.sdd_res):
            return None
        self.tag.sector = 0
        self.tag.pending_sector = False
        return t

    def sense_ttb(self, target): return None
    def sense_ttf(self, target): return None
    def sense_dep(self, target): raise nfc.clf.UnsupportedTargetError("x")

    def send_cmd_recv_rsp(self, target, data, timeout):
        self.exchanges += 1
        rsp = self.tag.command(data)
        if rsp is None:
            raise nfc.clf.TimeoutError("no response")
        return bytearray(rsp)

    def get_max_send_data_size(self, target): return 290
    def get_max_recv_data_size(self, target): return 290


def activate(tag):
    clf = nfc.clf.ContactlessFrontend()
    clf.device = TagDevice(tag)
    target = clf.sense(nfc.clf.RemoteTarget("106A"))
    if target is None:
        return clf, None
    return clf, nfc.tag.activate(clf, target)


# ---------------------------------------------------------------- layouts
def ctrl_tlv(t, addr, size_field, bpp_exp=4):
    """lock (t=1) or memory (t=2) control TLV addressing byte `addr`"""
    page_size = 1 << bpp_exp
    page, offs = divmod(addr, page_size)
    assert page < 16 and offs < 16
    return bytes([t, 3, page << 4 | offs, size_field & 0xFF, (bpp_exp & 0xF) | 0x40])


def rsvd_range(tlv):
    t, l, pos, size, pc = tlv
    page_size = 1 << (pc & 0x0F)
    start = (pos >> 4) * page_size + (pos & 0x0F)
    size = size or 256
    if t == 1:
        size = (size + 7) // 8
    return set(range(start, start + size))


def build(cc2, prefix_tlvs, old, phys_extra=16, filler=0x00, version=0x10):
    """returns (mem, info). prefix_tlvs: list of raw TLV bytes (null=b'\\0')"""
    data_end = 16 + cc2 * 8
    mem = bytearray([filler]) * (data_end + phys_extra)
    mem[0:10] = b"\x02\x11\x22\x99\x33\x44\x55\x66\x44\x48"
    mem[10:12] = b"\x00\x00"
    mem[12:16] = bytes([0xE1, version, cc2, 0x00])
    reserved = set()
    for tlv in prefix_tlvs:
        if tlv[0] in (1, 2):
            reserved |= rsvd_range(tlv)
    off = 16
    for tlv in prefix_tlvs:
        while off in reserved:
            off += 1
        mem[off:off + len(tlv)] = tlv
        off += len(tlv)
    while off in reserved:
        off += 1
    tlv_off = off
    # write old message respecting reserved bytes
    hdr = bytes([3, len(old)]) if len(old) < 255 else bytes([3, 255, len(old) >> 8, len(old) & 255])
    mem[off:off + len(hdr)] = hdr
    a = off + len(hdr)
    for b in old:
        while a in reserved:
            a += 1
        mem[a] = b
        a += 1
    while a in reserved:
        a += 1
    if a < data_end:
        mem[a] = 0xFE
    return mem, dict(tlv_off=tlv_off, reserved=reserved, data_end=data_end)


def true_capacity(info):
    avail = [a for a in range(info["tlv_off"] + 1, info["data_end"]) if a not in info["reserved"]]
    n = len(avail)
    c1 = min(254, n - 1)
    c3 = n - 3 if n - 3 >= 255 else -1
    return max(c1, c3, 0) if n >= 1 else 0


def ref_read(mem, info):
    """independent TLV walk over a raw image; returns ndef bytes or None"""
    if mem[12] != 0xE1 or mem[13] >> 4 != 1:
        return None
    data_end = 16 + mem[14] * 8
    reserved = set()
    off = 16
    while off < data_end:
        if off in reserved:
            off += 1
            continue
        t = mem[off]
        if t == 0:
            off += 1
            continue
        if t == 0xFE:
            return None
        l = mem[off + 1]
        hl = 2
        if l == 255:
            l = mem[off + 2] << 8 | mem[off + 3]
            hl = 4
        if t == 3:
            out = bytearray()
            a = off + hl
            while len(out) < l:
                if a not in reserved:
                    out.append(mem[a])
                a += 1
            return bytes(out)
        v = mem[off + hl:off + hl + l]
        if t in (1, 2) and l == 3:
            reserved |= rsvd_range(bytes([t, 3]) + bytes(v))
        off += hl + l
    return None
