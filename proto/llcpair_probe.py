import sys, logging, threading, random; sys.path.insert(0, "/tmp/probe4"); logging.disable(logging.CRITICAL)
import vsched, nfc, nfc.clf, nfc.llcp, nfc.llcp.tco, nfc.llcp.llc as L, nfc.llcp.pdu as pdu
vth, vtm = vsched.vthreading(), vsched.vtime()
for m in (nfc.llcp.tco, nfc.llcp.llc): m.threading = vth
nfc.llcp.llc.time = vtm

class Pair(object):
    def __init__(s, miu_a, miu_b, agf=True):
        s.sched = vsched.Sched(); vsched.activate(s.sched)
        s.A = L.LogicalLinkController(miu=miu_a, agf=agf); s.B = L.LogicalLinkController(miu=miu_b, agf=agf)
        s.A.cfg['send-miu'] = miu_b; s.B.cfg['send-miu'] = miu_a
        for x in (s.A, s.B): x.cfg.setdefault('llcp-dpc', 0)
        s.wire = []
    def xfer(s, src, dst, tag):
        p = src.collect()
        if p is None: return None
        raw = pdu.encode(p)
        info = len(raw) - (3 if p.name in ("I", "RR", "RNR") else 2)
        assert info <= src.cfg['send-miu'], ("MIU exceeded", p.name, info, src.cfg['send-miu'])
        q = pdu.decode(raw)
        s.wire.append((tag, q))
        dst.dispatch(q)
        return q
    def pump(s, n=1):
        for i in range(n):
            s.xfer(s.A, s.B, "A>B"); s.sched.settle()
            s.xfer(s.B, s.A, "B>A"); s.sched.settle()
    def close(s):
        s.sched.shutdown(); vsched.activate(None)

def flat(q):
    return list(q) if q.name == "AGF" else [q]

def run(seed):
    rnd = random.Random(seed)
    miu_a, miu_b = rnd.choice([128, 130, 248, 1000, 2175]), rnd.choice([128, 131, 248, 1000, 2175])
    P = Pair(miu_a, miu_b, agf=rnd.random() < 0.7)
    rw_a, rw_b = rnd.randrange(1, 16), rnd.randrange(1, 16)
    smiu_a, smiu_b = rnd.choice([128, 200, miu_a]), rnd.choice([128, 200, miu_b])
    srv = nfc.llcp.Socket(P.B, nfc.llcp.DATA_LINK_CONNECTION)
    srv.setsockopt(nfc.llcp.SO_RCVBUF, rw_b); srv.setsockopt(nfc.llcp.SO_RCVMIU, smiu_b)
    srv.bind("urn:nfc:xsn:t.x:s"); srv.listen(1)
    cli = nfc.llcp.Socket(P.A, nfc.llcp.DATA_LINK_CONNECTION)
    cli.setsockopt(nfc.llcp.SO_RCVBUF, rw_a); cli.setsockopt(nfc.llcp.SO_RCVMIU, smiu_a)
    box = {}
    P.sched.spawn(lambda: box.__setitem__("acc", srv.accept()), "accept")
    P.sched.spawn(lambda: cli.connect("urn:nfc:xsn:t.x:s"), "connect")
    P.sched.settle()
    for i in range(6):
        P.pump()
        if "acc" in box and cli.getpeername() is not None: break
    assert "acc" in box, "no accept"
    acc = box["acc"]
    ends = {"a": cli, "b": acc}
    sent = {"a": [], "b": []}; rcvd = {"a": [], "b": []}
    info = dict(seed=seed, mius=(miu_a, miu_b), rw=(rw_a, rw_b), smiu=(cli.getsockopt(nfc.llcp.SO_SNDMIU), acc.getsockopt(nfc.llcp.SO_SNDMIU)))
    stats = dict(full=0, sends=0)
    try:
        for step in range(rnd.randrange(20, 300)):
            op = rnd.choice(["send", "send", "recv", "xa", "xb", "busy"])
            e = rnd.choice("ab"); o = "b" if e == "a" else "a"
            if op == "send":
                smiu = ends[e].getsockopt(nfc.llcp.SO_SNDMIU)
                n = rnd.choice([0, 1, smiu - 1, smiu, smiu + 1, rnd.randrange(0, smiu + 1)])
                msg = bytes([len(sent[e]) & 255]) * n
                try:
                    ok = ends[e].send(msg, nfc.llcp.MSG_DONTWAIT)
                    assert n <= smiu, "oversize accepted"
                    assert ok is True
                    sent[e].append(msg); stats["sends"] += 1
                except nfc.llcp.Error as err:
                    if err.errno == nfc.llcp.errno.EMSGSIZE: assert n > smiu
                    elif err.errno == nfc.llcp.errno.EWOULDBLOCK: stats["full"] += 1
                    else: raise
            elif op == "recv":
                if ends[e].poll("recv", 0):
                    rcvd[e].append(ends[e].recv())
            elif op == "xa": P.xfer(P.A, P.B, "A>B"); P.sched.settle()
            elif op == "xb": P.xfer(P.B, P.A, "B>A"); P.sched.settle()
            elif op == "busy":
                ends[e].setsockopt(nfc.llcp.SO_RCVBSY, rnd.random() < 0.5)
        for e in "ab": ends[e].setsockopt(nfc.llcp.SO_RCVBSY, False)
        for i in range(400):
            P.pump()
            for e in "ab":
                while ends[e].poll("recv", 0): rcvd[e].append(ends[e].recv())
            if rcvd["a"] == sent["b"] and rcvd["b"] == sent["a"]: break
        # monitor on wire
        frmr = [q for t, f in P.wire for q in flat(f) if q.name == "FRMR"]
        assert not frmr, ("FRMR", [str(x) for x in frmr])
        assert rcvd["a"] == sent["b"], ("a rcvd", len(rcvd["a"]), len(sent["b"]))
        assert rcvd["b"] == sent["a"], ("b rcvd", len(rcvd["b"]), len(sent["a"]))
        # window check
        for d, rw in (("A>B", rw_b), ("B>A", rw_a)):
            rd = "B>A" if d == "A>B" else "A>B"
            out = 0; ns_expect = 0; acked = 0; sent_cnt = 0
            for t, f in P.wire:
                for q in flat(f):
                    if t == d and q.name == "I":
                        assert q.ns == ns_expect % 16, ("ns", q.ns, ns_expect)
                        ns_expect += 1; sent_cnt += 1
                        assert sent_cnt - acked <= rw, ("window", sent_cnt - acked, rw)
                    if t == rd and q.name in ("I", "RR", "RNR"):
                        delta = (q.nr - acked) % 16
                        acked += delta
                        assert acked <= sent_cnt, "ack beyond"
        return ("ok", stats, len(P.wire))
    except AssertionError as e:
        return ("FAIL", info, e.args)
    finally:
        P.close()

res = {}
for seed in range(300):
    r = run(seed)
    res[r[0]] = res.get(r[0], 0) + 1
    if r[0] != "ok": print(r)
print(res)
