import sys, logging; sys.path.insert(0, "/tmp/probe4"); logging.disable(logging.CRITICAL)
import chipsim, nfc, nfc.clf, nfc.clf.pn531, nfc.clf.pn532, nfc.clf.pn533, nfc.clf.rcs956, time
import nfc.clf.pn53x
nfc.clf.pn53x.time = type("T", (), {"sleep": staticmethod(lambda d: None), "time": staticmethod(time.time)})
nfc.clf.rcs956.time = nfc.clf.pn53x.time
def make(chip):
    tr = chipsim.Pn53xSim(chip)
    if chip == "pn531": dev = nfc.clf.pn531.init(tr)
    elif chip == "pn532":
        dev = nfc.clf.pn532.Device(nfc.clf.pn532.Chipset(tr, logging.getLogger("x")), logging.getLogger("x"))
    elif chip == "pn533": dev = nfc.clf.pn533.init(tr)
    elif chip == "rcs956": dev = nfc.clf.rcs956.init(tr)
    dev._path = "usb:sim"
    clf = nfc.clf.ContactlessFrontend(); clf.device = dev
    return clf, tr
for chip in ("pn531", "pn532", "pn533", "rcs956"):
    clf, tr = make(chip)
    ninit = len(tr.cmds)
    clf.target = nfc.clf.RemoteTarget("212F", sensf_res=bytearray(19))
    tr.rf = lambda arg: (0, b"\x05resp")
    r = clf.exchange(b"\x06\x00\xff\xff\x00\x00", 0.1)
    seq = [hex(c) for c, a in tr.cmds[ninit:]]
    out = {}
    m = len(tr.cmds) - ninit
    for k in range(m):
        for act in (("errframe",), ("ioerror", 5), ("status", 1), ("noack",)):
            clf, tr = make(chip); base = len(tr.cmds)
            clf.target = nfc.clf.RemoteTarget("212F", sensf_res=bytearray(19))
            tr.rf = lambda arg: (0, b"\x05resp")
            tr.script[base + k] = act
            try: res = "ret"; clf.exchange(b"\x06\x00\xff\xff\x00\x00", 0.1)
            except BaseException as e: res = type(e).__module__ + "." + type(e).__name__
            out[(k, act[0])] = res
    print(chip, "init cmds", ninit, "exchange seq", seq, bytes(r))
    print("   ", {k: v for k, v in out.items() if not (v.startswith("nfc.clf.") and "Chipset" not in v and "pn53x" not in v) and v not in ("builtins.OSError",)})
