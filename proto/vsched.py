# PROTOTYPE (worked first try in design phase, 2026-09-24): cooperative virtual
# scheduler for nfcpy. Real OS threads, exactly one holds the baton; switches only
# at shim calls. Patch: nfc.llcp.tco/llc, nfc.clf, nfc.snep.server,
# nfc.handover.server `.threading = vthreading()`; nfc.llcp.llc, nfc.clf, nfc.dep,
# nfc.handover.client `.time = vtime()`. threading.Thread.start is wrapped globally.
import threading as _th
import types

NEW, RUNNABLE, BLOCKED, DONE = "NEW", "RUNNABLE", "BLOCKED", "DONE"


class Abort(BaseException):
    pass


class VT(object):
    def __init__(self, sched, name, idx):
        self.sched, self.name, self.idx = sched, name, idx
        self.baton = _th.Semaphore(0)
        self.state = NEW
        self.wait_on = None
        self.deadline = None
        self.timed_out = False
        self.exc = None
        self.real = None

    def __repr__(self):
        return "<VT %d %s %s on=%r>" % (self.idx, self.name, self.state,
                                        self.wait_on)


class Sched(object):
    def __init__(self, choices=()):
        self.threads = []
        self.now = 0.0
        self.choices = list(choices)
        self.ci = 0
        self.trace = []
        self.abort = False
        self.steps = 0
        self.tls = _th.local()
        me = VT(self, "controller", 0)
        me.state = RUNNABLE
        me.real = _th.current_thread()
        self.threads.append(me)
        self.tls.vt = me
        self.controller = me
        self.settling = False

    def me(self):
        return self.tls.vt

    def _choose(self, runnable, me):
        if len(runnable) == 1:
            return runnable[0]
        if self.ci < len(self.choices):
            c = self.choices[self.ci]
            self.ci += 1
            nxt = runnable[c % len(runnable)]
        else:
            nxt = me if me in runnable else runnable[0]
        self.trace.append(nxt.idx)
        return nxt

    def switch(self, me):
        """called by current thread at a scheduling point"""
        if self.abort:
            raise Abort()
        self.steps += 1
        if self.steps > 2000000:
            raise RuntimeError("step budget")
        while True:
            runnable = [t for t in self.threads if t.state == RUNNABLE]
            if runnable:
                nxt = self._choose(runnable, me)
                break
            if self.settling and self.controller.state == BLOCKED \
                    and self.controller.wait_on == "settle":
                self.controller.state = RUNNABLE
                continue
            timed = [t for t in self.threads
                     if t.state == BLOCKED and t.deadline is not None]
            if not timed:
                self.deadlock = [repr(t) for t in self.threads
                                 if t.state == BLOCKED]
                c = self.controller
                if c.state == BLOCKED:
                    c.state = RUNNABLE
                    c.deadlocked = True
                    continue
                raise RuntimeError("deadlock incl controller")
            t = min(timed, key=lambda t: (t.deadline, t.idx))
            self.now = max(self.now, t.deadline)
            t.timed_out = True
            t.state = RUNNABLE
            self._unwait(t)
        if nxt is me:
            return
        nxt.baton.release()
        if me.state != DONE:
            me.baton.acquire()
            if self.abort:
                raise Abort()

    def _unwait(self, t):
        w = t.wait_on
        if hasattr(w, "waiters") and t in w.waiters:
            w.waiters.remove(t)
        t.wait_on = None
        t.deadline = None

    def block(self, on, timeout=None):
        me = self.me()
        me.state = BLOCKED
        me.wait_on = on
        me.timed_out = False
        me.deadline = None if timeout is None else self.now + max(0, timeout)
        self.switch(me)
        return not me.timed_out

    def wake(self, t):
        if t.state == BLOCKED:
            t.state = RUNNABLE
            t.wait_on = None
            t.deadline = None

    def yield_(self):
        self.switch(self.me())

    def settle(self):
        me = self.me()
        assert me is self.controller
        self.settling = True
        me.deadlocked = False
        me.state = BLOCKED
        me.wait_on = "settle"
        me.deadline = None
        self.switch(me)
        self.settling = False

    def sleep(self, d):
        self.block("sleep", d)

    def spawn(self, fn, name="t"):
        t = _th.Thread(target=fn, name=name)
        t.start()  # patched start registers
        return t

    def blocked(self):
        return [t for t in self.threads
                if t.state == BLOCKED and t is not self.controller]

    def shutdown(self):
        self.abort = True
        for t in self.threads[1:]:
            if t.state != DONE:
                t.baton.release()
        for t in self.threads[1:]:
            t.real.join(2)

    def register(self, real):
        vt = VT(self, real.name, len(self.threads))
        vt.real = real
        vt.state = RUNNABLE
        self.threads.append(vt)
        orig_run = real.run

        def run():
            self.tls.vt = vt
            vt.baton.acquire()
            try:
                if self.abort:
                    return
                orig_run()
            except Abort:
                pass
            except BaseException as e:  # uncaught in thread
                vt.exc = e
            finally:
                vt.state = DONE
                if not self.abort:
                    try:
                        self.switch(vt)
                    except Abort:
                        pass
        real.run = run
        real.daemon = True


_current = [None]
_orig_start = _th.Thread.start


def _patched_start(self):
    s = _current[0]
    if s is None:
        return _orig_start(self)
    s.register(self)
    _orig_start(self)
    s.yield_()


_th.Thread.start = _patched_start


class VLock(object):
    reentrant = False

    def __init__(self):
        self.owner = None
        self.count = 0
        self.waiters = []

    def acquire(self, blocking=True, timeout=-1):
        s = _current[0]
        me = s.me()
        s.yield_()
        while self.owner is not None and not (self.reentrant
                                              and self.owner is me):
            if not blocking:
                return False
            self.waiters.append(me)
            s.block(self)
        self.owner = me
        self.count += 1
        return True

    def release(self):
        s = _current[0]
        me = s.me()
        if self.owner is not me:
            raise RuntimeError("release unowned lock")
        self.count -= 1
        if self.count == 0:
            self.owner = None
            for t in self.waiters:
                s.wake(t)
            self.waiters = []

    def locked(self):
        return self.owner is not None

    __enter__ = acquire

    def __exit__(self, *a):
        self.release()


class VRLock(VLock):
    reentrant = True


class VCondition(object):
    def __init__(self, lock=None):
        self.lock = lock if lock is not None else VRLock()
        self.waiters = []
        self.acquire = self.lock.acquire
        self.release = self.lock.release

    def __enter__(self):
        return self.lock.__enter__()

    def __exit__(self, *a):
        return self.lock.__exit__(*a)

    def wait(self, timeout=None):
        s = _current[0]
        me = s.me()
        lock = self.lock
        assert lock.owner is me, "wait on unowned lock"
        saved = lock.count
        lock.count = 0
        lock.owner = None
        for t in lock.waiters:
            s.wake(t)
        lock.waiters = []
        self.waiters.append(me)
        ok = s.block(self, timeout)
        if me in self.waiters:
            self.waiters.remove(me)
        while lock.owner is not None:
            lock.waiters.append(me)
            s.block(lock)
        lock.owner = me
        lock.count = saved
        return ok

    def notify(self, n=1):
        s = _current[0]
        for t in self.waiters[:n]:
            self.waiters.remove(t)
            s.wake(t)

    def notify_all(self):
        self.notify(len(self.waiters))


def vthreading():
    return types.SimpleNamespace(
        Lock=VLock, RLock=VRLock, Condition=VCondition, Thread=_th.Thread,
        current_thread=_th.current_thread)


def vtime():
    def time():
        return 1.0e9 + _current[0].now

    def sleep(d):
        _current[0].sleep(d)
    return types.SimpleNamespace(time=time, sleep=sleep)


def activate(s):
    _current[0] = s
