# PROTOTYPE: PN53x-family host protocol responder behind a fake transport
import errno, os, struct

ACK = bytes.fromhex("0000FF00FF00")


def frame(data):
    data = bytes(data)
    if len(data) < 256:
        return b"\x00\x00\xff" + bytes([len(data), (256 - len(data)) & 255]) + data + bytes([(256 - sum(data)) & 255, 0])
    ln = struct.pack(">H", len(data))
    return b"\x00\x00\xff\xff\xff" + ln + bytes([(256 - sum(ln)) & 255]) + data + bytes([(256 - sum(data)) & 255, 0])


def parse(frame_):
    f = bytes(frame_)
    assert f[:3] == b"\x00\x00\xff", f.hex()
    if f[3:5] == b"\xff\xff":
        n = struct.unpack(">H", f[5:7])[0]
        assert sum(f[5:8]) & 255 == 0
        data = f[8:8 + n]; dcs = f[8 + n]
    else:
        n = f[3]; assert (f[3] + f[4]) & 255 == 0
        data = f[5:5 + n]; dcs = f[5 + n]
    assert (sum(data) + dcs) & 255 == 0
    return data


class Pn53xSim(object):
    TYPE = "USB"
    manufacturer_name = "SimCo"
    product_name = "SimReader"

    def __init__(self, chip="pn532", prefix=b""):
        self.chip = chip
        self.prefix = prefix
        self.queue = []
        self.cmds = []          # (code, data)
        self.script = {}        # n -> action
        self.rf = lambda data: (0, b"")     # status, data for InCommunicateThru/InDataExchange
        self.regs = {}

    # transport api
    def write(self, f):
        f = bytes(f)
        if self.prefix:
            assert f.startswith(self.prefix); f = f[len(self.prefix):]
        if f == ACK:
            self.queue[:] = []
            return
        f = f.lstrip(b"\x00")
        f = b"\x00\x00" + f if not f.startswith(b"\x00\x00") else f
        data = parse(f)
        assert data[0] == 0xD4
        code, arg = data[1], data[2:]
        n = len(self.cmds)
        self.cmds.append((code, arg))
        act = self.script.get(n)
        if act is not None:
            kind = act[0]
            if kind == "noack":
                return
            self.queue.append(ACK)
            if kind == "frame":
                self.queue.append(act[1])
            elif kind == "ioerror":
                self.queue.append(IOError(act[1], os.strerror(act[1])))
            elif kind == "errframe":
                self.queue.append(bytes.fromhex("0000FF01FF7F8100"))
            elif kind == "status":
                self.queue.append(frame(bytes([0xD5, code + 1, act[1]])))
            return
        self.queue.append(ACK)
        rsp = self.respond(code, arg)
        if rsp is not None:
            self.queue.append(frame(bytes([0xD5, code + 1]) + rsp))

    def read(self, timeout=0):
        if not self.queue:
            raise IOError(errno.ETIMEDOUT, os.strerror(errno.ETIMEDOUT))
        x = self.queue.pop(0)
        if isinstance(x, Exception):
            raise x
        return bytearray(x)

    def close(self):
        pass

    def respond(self, code, arg):
        chip = self.chip
        if code == 0x00:                       # Diagnose
            if arg[0] == 0:
                return bytes(arg[1:]) if chip == "rcs956" else bytes(arg)
            return b"\x00"
        if code == 0x02:
            return b"\x04\x02" if chip == "pn531" else b"\x32\x01\x06\x07" if chip != "rcs956" else b"\x33\x01\x30\x07"
        if code == 0x04:
            return b"\x00\x00\x00\x00\x80"
        if code == 0x06:                       # ReadRegister
            n = len(arg) // 2
            vals = bytes(self.regs.get(struct.unpack(">H", arg[2*i:2*i+2])[0], 0) for i in range(n))
            if chip == "pn533":
                if arg[:2] == b"\xA0\x00": return b"\x01"    # no eeprom
                return b"\x00" + vals
            return vals
        if code == 0x08:
            for i in range(0, len(arg), 3):
                self.regs[struct.unpack(">H", arg[i:i+2])[0]] = arg[i+2]
            return b"\x00" if chip in ("pn533", "rcs956") else b""
        if code in (0x12, 0x14, 0x32, 0x18, 0x10):
            return b""
        if code == 0x16:
            return b"\x00"
        if code in (0x42, 0x40):
            st, data = self.rf(arg)
            return bytes([st]) + data
        if code == 0x88:
            st, data = self.rf(arg)
            return bytes([st]) + data
        if code == 0x90:
            return b"\x00"
        return b"\x00"
