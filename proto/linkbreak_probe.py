import sys, logging, threading; sys.path.insert(0, "/tmp/probe4"); logging.disable(logging.CRITICAL)
import vsched, simair, nfc, nfc.clf, nfc.dep, nfc.llcp, nfc.llcp.tco, nfc.llcp.llc, nfc.snep.server, nfc.handover.server, nfc.handover.client
vth, vtm = vsched.vthreading(), vsched.vtime()
for m in (nfc.llcp.tco, nfc.llcp.llc, nfc.clf, nfc.snep.server, nfc.handover.server): m.threading = vth
for m in (nfc.llcp.llc, nfc.clf, nfc.dep, nfc.handover.client): m.time = vtm

def scenario(break_at, choices=(), after=None):
    s = vsched.Sched(choices); vsched.activate(s)
    air = simair.Air()
    air.fault = lambda d, n, f: "lose" if n >= break_at else "deliver"
    res = {}
    def mk(n):
        c = nfc.clf.ContactlessFrontend(); c.device = simair.SimDevice(air, n); return c
    A, B = mk("A"), mk("B")
    def app(name, fn):
        def run():
            try: res[name] = ("ret", fn())
            except BaseException as e: res[name] = ("exc", type(e).__name__, str(e))
        threading.Thread(target=run, name=name).start()
    def b_connect(llc):
        res["llcB"] = llc
        ldl = nfc.llcp.Socket(llc, nfc.llcp.LOGICAL_DATA_LINK); ldl.bind(33)
        app("B.recvfrom", ldl.recvfrom)
        srv = nfc.llcp.Socket(llc, nfc.llcp.DATA_LINK_CONNECTION); srv.bind("urn:nfc:xsn:x.y:srv"); srv.listen(1)
        app("B.accept", srv.accept)
        return True
    def a_connect(llc):
        res["llcA"] = llc
        c = nfc.llcp.Socket(llc, nfc.llcp.DATA_LINK_CONNECTION)
        def f():
            c.connect("urn:nfc:xsn:x.y:srv"); c.send(b"hello"); return c.recv()
        app("A.client", f)
        app("A.resolve", lambda: nfc.llcp.Socket(llc, nfc.llcp.LOGICAL_DATA_LINK).resolve("urn:nfc:xsn:no.such:svc2"))
        return True
    s.spawn(lambda: res.__setitem__("B", B.connect(llcp={'role': 'target', 'on-connect': b_connect}, terminate=lambda: "A" in res)), "B.connect")
    s.spawn(lambda: res.__setitem__("A", A.connect(llcp={'role': 'initiator', 'on-connect': a_connect}, terminate=lambda: "B" in res)), "A.connect")
    for i in range(200):
        s.sleep(0.1)
        if "A" in res and "B" in res: break
    s.sleep(5.0)
    out = {k: v for k, v in res.items() if not k.startswith("llc")}
    out["blocked"] = [(t.name, repr(t.wait_on)[:40]) for t in s.blocked()]
    if after and "llcA" in res:
        llc = res["llcA"]
        for name, fn in after(llc):
            app("post." + name, fn)
        s.sleep(30.0)
        out.update({k: v for k, v in res.items() if k.startswith("post")})
        out["blocked_post"] = [t.name for t in s.blocked()]
    out["frames"] = air.n
    out["exc"] = [(t.name, repr(t.exc)) for t in s.threads if t.exc]
    s.shutdown(); vsched.activate(None)
    return out

def after(llc):
    yield "connect", lambda: nfc.llcp.Socket(llc, nfc.llcp.DATA_LINK_CONNECTION).connect(40)
    yield "sendto", lambda: nfc.llcp.Socket(llc, nfc.llcp.LOGICAL_DATA_LINK).sendto(b"x", 40)
    yield "resolve", lambda: nfc.llcp.Socket(llc, nfc.llcp.LOGICAL_DATA_LINK).resolve("urn:nfc:sn:snep")
    def acc():
        s_ = nfc.llcp.Socket(llc, nfc.llcp.DATA_LINK_CONNECTION); s_.bind(50); s_.listen(1); return s_.accept()
    yield "accept", acc

for b in (8, 12, 20, 40):
    print(b, scenario(b, after=after if b == 20 else None))
